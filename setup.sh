#!/bin/bash
# Build the framework from files on disk only (offline): regenerate the Lean definitions from
# /repo, build every property module and the model driver.
set -e
cd "$(dirname "$0")"
python3 tools/translate.py
(cd tools && python3 effects.py --lean ../lean/GroupbyVerif/Generated/Effects.lean)
cd lean
lake build 2>&1 | grep -v "^warning\|^Note\|^Hint\|^\s*\[apply\]\|^$" | tail -20
test -x .lake/build/bin/gbdriver
echo "setup: ok"
