#!/usr/bin/env python3
"""Loop translator: the numba-jitted loop kernels of groupby-lib (Python `ast`) -> Lean 4 definitions.

Regenerated on every check run (called from translate.py); output `Generated/Loops.lean`.  The hand-written
models in `Model/` are proved equal to these definitions in `GroupbyVerif/LoopBridge/*.lean`, so the property
theorems are re-checked against what the loops say *now*.

The accepted subset (anything else is a TranslateError for that function, which leaves its definition out and
thereby breaks the bridge theorems that mention it - fail closed):

  statements   x = e | x op= e | a[i] = e | a[i] op= e | a[i, j] = e | t1, t2 = f(...) | if/elif/else |
               for v in <iterable> (nested) | continue | assert e | raise ... | return e[, e]* (last statement or
               inside a loop, where it stops the loop) | docstrings
  iterables    range(e) | range(a, b) | range(e - 1, -1, -1) | nb.prange(e) | a list-typed name | an array name
  expressions  ints, names, + - * // %, comparisons, and/or/not, `x is None`, `x is not None`, a[i], a[i, j], len(a),
               is_null(e), calls of a reducer parameter, f(...)[0] / [1], np.zeros / np.full / np.empty allocations,
               a[:-1].copy(), a[:, ::-1], conditional expressions

Representation.  Every numpy array is a total function `Int → T` together with a length variable; every index goes
through `normI len e` (numba's wrap-around of negative indices).  Integer arrays of a declared width below 64 bits
store `wrapS w` / `wrapU w` of the value.  Loops are `List.foldl` of a *step function* (its own top-level
definition, so that bridge lemmas can talk about one iteration) over the iteration list; the loop-carried variables
are the fields of a generated structure.  Straight-line code is in SSA form (`let x_3 := ...`), `if` without escape is
a per-variable conditional (`let x_4 := if c then ... else ...`), `continue` returns the current state, `raise` and a
failed `assert` set the function's error flag (the result is meaningful only when the flag is false), `return` inside
a loop sets a `done` flag that makes the remaining iterations no-ops.
"""
from __future__ import annotations

import ast
from dataclasses import dataclass, field
from typing import Optional


class TranslateError(Exception):
    pass


LEAN_KEYWORDS = {"from", "at", "end", "then", "do", "fun", "in", "let", "have", "show", "open", "val", "out", "prefix",
                 "local", "private", "mut", "where", "with", "if", "else", "match", "deriving", "instance"}

DTYPE_BITS = {"int8": 8, "int16": 16, "int32": 32, "int64": 64, "uint8": 8, "uint16": 16, "uint32": 32, "uint64": 64}


def lean_ty(t: str) -> str:
    return {
        "Int": "Int", "Val": "Val", "Bool": "Bool", "P": "Val × Int", "F": "FVal", "A(F)": "Int → FVal",
        "A(Int)": "Int → Int", "A(Val)": "Int → Val", "A(Bool)": "Int → Bool",
        "A2(Int)": "Int → Int → Int", "A2(Val)": "Int → Int → Val",
        "L(Int)": "List Int", "L(Val)": "List Val", "LL(Val)": "List (List Val)", "LL(Int)": "List (List Int)",
        "Red": "Val → Val → Int → Val × Int", "Red2": "Val → Val → Val",
        "LA(Val)": "List (List Val)", "V(Val)": "List Val", "S(Val)": "(Int → Val) × Int",
        "D(Int)": "Int → Option Int",
    }[t]


@dataclass
class Var:
    lean: str                 # current Lean name (SSA)
    ty: str
    lens: tuple = ()          # Lean names of the length variable(s) for arrays
    width: Optional[tuple] = None   # (signed, bits) of an integer array
    opt: Optional[str] = None       # Lean name of the `is_some` flag for Optional parameters
    guard: Optional[str] = None     # Lean Bool that must hold for a read of this variable to be defined (loop variable after its loop)


@dataclass
class Ctx:
    fname: str
    env: dict
    lets: list = field(default_factory=list)   # emitted `let` lines of the current straight-line segment
    counter: dict = field(default_factory=dict)
    defs: list = field(default_factory=list)   # auxiliary top-level definitions (structures, step functions)
    nloops: list = field(default_factory=lambda: [0])
    has_err: bool = False

    def fresh(self, base: str) -> str:
        n = self.counter.get(base, 0) + 1
        self.counter[base] = n
        b = base + "'" if base in LEAN_KEYWORDS else base
        return f"{b}_{n}"

    def fork(self) -> "Ctx":
        c = Ctx(self.fname, {k: Var(v.lean, v.ty, v.lens, v.width, v.opt) for k, v in self.env.items()})
        c.counter = self.counter      # shared: names stay unique
        c.defs = self.defs
        c.nloops = self.nloops
        c.has_err = self.has_err
        return c


class Escape(Exception):
    """raised internally when a statement list ends in continue / return"""


class LoopTranslator:
    def __init__(self, fname: str, params: dict[str, str], float_ty: str = "Val", consts: Optional[dict] = None):
        self.fname = fname
        self.params = params
        self.float_ty = float_ty
        self.consts = consts or {}
        self.extra_params = {}

    # ---------------------------------------------------------------- expressions
    def coerce(self, s: str, t: str, want: str) -> str:
        if t == want:
            return s
        if t == "Int" and want == "Val":
            return f"(Val.ofInt {s})"
        if t == "Bool" and want == "Int":
            return f"(if {s} then (1 : Int) else 0)"
        if t == "Int" and want == "F":
            return f"(FVal.ofInt {s})"
        raise TranslateError(f"{self.fname}: cannot coerce {t} to {want}: {s}")

    def idx(self, cx: Ctx, v: Var, k: int, e: ast.AST) -> str:
        s, t = self.expr(cx, e)
        if t != "Int":
            raise TranslateError(f"{self.fname}: non-integer index")
        return f"(normI {v.lens[k]} {s})"

    def expr(self, cx: Ctx, e: ast.AST):
        if isinstance(e, ast.Name):
            if e.id not in cx.env:
                if e.id in self.consts:
                    return f"({self.consts[e.id]} : Int)", "Int"
                raise TranslateError(f"{self.fname}: unknown name {e.id}")
            v = cx.env[e.id]
            if v.guard is not None:
                # Python leaves a loop variable unbound when the loop did not run: reading it then is an error (flagged)
                self.set_err(cx, v.guard)
            return v.lean, v.ty
        if isinstance(e, ast.Constant):
            if isinstance(e.value, bool):
                return ("true" if e.value else "false"), "Bool"
            if isinstance(e.value, int):
                return f"({e.value} : Int)", "Int"
            if isinstance(e.value, float) and self.float_ty == "F" and e.value == int(e.value):
                return f"(FVal.ofInt ({int(e.value)} : Int))", "F"
            raise TranslateError(f"{self.fname}: unsupported constant {e.value!r}")
        if isinstance(e, ast.Attribute) and isinstance(e.value, ast.Name) and e.value.id == "np" and e.attr == "nan":
            return ("FVal.nan", "F") if self.float_ty == "F" else ("Val.nan", "Val")
        if isinstance(e, ast.Constant) and isinstance(e.value, float) and self.float_ty == "F" and e.value == int(e.value):
            return f"(FVal.ofInt ({int(e.value)} : Int))", "F"
        if isinstance(e, ast.UnaryOp):
            if isinstance(e.op, ast.Not):
                return f"(!{self.cond(cx, e.operand)})", "Bool"
            if isinstance(e.op, ast.USub):
                s, t = self.expr(cx, e.operand)
                if t == "F":
                    return f"(FVal.neg {s})", "F"
                if t != "Int":
                    raise TranslateError(f"{self.fname}: unary minus on {t}")
                return f"(-{s})", "Int"
        if isinstance(e, ast.BinOp):
            ls, lt = self.expr(cx, e.left)
            rs, rt = self.expr(cx, e.right)
            op = type(e.op)
            if lt == "Int" and rt == "Int":
                sym = {ast.Add: "+", ast.Sub: "-", ast.Mult: "*"}.get(op)
                if sym:
                    return f"({ls} {sym} {rs})", "Int"
                if op is ast.Mod:
                    return f"(Int.fmod {ls} {rs})", "Int"
                if op is ast.FloorDiv:
                    return f"(Int.fdiv {ls} {rs})", "Int"
            if self.float_ty == "F" and lt == "Int" and rt == "Int" and op is ast.Div:
                return f"(FVal.divII {ls} {rs})", "F"
            if "F" in (lt, rt) and {lt, rt} <= {"Int", "F"}:
                fn = {ast.Add: "FVal.add", ast.Sub: "FVal.sub", ast.Mult: "FVal.mul", ast.Div: "FVal.div"}.get(op)
                if fn:
                    return f"({fn} {self.coerce(ls, lt, 'F')} {self.coerce(rs, rt, 'F')})", "F"
            if {lt, rt} <= {"Int", "Val"}:
                fn = {ast.Add: "Val.add", ast.Sub: "Val.sub", ast.Mult: "Val.mul"}.get(op)
                if fn:
                    return f"({fn} {self.coerce(ls, lt, 'Val')} {self.coerce(rs, rt, 'Val')})", "Val"
                if op is ast.Div and rt == "Int":
                    # true division of an accumulated value by an integer count: an uninterpreted function parameter
                    self.uses_div = True
                    return f"(divf {self.coerce(ls, lt, 'Val')} {rs})", "Val"
            raise TranslateError(f"{self.fname}: unsupported operator {op.__name__} on {lt}, {rt}")
        if isinstance(e, ast.Compare):
            if len(e.ops) != 1:
                raise TranslateError(f"{self.fname}: chained comparison")
            op = e.ops[0]
            if isinstance(op, (ast.Is, ast.IsNot)):
                if not (isinstance(e.left, ast.Name) and isinstance(e.comparators[0], ast.Constant)
                        and e.comparators[0].value is None):
                    raise TranslateError(f"{self.fname}: only `name is [not] None`")
                v = cx.env.get(e.left.id)
                if v is None or v.opt is None:
                    raise TranslateError(f"{self.fname}: `{e.left.id} is None` on a non-optional")
                return (f"(!{v.opt})" if isinstance(op, ast.Is) else v.opt), "Bool"
            if isinstance(op, (ast.In, ast.NotIn)) and isinstance(e.comparators[0], ast.Name) and e.comparators[0].id in cx.env:
                cv = cx.env[e.comparators[0].id]
                ls, lt = self.expr(cx, e.left)
                if lt == "Int" and cv.ty == "D(Int)":
                    r = f"(({cv.lean} {ls}).isSome)"
                elif lt == "Int" and cv.ty == "A(Int)":
                    # numpy: membership by value
                    r = f"((rangeI {cv.lens[0]}).any fun j => decide ({cv.lean} j = {ls}))"
                else:
                    raise TranslateError(f"{self.fname}: `in` on {cv.ty}")
                return (r if isinstance(op, ast.In) else f"(!{r})"), "Bool"
            ls, lt = self.expr(cx, e.left)
            rs, rt = self.expr(cx, e.comparators[0])
            if lt == "Int" and rt == "Int":
                sym = {ast.Gt: ">", ast.Lt: "<", ast.GtE: "≥", ast.LtE: "≤", ast.Eq: "=", ast.NotEq: "≠"}.get(type(op))
                if sym is None:
                    raise TranslateError(f"{self.fname}: unsupported int comparison")
                return f"(decide ({ls} {sym} {rs}))", "Bool"
            if {lt, rt} <= {"Int", "Val"}:
                fn = {ast.Gt: "Val.gt", ast.Lt: "Val.lt", ast.GtE: "Val.ge", ast.LtE: "Val.le",
                      ast.Eq: "Val.eqF", ast.NotEq: "Val.neF"}.get(type(op))
                if fn:
                    return f"({fn} {self.coerce(ls, lt, 'Val')} {self.coerce(rs, rt, 'Val')})", "Bool"
            raise TranslateError(f"{self.fname}: unsupported comparison {type(op).__name__} on {lt}, {rt}")
        if isinstance(e, ast.BoolOp):
            parts = [self.cond(cx, v) for v in e.values]
            sym = " && " if isinstance(e.op, ast.And) else " || "
            return "(" + sym.join(parts) + ")", "Bool"
        if isinstance(e, ast.IfExp):
            c = self.cond(cx, e.test)
            a, at = self.expr(cx, e.body)
            b, bt = self.expr(cx, e.orelse)
            if at != bt:
                a, b, at = self.coerce(a, at, "Val"), self.coerce(b, bt, "Val"), "Val"
            return f"(if {c} then {a} else {b})", at
        if isinstance(e, ast.Subscript):
            # f(...)[0] / [1]
            if isinstance(e.value, ast.Call) and isinstance(e.slice, ast.Constant) and e.slice.value in (0, 1):
                s, t = self.expr(cx, e.value)
                if t != "P":
                    raise TranslateError(f"{self.fname}: indexing a non-pair call")
                return (f"({s}).1", "Val") if e.slice.value == 0 else (f"({s}).2", "Int")
            if isinstance(e.value, ast.Subscript) and not isinstance(e.slice, (ast.Slice, ast.Tuple)):
                # a[c][r]: an element of one array of a list of arrays
                inner, it = self.expr(cx, e.value)
                if it != "V(Val)":
                    raise TranslateError(f"{self.fname}: nested subscript of {it}")
                i_s, i_t = self.expr(cx, e.slice)
                if i_t != "Int":
                    raise TranslateError(f"{self.fname}: non-integer index")
                return f"({inner}.getD (normI ({inner}.length : Int) {i_s}).toNat Val.nan)", "Val"
            if not isinstance(e.value, ast.Name):
                raise TranslateError(f"{self.fname}: subscript of a non-name")
            v = cx.env.get(e.value.id)
            if v is None:
                raise TranslateError(f"{self.fname}: unknown array {e.value.id}")
            if v.ty in ("LA(Val)", "V(Val)") and not isinstance(e.slice, (ast.Slice, ast.Tuple)):
                i_s, i_t = self.expr(cx, e.slice)
                if i_t != "Int":
                    raise TranslateError(f"{self.fname}: non-integer index")
                pos = f"(normI ({v.lean}.length : Int) {i_s}).toNat"
                if v.ty == "LA(Val)":
                    return f"({v.lean}.getD {pos} [])", "V(Val)"
                return f"({v.lean}.getD {pos} Val.nan)", "Val"
            if v.ty == "D(Int)":
                # d[k]: a KeyError when the key is absent (flagged)
                i_s, i_t = self.expr(cx, e.slice)
                if i_t != "Int":
                    raise TranslateError(f"{self.fname}: non-integer dict key")
                self.set_err(cx, f"({v.lean} {i_s}).isSome")
                return f"(({v.lean} {i_s}).getD 0)", "Int"
            if v.ty.startswith("A2("):
                if not (isinstance(e.slice, ast.Tuple) and len(e.slice.elts) == 2):
                    raise TranslateError(f"{self.fname}: 2-d array needs two indices")
                i0 = self.idx(cx, v, 0, e.slice.elts[0])
                i1 = self.idx(cx, v, 1, e.slice.elts[1])
                return f"({v.lean} {i0} {i1})", v.ty[3:-1]
            if v.ty.startswith("A("):
                if isinstance(e.slice, (ast.Slice, ast.Tuple)):
                    raise TranslateError(f"{self.fname}: slice in an expression")
                return f"({v.lean} {self.idx(cx, v, 0, e.slice)})", v.ty[2:-1]
            raise TranslateError(f"{self.fname}: subscript of {v.ty}")
        if isinstance(e, ast.Call):
            f = e.func
            if isinstance(f, ast.Name) and f.id == "is_null" and len(e.args) == 1 and not e.keywords:
                s, t = self.expr(cx, e.args[0])
                return f"(isNull k {self.coerce(s, t, 'Val')})", "Bool"
            if isinstance(f, ast.Attribute) and isinstance(f.value, ast.Name) and f.value.id == "np" and not e.keywords \
                    and len(e.args) == 1:
                if f.attr == "isnan":
                    a, at = self.expr(cx, e.args[0])
                    if at == "F":
                        return f"(FVal.isNan {a})", "Bool"
                    if at == "Val":
                        return f"(Val.isNan {a})", "Bool"
                if f.attr == "exp":
                    a, at = self.expr(cx, e.args[0])
                    if at == "F":
                        self.extra_params["expf"] = "FVal → FVal"
                        return f"(expf {a})", "F"
                if f.attr == "log" and isinstance(e.args[0], ast.Constant) and e.args[0].value == 2:
                    self.extra_params["ln2"] = "FVal"
                    return "ln2", "F"
            if isinstance(f, ast.Name) and f.id == "abs" and len(e.args) == 1 and not e.keywords:
                a, at = self.expr(cx, e.args[0])
                if at == "Val":
                    return f"(Val.abs {a})", "Val"
                if at == "Int":
                    return f"((Int.natAbs {a} : Nat) : Int)", "Int"
            if isinstance(f, ast.Name) and f.id == "_min" and len(e.args) == 2:
                a, at = self.expr(cx, e.args[0])
                b, bt = self.expr(cx, e.args[1])
                if at == "Int" and bt == "Int":
                    return f"(min {a} {b})", "Int"
            if isinstance(f, ast.Name) and f.id == "len" and len(e.args) == 1 and isinstance(e.args[0], ast.Subscript):
                inner, it = self.expr(cx, e.args[0])
                if it == "V(Val)":
                    return f"({inner}.length : Int)", "Int"
                raise TranslateError(f"{self.fname}: len() of {it}")
            if isinstance(f, ast.Name) and f.id == "len" and len(e.args) == 1 and isinstance(e.args[0], ast.Name):
                v = cx.env.get(e.args[0].id)
                if v is not None and v.ty in ("LA(Val)", "V(Val)"):
                    return f"({v.lean}.length : Int)", "Int"
                if v is None or not v.lens:
                    raise TranslateError(f"{self.fname}: len() of {ast.unparse(e.args[0])}")
                if v.ty == "D(Int)" and (e.args[0].id in self.dict_written or self.loop_depth > 0):
                    raise TranslateError(f"{self.fname}: len() of a dict after a store / inside a loop")
                return v.lens[0], "Int"
            if isinstance(f, ast.Name) and f.id in cx.env and cx.env[f.id].ty == "Red2" and len(e.args) == 2 and not e.keywords:
                a, at = self.expr(cx, e.args[0])
                b, bt = self.expr(cx, e.args[1])
                return f"({cx.env[f.id].lean} {self.coerce(a, at, 'Val')} {self.coerce(b, bt, 'Val')})", "Val"
            if isinstance(f, ast.Name) and f.id in cx.env and cx.env[f.id].ty == "Red":
                args = list(e.args)
                kws = {k.arg: k.value for k in e.keywords}
                if len(args) == 2 and set(kws) == {"count"}:
                    args.append(kws["count"])
                elif kws or len(args) != 3:
                    raise TranslateError(f"{self.fname}: reducer call shape")
                a, at = self.expr(cx, args[0])
                b, bt = self.expr(cx, args[1])
                c, ct = self.expr(cx, args[2])
                if ct != "Int":
                    raise TranslateError(f"{self.fname}: reducer count must be an integer")
                return f"({cx.env[f.id].lean} {self.coerce(a, at, 'Val')} {self.coerce(b, bt, 'Val')} {c})", "P"
            raise TranslateError(f"{self.fname}: unsupported call {ast.unparse(e)}")
        raise TranslateError(f"{self.fname}: unsupported expression {ast.unparse(e)}")

    def cond(self, cx: Ctx, e: ast.AST) -> str:
        s, t = self.expr(cx, e)
        if t == "Bool":
            return s
        if t == "Int":
            return f"({s} != 0)"
        raise TranslateError(f"{self.fname}: truthiness of {t}")

    # ---------------------------------------------------------------- allocations
    def dtype_kw(self, call: ast.Call):
        for kw in call.keywords:
            if kw.arg == "dtype":
                v = kw.value
                if isinstance(v, ast.Attribute) and v.attr == "dtype" and not (isinstance(v.value, ast.Name) and v.value.id == "np"):
                    return (self.float_ty, None)      # the element type of the values
                name = v.attr if isinstance(v, ast.Attribute) else v.value if isinstance(v, ast.Constant) else \
                    v.id if isinstance(v, ast.Name) else None
                if name in DTYPE_BITS:
                    return ("Int", (not name.startswith("u"), DTYPE_BITS[name]))
                if name in ("bool", "bool_"):
                    return ("Bool", None)
                if name in ("float", "float64"):
                    return (self.float_ty, None)
                raise TranslateError(f"{self.fname}: dtype {ast.unparse(v)} not understood")
        return None

    def alloc(self, cx: Ctx, target: str, call: ast.Call) -> bool:
        """np.zeros / np.full / np.empty -> constant function; returns False if `call` is not an allocation"""
        f = call.func
        if isinstance(f, ast.Attribute) and isinstance(f.value, ast.Name) and f.value.id == "np" and f.attr == "zeros_like" \
                and len(call.args) == 1 and isinstance(call.args[0], ast.Name) and call.args[0].id in cx.env \
                and cx.env[call.args[0].id].ty.startswith("A("):
            src = cx.env[call.args[0].id]
            dt = self.dtype_kw(call)
            ety, width = dt if dt is not None else (src.ty[2:-1], src.width)
            fill_s = {"Int": "(0 : Int)", "Val": "(Val.num 0)", "Bool": "false", "F": "(FVal.ofInt 0)"}[ety]
            ln = cx.fresh(target + "_len")
            cx.lets.append(f"let {ln} : Int := {src.lens[0]}")
            nm = cx.fresh(target)
            cx.lets.append(f"let {nm} : Int → {lean_ty(ety)} := fun _ => {fill_s}")
            cx.env[target] = Var(nm, f"A({ety})", (ln,), width)
            return True
        if not (isinstance(f, ast.Attribute) and isinstance(f.value, ast.Name) and f.value.id == "np"
                and f.attr in ("zeros", "full", "empty")):
            return False
        shape = call.args[0]
        dt = self.dtype_kw(call)
        fill_s, fill_t = None, None
        if f.attr == "full":
            fill_s, fill_t = self.expr(cx, call.args[1])
        if dt is None:
            # numpy default: float64 for zeros/empty, the fill value's type for full
            if f.attr == "full" and fill_t == "Int":
                ety, width = "Int", (True, 64)
            elif f.attr == "full" and fill_t == "Bool":
                ety, width = "Bool", None
            elif f.attr == "full" and fill_t == "F":
                ety, width = "F", None
            else:
                ety, width = self.float_ty, None
        else:
            ety, width = dt
        if fill_s is None:
            fill_s = {"Int": "(0 : Int)", "Val": "(Val.num 0)", "Bool": "false", "F": "(FVal.ofInt 0)"}[ety]
        else:
            fill_s = self.coerce(fill_s, fill_t, ety)
        dims = shape.elts if isinstance(shape, ast.Tuple) else [shape]
        lens = []
        for d in dims:
            s, t = self.expr(cx, d)
            if t != "Int":
                raise TranslateError(f"{self.fname}: non-integer shape")
            ln = cx.fresh(target + "_len")
            cx.lets.append(f"let {ln} : Int := {s}")
            lens.append(ln)
        nm = cx.fresh(target)
        if len(dims) == 1:
            cx.lets.append(f"let {nm} : Int → {lean_ty(ety)} := fun _ => {fill_s}")
            cx.env[target] = Var(nm, f"A({ety})", tuple(lens), width)
        elif len(dims) == 2:
            cx.lets.append(f"let {nm} : Int → Int → {lean_ty(ety)} := fun _ _ => {fill_s}")
            cx.env[target] = Var(nm, f"A2({ety})", tuple(lens), width)
        else:
            raise TranslateError(f"{self.fname}: more than two dimensions")
        return True

    # ---------------------------------------------------------------- statements
    def store_value(self, v: Var, s: str, t: str) -> str:
        ety = v.ty[v.ty.index("(") + 1:-1]
        s = self.coerce(s, t, ety)
        if ety == "Int" and v.width is not None and v.width[1] < 64:
            s = f"({'wrapS' if v.width[0] else 'wrapU'} {v.width[1]} {s})"
        return s

    def assign_name(self, cx: Ctx, name: str, s: str, t: str, like: Optional[Var] = None):
        want = self.params.get("local:" + name)
        if want is not None and want != t:
            s, t = self.coerce(s, t, want), want      # declared type of a local (e.g. a float accumulator seeded with `0`)
        nm = cx.fresh(name)
        cx.lets.append(f"let {nm} : {lean_ty(t)} := {s}")
        old = cx.env.get(name)
        if old is not None and old.ty != t and old.opt is None:
            raise TranslateError(f"{self.fname}: {name} changes type {old.ty} -> {t}")
        cx.env[name] = Var(nm, t, like.lens if like else (), like.width if like else None)

    def assign_sub(self, cx: Ctx, tgt: ast.Subscript, s: str, t: str):
        if not isinstance(tgt.value, ast.Name):
            raise TranslateError(f"{self.fname}: store into a non-name")
        name = tgt.value.id
        v = cx.env.get(name)
        if v is None:
            raise TranslateError(f"{self.fname}: store into unknown {name}")
        if v.ty == "D(Int)":
            if isinstance(tgt.slice, (ast.Tuple, ast.Slice)) or t != "Int":
                raise TranslateError(f"{self.fname}: dict store shape")
            ks, kt = self.expr(cx, tgt.slice)
            if kt != "Int":
                raise TranslateError(f"{self.fname}: non-integer dict key")
            # the length variable of a dict is its length at entry: `len(d)` is refused once the dict was written or inside a loop
            self.dict_written.add(name)
            nm = cx.fresh(name)
            cx.lets.append(f"let {nm} : Int → Option Int := aset {v.lean} {ks} (some {s})")
            cx.env[name] = Var(nm, v.ty, v.lens, None, v.opt)
            return
        val = self.store_value(v, s, t)
        nm = cx.fresh(name)
        if v.ty.startswith("A2("):
            if not (isinstance(tgt.slice, ast.Tuple) and len(tgt.slice.elts) == 2):
                raise TranslateError(f"{self.fname}: 2-d store needs two indices")
            i0 = self.idx(cx, v, 0, tgt.slice.elts[0])
            i1 = self.idx(cx, v, 1, tgt.slice.elts[1])
            cx.lets.append(f"let {nm} : {lean_ty(v.ty)} := aset2 {v.lean} {i0} {i1} {val}")
        elif v.ty.startswith("A("):
            if isinstance(tgt.slice, (ast.Slice, ast.Tuple)):
                raise TranslateError(f"{self.fname}: slice store")
            cx.lets.append(f"let {nm} : {lean_ty(v.ty)} := aset {v.lean} {self.idx(cx, v, 0, tgt.slice)} {val}")
        else:
            raise TranslateError(f"{self.fname}: store into {v.ty}")
        cx.env[name] = Var(nm, v.ty, v.lens, v.width, v.opt)

    def set_err(self, cx: Ctx, cond_ok: Optional[str]):
        cx.has_err = True
        cur = cx.env["err!"].lean
        nm = cx.fresh("err")
        cx.lets.append(f"let {nm} : Bool := " + ("true" if cond_ok is None else f"({cur} || !{cond_ok})"))
        cx.env["err!"] = Var(nm, "Bool")

    def special_assign(self, cx: Ctx, name: str, value: ast.AST) -> bool:
        """x = range(...) | a[:-1].copy() | a[:, ::-1] | a.copy()"""
        it = self.iterable(cx, value, allow_names=False)
        if it is not None:
            self.assign_name(cx, name, it[0], it[1])
            return True
        # a.copy()
        if isinstance(value, ast.Call) and isinstance(value.func, ast.Attribute) and value.func.attr == "copy" \
                and not value.args:
            base = value.func.value
            if isinstance(base, ast.Name) and base.id in cx.env and cx.env[base.id].ty.startswith("A"):
                v = cx.env[base.id]
                nm = cx.fresh(name)
                cx.lets.append(f"let {nm} : {lean_ty(v.ty)} := {v.lean}")
                cx.env[name] = Var(nm, v.ty, v.lens, v.width)
                return True
            # a[:-1].copy()
            if isinstance(base, ast.Subscript) and isinstance(base.value, ast.Name) and isinstance(base.slice, ast.Slice):
                sl = base.slice
                v = cx.env.get(base.value.id)
                if v is not None and v.ty.startswith("A(") and sl.lower is None and sl.step is None \
                        and isinstance(sl.upper, ast.UnaryOp) and isinstance(sl.upper.op, ast.USub) \
                        and isinstance(sl.upper.operand, ast.Constant) and sl.upper.operand.value == 1:
                    ln = cx.fresh(name + "_len")
                    cx.lets.append(f"let {ln} : Int := (if {v.lens[0]} ≤ 0 then 0 else {v.lens[0]} - 1)")
                    nm = cx.fresh(name)
                    cx.lets.append(f"let {nm} : {lean_ty(v.ty)} := {v.lean}")
                    cx.env[name] = Var(nm, v.ty, (ln,), v.width)
                    return True
        # row of a 2-d array: x = a[key]
        if isinstance(value, ast.Subscript) and isinstance(value.value, ast.Name) and value.value.id in cx.env \
                and cx.env[value.value.id].ty.startswith("A2(") and not isinstance(value.slice, (ast.Tuple, ast.Slice)):
            v = cx.env[value.value.id]
            i0 = self.idx(cx, v, 0, value.slice)
            nm = cx.fresh(name)
            ety = v.ty[3:-1]
            cx.lets.append(f"let {nm} : Int → {lean_ty(ety)} := fun c => {v.lean} {i0} c")
            cx.env[name] = Var(nm, f"A({ety})", (v.lens[1],), v.width)
            # a row of a 2-d array is a *view*: the snapshot taken here is faithful only if neither the base nor the view is
            # written afterwards in this function (checked syntactically)
            self.views.append((name, value.value.id, getattr(value, "lineno", 0)))
            return True
        # a[:, ::-1]
        if isinstance(value, ast.Subscript) and isinstance(value.value, ast.Name) and isinstance(value.slice, ast.Tuple) \
                and len(value.slice.elts) == 2 and ast.unparse(value.slice) in (":, ::-1", "(:, ::-1)") \
                and all(isinstance(x, ast.Slice) for x in value.slice.elts):
            v = cx.env.get(value.value.id)
            if v is not None and v.ty.startswith("A2("):
                nm = cx.fresh(name)
                cx.lets.append(f"let {nm} : {lean_ty(v.ty)} := fun r c => {v.lean} r ({v.lens[1]} - 1 - c)")
                cx.env[name] = Var(nm, v.ty, v.lens, v.width)
                return True
        return False

    def iterable(self, cx: Ctx, e: ast.AST, allow_names=True):
        """(lean list expression, list type) or None"""
        if isinstance(e, ast.Call):
            f = e.func
            is_range = (isinstance(f, ast.Name) and f.id == "range") or \
                (isinstance(f, ast.Attribute) and f.attr == "prange" and isinstance(f.value, ast.Name) and f.value.id == "nb")
            if is_range and not e.keywords:
                if len(e.args) == 1:
                    s, t = self.expr(cx, e.args[0])
                    if t == "Int":
                        return f"(rangeI {s})", "L(Int)"
                if len(e.args) == 2:
                    a, at = self.expr(cx, e.args[0])
                    b, bt = self.expr(cx, e.args[1])
                    if at == "Int" and bt == "Int":
                        return f"(rangeI2 {a} {b})", "L(Int)"
                if len(e.args) == 3 and ast.unparse(e.args[1]) == "-1" and ast.unparse(e.args[2]) == "-1" \
                        and isinstance(e.args[0], ast.BinOp) and isinstance(e.args[0].op, ast.Sub) \
                        and isinstance(e.args[0].right, ast.Constant) and e.args[0].right.value == 1:
                    s, t = self.expr(cx, e.args[0].left)
                    if t == "Int":
                        return f"(rangeI {s}).reverse", "L(Int)"
                raise TranslateError(f"{self.fname}: unsupported range {ast.unparse(e)}")
            return None
        if allow_names and isinstance(e, ast.Name) and e.id in cx.env:
            v = cx.env[e.id]
            if v.ty.startswith("L"):
                return v.lean, v.ty
            if v.ty.startswith("A("):
                return f"((rangeI {v.lens[0]}).map {v.lean})", "L" + v.ty[1:]
        return None

    @staticmethod
    def may_escape(body: list[ast.stmt]) -> bool:
        """does the statement list contain a return / raise, or a continue that belongs to the enclosing loop"""
        def walk(n, in_inner_loop):
            if isinstance(n, (ast.Return, ast.Raise)):
                return True
            if isinstance(n, ast.Continue):
                return not in_inner_loop
            if isinstance(n, (ast.For, ast.While)):
                return False      # a loop handles its own raise / return / continue (error and done flags)
            if isinstance(n, ast.If):
                return any(walk(c, in_inner_loop) for c in n.body + n.orelse)
            return False
        return any(walk(n, False) for n in body)

    def run(self, cx: Ctx, body: list[ast.stmt], in_loop: Optional[dict], conts: list) -> str:
        """translate `body`, then the pending continuations; always yields the value of the enclosing step / function"""
        esc = self.stmts(cx, body, in_loop, conts)
        if esc is not None:
            return esc
        if conts:
            return self.run(cx, conts[0], in_loop, conts[1:])
        return self.fallthrough(cx, in_loop)

    def stmts(self, cx: Ctx, body: list[ast.stmt], in_loop: Optional[dict], conts: Optional[list] = None) -> Optional[str]:
        """translate a statement list into `cx.lets`; returns an *escape expression* (Lean text of the value of
        the enclosing step / function) if the list ends the current iteration / function on every path that reaches
        its end, else None"""
        conts = conts or []
        for k, s in enumerate(body):
            rest = body[k + 1:]
            if isinstance(s, ast.Expr) and isinstance(s.value, ast.Constant) and isinstance(s.value.value, str):
                continue
            if isinstance(s, ast.Pass):
                continue
            if isinstance(s, ast.Assign) and len(s.targets) > 1:
                # a = b[i] = e : the value is computed once and stored into the targets from left to right
                if not all(isinstance(t, (ast.Name, ast.Subscript)) for t in s.targets):
                    raise TranslateError(f"{self.fname}: chained assignment shape")
                v, t = self.expr(cx, s.value)
                tmp = cx.fresh("v")
                cx.lets.append(f"let {tmp} : {lean_ty(t)} := {v}")
                for tg in s.targets:
                    if isinstance(tg, ast.Name):
                        self.assign_name(cx, tg.id, tmp, t)
                    else:
                        self.assign_sub(cx, tg, tmp, t)
                continue
            if isinstance(s, ast.Assign):
                tgt = s.targets[0]
                if isinstance(tgt, ast.Tuple) and isinstance(s.value, ast.Tuple) and len(tgt.elts) == len(s.value.elts) \
                        and all(isinstance(t, ast.Name) for t in tgt.elts):
                    vals = [self.expr(cx, v) for v in s.value.elts]      # right-hand sides first
                    for t, (v, ty) in zip(tgt.elts, vals):
                        self.assign_name(cx, t.id, v, ty)
                    continue
                if isinstance(tgt, ast.Tuple):
                    if len(tgt.elts) != 2:
                        raise TranslateError(f"{self.fname}: tuple assignment of length {len(tgt.elts)}")
                    if isinstance(s.value, ast.Call) and isinstance(s.value.func, ast.Name) and s.value.func.id in TRANSLATED:
                        lean_fn, ptypes, rtypes = TRANSLATED[s.value.func.id]
                        if len(rtypes) != 2 or s.value.keywords or len(s.value.args) != len(ptypes):
                            raise TranslateError(f"{self.fname}: call shape of {s.value.func.id}")
                        args = []
                        for a, pt in zip(s.value.args, ptypes):
                            if pt.startswith("A("):
                                if not (isinstance(a, ast.Name) and a.id in cx.env and cx.env[a.id].ty == pt):
                                    raise TranslateError(f"{self.fname}: array argument of {s.value.func.id}")
                                av = cx.env[a.id]
                                args += [av.lens[0], av.lean]
                            else:
                                x, xt = self.expr(cx, a)
                                args.append(self.coerce(x, xt, pt))
                        r = cx.fresh("r")
                        cx.lets.append(f"let {r} : ({lean_ty(rtypes[0])} × {lean_ty(rtypes[1])}) × Bool := {lean_fn} k " + " ".join(args))
                        self.set_err(cx, f"(!{r}.2)")
                        for sub, proj, pt in ((tgt.elts[0], f"{r}.1.1", rtypes[0]), (tgt.elts[1], f"{r}.1.2", rtypes[1])):
                            if isinstance(sub, ast.Subscript):
                                self.assign_sub(cx, sub, proj, pt)
                            elif isinstance(sub, ast.Name):
                                self.assign_name(cx, sub.id, proj, pt)
                            else:
                                raise TranslateError(f"{self.fname}: tuple target")
                        continue
                    v, t = self.expr(cx, s.value)
                    if t != "P":
                        raise TranslateError(f"{self.fname}: tuple assignment from {t}")
                    r = cx.fresh("r")
                    cx.lets.append(f"let {r} : Val × Int := {v}")
                    for sub, proj, pt in ((tgt.elts[0], f"{r}.1", "Val"), (tgt.elts[1], f"{r}.2", "Int")):
                        if isinstance(sub, ast.Subscript):
                            self.assign_sub(cx, sub, proj, pt)
                        elif isinstance(sub, ast.Name):
                            self.assign_name(cx, sub.id, proj, pt)
                        else:
                            raise TranslateError(f"{self.fname}: tuple target")
                    continue
                if isinstance(tgt, ast.Name) and isinstance(s.value, ast.Call) and isinstance(s.value.func, ast.Name) \
                        and s.value.func.id in TRANSLATED and len(TRANSLATED[s.value.func.id][2]) == 1:
                    lean_fn, ptypes, rtypes = TRANSLATED[s.value.func.id]
                    if s.value.keywords or len(s.value.args) != len(ptypes):
                        raise TranslateError(f"{self.fname}: call shape of {s.value.func.id}")
                    args = []
                    for a, pt in zip(s.value.args, ptypes):
                        if pt.startswith("A("):
                            if isinstance(a, ast.Name) and a.id in cx.env and cx.env[a.id].ty == pt:
                                av = cx.env[a.id]
                                args += [av.lens[0], av.lean]
                            elif isinstance(a, ast.Subscript) and isinstance(a.value, ast.Name) and a.value.id in cx.env \
                                    and cx.env[a.value.id].ty == "A2(" + pt[2:] and not isinstance(a.slice, (ast.Tuple, ast.Slice)):
                                # a row of a 2-d array, consumed by the call before anything else happens
                                av = cx.env[a.value.id]
                                args += [av.lens[1], f"(fun c => {av.lean} {self.idx(cx, av, 0, a.slice)} c)"]
                            else:
                                raise TranslateError(f"{self.fname}: array argument of {s.value.func.id}")
                        else:
                            x_, xt = self.expr(cx, a)
                            args.append(self.coerce(x_, xt, pt))
                    r = cx.fresh("r")
                    cx.lets.append(f"let {r} : ({lean_ty(rtypes[0])}) × Bool := {lean_fn} k " + " ".join(args))
                    self.set_err(cx, f"(!{r}.2)")
                    self.assign_name(cx, tgt.id, f"{r}.1", rtypes[0])
                    continue
                if isinstance(tgt, ast.Name):
                    if isinstance(s.value, ast.Call) and self.alloc(cx, tgt.id, s.value):
                        continue
                    if self.special_assign(cx, tgt.id, s.value):
                        continue
                    v, t = self.expr(cx, s.value)
                    if isinstance(s.value, ast.Name) and t.startswith("A"):
                        # `x = y` for arrays is an alias in Python: a later store through one name is visible through the
                        # other, which value semantics cannot express - refuse (use `.copy()` in the source for a copy)
                        raise TranslateError(f"{self.fname}: array alias {tgt.id} = {s.value.id}")
                    self.assign_name(cx, tgt.id, v, t, None)
                    continue
                if isinstance(tgt, ast.Subscript) and isinstance(tgt.value, ast.Name) and tgt.value.id in cx.env \
                        and cx.env[tgt.value.id].ty.startswith("A2(") and not isinstance(tgt.slice, (ast.Tuple, ast.Slice)) \
                        and isinstance(s.value, ast.Subscript) and isinstance(s.value.value, ast.Name) \
                        and s.value.value.id in cx.env and cx.env[s.value.value.id].ty == cx.env[tgt.value.id].ty \
                        and not isinstance(s.value.slice, (ast.Tuple, ast.Slice)):
                    # a2[g] = b2[i]: numpy copies the row element by element
                    dst, src = cx.env[tgt.value.id], cx.env[s.value.value.id]
                    i0 = self.idx(cx, dst, 0, tgt.slice)
                    j0 = self.idx(cx, src, 0, s.value.slice)
                    nm = cx.fresh(tgt.value.id)
                    cx.lets.append(f"let {nm} : {lean_ty(dst.ty)} := asetRow {dst.lean} {i0} (fun c => {src.lean} {j0} c)")
                    cx.env[tgt.value.id] = Var(nm, dst.ty, dst.lens, dst.width)
                    continue
                if isinstance(tgt, ast.Subscript):
                    v, t = self.expr(cx, s.value)
                    self.assign_sub(cx, tgt, v, t)
                    continue
                raise TranslateError(f"{self.fname}: assignment target {ast.unparse(tgt)}")
            if isinstance(s, ast.AugAssign):
                binop = ast.BinOp(left=self._as_load(s.target), op=s.op, right=s.value)
                v, t = self.expr(cx, binop)
                if isinstance(s.target, ast.Name):
                    self.assign_name(cx, s.target.id, v, t)
                elif isinstance(s.target, ast.Subscript):
                    self.assign_sub(cx, s.target, v, t)
                else:
                    raise TranslateError(f"{self.fname}: augmented assignment target")
                continue
            if isinstance(s, ast.Assert):
                self.set_err(cx, self.cond(cx, s.test))
                continue
            if isinstance(s, ast.Raise):
                self.set_err(cx, None)
                return self.escape(cx, in_loop, "raise")
            if isinstance(s, ast.Continue):
                if in_loop is None:
                    raise TranslateError(f"{self.fname}: continue outside a loop")
                return self.escape(cx, in_loop, "continue")
            if isinstance(s, ast.Return):
                return self.escape(cx, in_loop, "return", s.value)
            if isinstance(s, ast.If):
                kind, res = self.if_stmt(cx, s, rest, in_loop, conts)
                if kind != "none":
                    return res
                continue
            if isinstance(s, ast.For):
                res = self.for_stmt(cx, s, in_loop)
                if res is not None:
                    # the loop may have returned: its recorded value wins, otherwise everything that follows
                    if in_loop is not None:
                        raise TranslateError(f"{self.fname}: return inside a nested loop")
                    err_now = cx.env["err!"].lean
                    tail = self.run(cx, rest, in_loop, conts)
                    return f"(match {res}.ret with | some r => (r, {err_now}) | none => {tail})"
                continue
            if isinstance(s, ast.While):
                self.while_stmt(cx, s, in_loop)
                continue
            raise TranslateError(f"{self.fname}: unsupported statement {type(s).__name__}")
        return None

    @staticmethod
    def _as_load(t):
        t2 = ast.parse(ast.unparse(t), mode="eval").body
        return t2

    # .................................................................. escapes
    def escape(self, cx: Ctx, in_loop: Optional[dict], kind: str, value=None) -> str:
        """Lean expression for the value of the enclosing step / function at this point"""
        if in_loop is not None:
            if kind == "return":
                in_loop["returns"].append((value, None))
                # return inside a loop: record the returned value(s) and set done
                rv = self.ret_value(cx, value)
                in_loop["ret_ty"] = rv[1]
                return self.loop_state(cx, in_loop, done="true", ret=rv[0])
            return self.loop_state(cx, in_loop)
        if kind == "return":
            rv = self.ret_value(cx, value)
            self.ret_ty = self._merge_ret(rv[1])
            return self.wrap_err(cx, rv[0])
        if kind == "raise":
            # function-level raise: the value is irrelevant, the flag says so
            return "RAISE"
        raise TranslateError(f"{self.fname}: {kind} outside a loop")

    def _merge_loop_ret(self, t):
        self.ret_ty = self._merge_ret(t)

    def _merge_ret(self, t):
        old = getattr(self, "ret_ty", None)
        if old is not None and old != t:
            raise TranslateError(f"{self.fname}: return types differ: {old} / {t}")
        return t

    def ret_value(self, cx: Ctx, value):
        if value is None:
            raise TranslateError(f"{self.fname}: bare return")
        elts = value.elts if isinstance(value, ast.Tuple) else [value]
        parts, tys = [], []
        declared = getattr(self, "declared_ret", None)
        if declared is not None:
            if len(declared) != len(elts):
                raise TranslateError(f"{self.fname}: return arity differs from the declaration")
            for e, want in zip(elts, declared):
                if want.startswith("S("):
                    if isinstance(e, ast.Subscript) and isinstance(e.slice, ast.Slice) and isinstance(e.value, ast.Name) \
                            and e.slice.lower is None and e.slice.step is None and e.slice.upper is not None:
                        v = cx.env[e.value.id]
                        u, ut = self.expr(cx, e.slice.upper)
                        parts.append(f"({v.lean}, {u})")
                    elif isinstance(e, ast.Name) and e.id in cx.env and cx.env[e.id].ty.startswith("A("):
                        v = cx.env[e.id]
                        parts.append(f"({v.lean}, {v.lens[0]})")
                    else:
                        raise TranslateError(f"{self.fname}: sliced-array return shape")
                    tys.append("(" + lean_ty(want) + ")")
                    continue
                s_, t_ = self.expr(cx, e)
                parts.append(self.coerce(s_, t_, want))
                tys.append(lean_ty(want) if "→" not in lean_ty(want) else "(" + lean_ty(want) + ")")
            return "(" + ", ".join(parts) + ")" if len(parts) > 1 else parts[0], " × ".join(tys)
        for e in elts:
            # labels[:n] style returns: (array, length)
            if isinstance(e, ast.Subscript) and isinstance(e.slice, ast.Slice) and isinstance(e.value, ast.Name) \
                    and e.slice.lower is None and e.slice.step is None and e.slice.upper is not None:
                v = cx.env[e.value.id]
                u, ut = self.expr(cx, e.slice.upper)
                parts.append(f"({v.lean}, {u})")
                tys.append(f"({lean_ty(v.ty)}) × Int")
                continue
            s, t = self.expr(cx, e)
            parts.append(s)
            tys.append(lean_ty(t) if "→" not in lean_ty(t) else f"({lean_ty(t)})")
        return "(" + ", ".join(parts) + ")" if len(parts) > 1 else parts[0], " × ".join(tys)

    def wrap_err(self, cx: Ctx, s: str) -> str:
        return f"({s}, {cx.env['err!'].lean})"

    def loop_state(self, cx: Ctx, in_loop: dict, done: Optional[str] = None, ret: Optional[str] = None) -> str:
        fields = []
        for py in in_loop["fields"]:
            if py == "done!":
                fields.append(done if done is not None else "false")
            elif py == "ret!":
                fields.append(f"some {ret}" if ret is not None else in_loop["ret_in"])
            else:
                fields.append(cx.env[py].lean)
        return "⟨" + ", ".join(fields) + "⟩"

    # .................................................................. if
    def if_stmt(self, cx: Ctx, s: ast.If, rest: list[ast.stmt], in_loop, conts: list):
        """returns ("none", None) | ("consumed", expr: everything that follows is inside the expression)"""
        c = self.cond(cx, s.test)
        cn = cx.fresh("c")
        cx.lets.append(f"let {cn} : Bool := {c}")
        ca = cx.fork()
        ca.lets = []
        cb = cx.fork()
        cb.lets = []

        def block(lets, tail):
            return "(" + "".join(l + "; " for l in lets) + tail + ")"

        if self.may_escape(s.body) or self.may_escape(s.orelse):
            # a branch may end the iteration / function: both branches carry everything that follows
            a = self.run(ca, s.body, in_loop, [rest] + conts)
            b = self.run(cb, s.orelse, in_loop, [rest] + conts)
            cx.has_err = cx.has_err or ca.has_err or cb.has_err
            return "consumed", f"(if {cn} then {block(ca.lets, a)} else {block(cb.lets, b)})"
        esc_a = self.stmts(ca, s.body, in_loop)
        esc_b = self.stmts(cb, s.orelse, in_loop) if s.orelse else None
        cx.has_err = cx.has_err or ca.has_err or cb.has_err
        if esc_a is not None or esc_b is not None:
            raise TranslateError(f"{self.fname}: internal: unexpected escape")
        # no escape: per-variable conditional
        changed = []
        for py in list(dict.fromkeys(list(ca.env) + list(cb.env))):
            va, vb, v0 = ca.env.get(py), cb.env.get(py), cx.env.get(py)
            if va is None or vb is None:
                continue      # defined in one branch only: local to that branch
            if v0 is not None and va.lean == v0.lean and vb.lean == v0.lean:
                continue
            if va.ty != vb.ty:
                raise TranslateError(f"{self.fname}: {py} has different types in the branches")
            changed.append(py)
        for py in changed:
            va, vb = ca.env[py], cb.env[py]
            nm = cx.fresh(py.rstrip("!"))
            cx.lets.append(f"let {nm} : {lean_ty(va.ty)} := if {cn} then {block(ca.lets, va.lean)} else {block(cb.lets, vb.lean)}")
            if va.lens != vb.lens:
                raise TranslateError(f"{self.fname}: {py} has different lengths in the branches")
            cx.env[py] = Var(nm, va.ty, va.lens, va.width, va.opt)
        return "none", None

    def fallthrough(self, cx: Ctx, in_loop) -> str:
        if in_loop is not None:
            return self.loop_state(cx, in_loop)
        raise TranslateError(f"{self.fname}: control reaches the end of the function without return")

    # .................................................................. for
    def assigned_names(self, body: list[ast.stmt]) -> list[str]:
        out = []

        def tgt(t):
            if isinstance(t, ast.Name):
                out.append(t.id)
            elif isinstance(t, ast.Subscript) and isinstance(t.value, ast.Name):
                out.append(t.value.id)
            elif isinstance(t, ast.Tuple):
                for x in t.elts:
                    tgt(x)

        for n in body:
            for m in ast.walk(n):
                if isinstance(m, ast.Assign):
                    for t in m.targets:
                        tgt(t)
                elif isinstance(m, ast.AugAssign):
                    tgt(m.target)
                elif isinstance(m, ast.For):
                    tgt(m.target)
        return list(dict.fromkeys(out))

    def for_stmt(self, cx: Ctx, s: ast.For, outer_loop):
        if s.orelse:
            raise TranslateError(f"{self.fname}: for-else")
        s = self.desugar_enumerate(cx, s)
        it = self.iterable(cx, s.iter)
        if it is None:
            raise TranslateError(f"{self.fname}: unsupported iterable {ast.unparse(s.iter)}")
        it_s, it_t = it
        if not isinstance(s.target, ast.Name):
            raise TranslateError(f"{self.fname}: loop target")
        elem_t = {"L(Int)": "Int", "L(Val)": "Val", "LL(Val)": "L(Val)", "LL(Int)": "L(Int)", "L(Bool)": "Bool"}[it_t]
        self.nloops_total = getattr(self, "nloops_total", 0) + 1
        loop_id = self.nloops_total
        base = f"{self.fname}_loop{loop_id}"
        # loop-carried variables: assigned in the body and known before the loop
        assigned = self.assigned_names(s.body)
        carried = [n for n in assigned if n in cx.env and n != s.target.id]
        has_ret = any(isinstance(m, ast.Return) for n in s.body for m in ast.walk(n))
        has_raise = any(isinstance(m, (ast.Raise, ast.Assert, ast.While)) or
                        (isinstance(m, ast.Call) and isinstance(m.func, ast.Name) and m.func.id in TRANSLATED)
                        for n in s.body for m in ast.walk(n))
        fields = list(carried)
        if has_raise or outer_loop is not None and "err!" in outer_loop["fields"]:
            fields.append("err!")
            cx.has_err = True
        if has_ret:
            fields += ["done!", "ret!"]
        # captured variables: everything else in scope that the body mentions (by Python name)
        mentioned = {m.id for n in s.body for m in ast.walk(n) if isinstance(m, ast.Name)}
        captured = [n for n in cx.env if n in mentioned and n not in fields and n != s.target.id and not n.endswith("!")]
        # length / option variables travel with their arrays
        inner = Ctx(self.fname, {})
        inner.counter = cx.counter
        inner.defs = cx.defs
        params = []
        seen_aux = set()

        def bind(py, as_field):
            v = cx.env[py]
            for ln in v.lens:
                if ln not in seen_aux:
                    seen_aux.add(ln)
                    params.append(f"({ln} : Int)")
            if v.opt and v.opt not in seen_aux:
                seen_aux.add(v.opt)
                params.append(f"({v.opt} : Bool)")
            return v

        for py in captured:
            v = bind(py, False)
            params.append(f"({v.lean} : {lean_ty(v.ty)})")
            inner.env[py] = Var(v.lean, v.ty, v.lens, v.width, v.opt)
        st_fields = []
        for py in fields:
            if py in ("done!", "ret!"):
                continue
            if py == "err!":
                st_fields.append(("err", "Bool"))
                continue
            v = bind(py, True)
            st_fields.append((py + ("'" if py in LEAN_KEYWORDS else ""), lean_ty(v.ty)))
        in_loop = {"fields": fields, "returns": [], "ret_ty": None, "ret_in": "st.ret"}
        # body
        st_name = base[0].upper() + base[1:] + "St"
        for py in fields:
            if py in ("done!", "ret!"):
                continue
            fld = "err" if py == "err!" else py + ("'" if py in LEAN_KEYWORDS else "")
            v = cx.env[py]
            nm = inner.fresh(py.rstrip("!"))
            inner.lets.append(f"let {nm} : {lean_ty(v.ty)} := st.{fld}")
            inner.env[py] = Var(nm, v.ty, v.lens, v.width, v.opt)
        lv = inner.fresh(s.target.id)
        inner.env[s.target.id] = Var(lv, elem_t)
        self.loop_depth = getattr(self, "loop_depth", 0) + 1
        esc = self.stmts(inner, s.body, in_loop)
        self.loop_depth -= 1
        if esc is None:
            esc = self.loop_state(inner, in_loop)
        cx.has_err = cx.has_err or inner.has_err
        ret_ty = in_loop["ret_ty"]
        struct = f"structure {st_name} where\n" + "".join(f"  {f} : {t}\n" for f, t in st_fields)
        if has_ret:
            struct += f"  done : Bool\n  ret : Option ({ret_ty})\n"
        body_txt = "".join(f"  {l}\n" for l in inner.lets) + f"  {esc}"
        if has_ret:
            body_txt = "  if st.done then st else\n" + body_txt
        step = (f"def {base}_step (k : Kind) " + " ".join(params) + f" (st : {st_name}) ({lv} : {lean_ty(elem_t)}) : {st_name} :=\n"
                + body_txt + "\n")
        cx.defs.append(struct)
        cx.defs.append(step)
        # the fold
        init_fields = []
        for py in fields:
            if py == "done!":
                init_fields.append("false")
            elif py == "ret!":
                init_fields.append("none")
            else:
                init_fields.append(cx.env[py].lean)
        args = []
        seen_aux = set()
        for py in captured + [f for f in fields if f not in ("done!", "ret!", "err!")]:
            v = cx.env[py]
            for ln in v.lens:
                if ln not in seen_aux:
                    seen_aux.add(ln)
                    args.append(ln)
            if v.opt and v.opt not in seen_aux:
                seen_aux.add(v.opt)
                args.append(v.opt)
            if py in captured:
                args.append(v.lean)
        # argument order must match `params`: recompute in the same order
        args = self._args_in_param_order(cx, captured, fields)
        res = cx.fresh("loop")
        cx.lets.append(f"let {res} : {st_name} := {it_s}.foldl ({base}_step k " + " ".join(args) + ") ⟨" + ", ".join(init_fields) + "⟩")
        for py in fields:
            if py in ("done!", "ret!"):
                continue
            fld = "err" if py == "err!" else py + ("'" if py in LEAN_KEYWORDS else "")
            v = cx.env[py]
            nm = cx.fresh(py.rstrip("!"))
            cx.lets.append(f"let {nm} : {lean_ty(v.ty)} := {res}.{fld}")
            cx.env[py] = Var(nm, v.ty, v.lens, v.width, v.opt)
        if has_ret:
            self._merge_loop_ret(ret_ty)
        read_later = any(isinstance(m, ast.Name) and m.id == s.target.id and isinstance(m.ctx, ast.Load)
                         and getattr(m, "lineno", 0) > getattr(s, "end_lineno", 10 ** 9) for m in ast.walk(self.fn_ast))
        if elem_t == "Int" and outer_loop is None and read_later:
            # Python keeps the loop variable after the loop (its last value); unbound if the loop did not run
            cx.env[s.target.id] = Var(f"(({it_s}).getLastD (0 : Int))", "Int", guard=f"(!({it_s}).isEmpty)")
        return res if has_ret else None

    def desugar_enumerate(self, cx: Ctx, s: ast.For) -> ast.For:
        """for i, x in enumerate(a)            ->  for i in range(len(a)): x = a[i]
           for i, (k, x) in enumerate(zip(a, b)) ->  for i in range(min(len(a), len(b))): k = a[i]; x = b[i]"""
        it = s.iter
        if isinstance(it, ast.Call) and isinstance(it.func, ast.Name) and it.func.id == "zip" and not it.keywords \
                and isinstance(s.target, ast.Tuple) and len(s.target.elts) == len(it.args) \
                and all(isinstance(t, ast.Name) for t in s.target.elts) \
                and all(isinstance(a, ast.Subscript) and isinstance(a.value, ast.Name) and ast.unparse(a.slice) == ":-1"
                        for a in it.args):
            # for c, w in zip(a[:-1], b[:-1])  ->  for q in range(min(len(a) - 1, len(b) - 1)): c = a[q]; w = b[q]
            arrays = [a.value.id for a in it.args]
            names = [t.id for t in s.target.elts]
            for a in arrays:
                if a not in cx.env or not cx.env[a].ty.startswith("A("):
                    raise TranslateError(f"{self.fname}: zip over a non-array {a}")
            n_expr = f"len({arrays[0]}) - 1"
            for a in arrays[1:]:
                n_expr = f"_min({n_expr}, len({a}) - 1)"
            q = cx.fresh("q").replace("'", "")
            new = ast.parse(f"for {q} in range({n_expr}):\n    pass").body[0]
            new.body = ast.parse("\n".join(f"{nm} = {a}[{q}]" for a, nm in zip(arrays, names))).body + s.body
            new.orelse = []
            return new
        if isinstance(it, ast.Call) and isinstance(it.func, ast.Name) and it.func.id == "enumerate" and len(it.args) == 2 \
                and not it.keywords and isinstance(it.args[0], ast.Subscript) and isinstance(it.args[0].value, ast.Name) \
                and isinstance(it.args[0].slice, ast.Slice) and it.args[0].slice.upper is None and it.args[0].slice.step is None \
                and it.args[0].slice.lower is not None and isinstance(s.target, ast.Tuple) and len(s.target.elts) == 2 \
                and all(isinstance(t, ast.Name) for t in s.target.elts):
            # for j, v in enumerate(a[lo:], start)  ->  for q in range(lo, len(a)): v = a[q]; j = start + (q - lo)
            arr = it.args[0].value.id
            lo, start = ast.unparse(it.args[0].slice.lower), ast.unparse(it.args[1])
            jv, vv = s.target.elts[0].id, s.target.elts[1].id
            q = cx.fresh("q").replace("'", "")
            new = ast.parse(f"for {q} in range({lo}, len({arr})):\n    pass").body[0]
            new.body = ast.parse(f"{vv} = {arr}[{q}]\n{jv} = ({start}) + ({q} - ({lo}))").body + s.body
            new.orelse = []
            return new
        if not (isinstance(it, ast.Call) and isinstance(it.func, ast.Name) and it.func.id == "enumerate"
                and len(it.args) == 1 and not it.keywords and isinstance(s.target, ast.Tuple) and len(s.target.elts) == 2
                and isinstance(s.target.elts[0], ast.Name)):
            return s
        ivar = s.target.elts[0].id
        inner, tgt = it.args[0], s.target.elts[1]
        arrays, names = [], []
        if isinstance(inner, ast.Name) and isinstance(tgt, ast.Name):
            arrays, names = [inner.id], [tgt.id]
        elif isinstance(inner, ast.Call) and isinstance(inner.func, ast.Name) and inner.func.id == "zip" \
                and all(isinstance(a, ast.Name) for a in inner.args) and isinstance(tgt, ast.Tuple) \
                and len(tgt.elts) == len(inner.args) and all(isinstance(t, ast.Name) for t in tgt.elts):
            arrays, names = [a.id for a in inner.args], [t.id for t in tgt.elts]
        else:
            raise TranslateError(f"{self.fname}: unsupported enumerate pattern {ast.unparse(s.iter)}")
        for a in arrays:
            if a not in cx.env or not cx.env[a].ty.startswith("A("):
                raise TranslateError(f"{self.fname}: enumerate over a non-array {a}")
        n_expr = f"len({arrays[0]})"
        for a in arrays[1:]:
            n_expr = f"_min({n_expr}, len({a}))"
        pre = "\n".join(f"{nm} = {a}[{ivar}]" for a, nm in zip(arrays, names))
        new = ast.parse(f"for {ivar} in range({n_expr}):\n    pass").body[0]
        new.body = ast.parse(pre).body + s.body
        new.orelse = []
        return new

    def while_stmt(self, cx: Ctx, s: ast.While, outer_loop):
        """`while C: B` with a declared iteration bound (WHILE_FUEL): a fold of `if C then B else id` over `range(fuel)`;
        if C still holds afterwards the bound was too small and the error flag is set (the bridge proves it is not)"""
        if s.orelse:
            raise TranslateError(f"{self.fname}: while-else")
        fuel_src = WHILE_FUEL.get(self.fname)
        if fuel_src is None:
            raise TranslateError(f"{self.fname}: while loop without a declared iteration bound")
        if any(isinstance(m, (ast.Continue, ast.Break, ast.Return, ast.Raise, ast.Assert, ast.For, ast.While))
               for n in s.body for m in ast.walk(n)):
            raise TranslateError(f"{self.fname}: while body with control flow")
        fuel_s, fuel_t = self.expr(cx, ast.parse(fuel_src, mode="eval").body)
        if fuel_t != "Int":
            raise TranslateError(f"{self.fname}: while bound is not an integer")
        guarded = ast.If(test=s.test, body=s.body, orelse=[])
        dummy = cx.fresh("w")
        loop = ast.For(target=ast.Name(id=dummy, ctx=ast.Store()), iter=ast.parse(f"range({fuel_src})", mode="eval").body,
                       body=[guarded], orelse=[])
        ast.fix_missing_locations(loop)
        self.for_stmt(cx, loop, outer_loop)
        self.set_err(cx, f"(!{self.cond(cx, s.test)})")

    def _args_in_param_order(self, cx, captured, fields):
        args, seen_aux = [], set()

        def aux(v):
            for ln in v.lens:
                if ln not in seen_aux:
                    seen_aux.add(ln)
                    args.append(ln)
            if v.opt and v.opt not in seen_aux:
                seen_aux.add(v.opt)
                args.append(v.opt)

        for py in captured:
            v = cx.env[py]
            aux(v)
            args.append(v.lean)
        for py in fields:
            if py in ("done!", "ret!", "err!"):
                continue
            aux(cx.env[py])
        return args

    # ---------------------------------------------------------------- function
    def eliminate_aliases(self, fn: ast.FunctionDef, cx: Ctx) -> list:
        """a top-level `x = y` between array names binds both names to ONE array.  When neither name is ever re-bound
        (only element / row stores through them), replacing every `x` by `y` is exactly Python's semantics; anything
        else stays an alias and is refused later"""
        body = list(fn.body)
        for st in list(body):
            if not (isinstance(st, ast.Assign) and len(st.targets) == 1 and isinstance(st.targets[0], ast.Name)
                    and isinstance(st.value, ast.Name) and st.value.id in cx.env and cx.env[st.value.id].ty.startswith("A")):
                continue
            x, y = st.targets[0].id, st.value.id
            rebound = False
            for n in ast.walk(fn):
                tg = []
                if isinstance(n, ast.Assign):
                    tg = n.targets
                elif isinstance(n, (ast.AugAssign, ast.AnnAssign)):
                    tg = [n.target]
                elif isinstance(n, ast.For):
                    tg = [n.target]
                for t in tg:
                    for sub in ast.walk(t):
                        if isinstance(sub, ast.Name) and sub.id in (x, y) and isinstance(sub.ctx, ast.Store) and n is not st:
                            rebound = True
            if rebound or x in [a.arg for a in fn.args.args]:
                continue
            body.remove(st)

            class Ren(ast.NodeTransformer):
                def visit_Name(self, node):
                    if node.id == x:
                        return ast.copy_location(ast.Name(id=y, ctx=node.ctx), node)
                    return node
            body = [Ren().visit(b) for b in body]
            self.aliases = getattr(self, "aliases", []) + [(x, y)]
        return body

    def function(self, fn: ast.FunctionDef, lean_name: str) -> str:
        cx = Ctx(self.fname, {})
        sig = []
        declared = [a.arg for a in fn.args.args]
        for p in declared:
            if p not in self.params:
                raise TranslateError(f"{self.fname}: parameter {p} has no declared type")
        for p in self.params:
            if p not in declared and not p.startswith("local:"):
                raise TranslateError(f"{self.fname}: declared parameter {p} is gone")
        for p in declared:
            t = self.params[p]
            lp = p + "'" if p in LEAN_KEYWORDS else p
            if t == "skip":
                continue
            if t.startswith("const:"):
                # a parameter fixed to a constant by every caller that is modelled (recorded in the output)
                _, ty, val = t.split(":")
                cx.env[p] = Var(val, ty)
                continue
            opt = None
            if t.startswith("Opt"):
                t = t[3:]
                opt = f"{lp}_is_some"
                sig.append(f"({opt} : Bool)")
            lens = ()
            if t.startswith("A(") or t == "D(Int)":
                lens = (f"{lp}_len",)
                sig.append(f"({lp}_len : Int)")
            elif t.startswith("A2("):
                lens = (f"{lp}_len0", f"{lp}_len1")
                sig.append(f"({lp}_len0 : Int) ({lp}_len1 : Int)")
            sig.append(f"({lp} : {lean_ty(t)})")
            cx.env[p] = Var(lp, t, lens, (True, 64) if t == "A(Int)" else None, opt)
        cx.env["err!"] = Var("false", "Bool")
        self.fn_ast = fn
        self.dict_written = set()
        self.loop_depth = 0
        self.views = []
        self.uses_div = False
        self.extra_params = {}
        self.ret_ty = None
        self.pending_ret = None
        body = self.eliminate_aliases(fn, cx)
        esc = self.stmts(cx, body, None)
        if esc is None:
            raise TranslateError(f"{self.fname}: no return")
        if esc == "RAISE":
            raise TranslateError(f"{self.fname}: function always raises")
        for view, base, line in self.views:
            for n in ast.walk(fn):
                tgts = []
                if isinstance(n, ast.Assign):
                    tgts = n.targets
                elif isinstance(n, ast.AugAssign):
                    tgts = [n.target]
                for t in tgts:
                    for sub in (t.elts if isinstance(t, ast.Tuple) else [t]):
                        if isinstance(sub, ast.Subscript) and isinstance(sub.value, ast.Name) and sub.value.id in (view, base) \
                                and getattr(sub, "lineno", 0) > line:
                            raise TranslateError(f"{self.fname}: store into {sub.value.id} after the view {view} of {base} was taken")
        ret_ty = self.ret_ty
        txt = "".join(d + "\n" for d in cx.defs)
        txt += (f"def {lean_name} (k : Kind) " + " ".join(sig) + f" : ({ret_ty}) × Bool :=\n"
                + "".join(f"  {l}\n" for l in cx.lets) + f"  {esc}\n")
        if self.uses_div:
            self.extra_params = {"divf": "Val → Int → Val", **self.extra_params}
        if self.extra_params:
            decl = " ".join(f"({n} : {t})" for n, t in self.extra_params.items())
            names = " ".join(self.extra_params)
            txt = txt.replace(" (k : Kind) ", f" (k : Kind) {decl} ").replace("_step k ", f"_step k {names} ")
        return txt


PRELUDE = """import GroupbyVerif.Model.Imp

set_option linter.unusedVariables false

namespace GV.Generated.Loops
open GV

"""


def find_func(tree: ast.AST, name: str) -> ast.FunctionDef:
    if "/" in name:
        outer, inner = name.split("/", 1)
        inner, _, idx = inner.partition("#")
        o = find_func(tree, outer)
        cands = [n for n in ast.walk(o) if isinstance(n, ast.FunctionDef) and n.name == inner and n is not o]
        k = int(idx or 0)
        if k >= len(cands):
            raise TranslateError(f"function {name} not found")
        return cands[k]
    for n in ast.walk(tree):
        if isinstance(n, ast.FunctionDef) and n.name == name:
            return n
    raise TranslateError(f"function {name} not found")


def first_non_null_dispatch(tree: ast.AST) -> str:
    """`@overload(_get_first_non_null)`: the isinstance chain on the array dtype becomes a match on the kind; the shape of
    the chain is checked (Float -> the python function, Integer -> the first nested `f`, Boolean -> not translated)"""
    fn = find_func(tree, "jit_get_first_non_null")
    chain = [n for n in fn.body if isinstance(n, ast.If)]
    if len(chain) != 1:
        raise TranslateError("jit_get_first_non_null: expected one if-chain")
    tests, node = [], chain[0]
    while True:
        tests.append((ast.unparse(node.test), ast.unparse(node.body[-1])))
        if len(node.orelse) == 1 and isinstance(node.orelse[0], ast.If):
            node = node.orelse[0]
        else:
            break
    want = [("isinstance(arr.dtype, nb.types.Float)", "return _get_first_non_null"),
            ("isinstance(arr.dtype, nb.types.Integer)", "return f"),
            ("isinstance(arr.dtype, nb.types.Boolean)", "return f")]
    if tests != want:
        raise TranslateError(f"jit_get_first_non_null: dispatch chain changed: {tests}")
    return ("/-- `@overload(_get_first_non_null)`: dispatch on the array dtype (booleans: not translated, flagged) -/\n"
            "def get_first_non_null (k : Kind) (arr_len : Int) (arr : Int → Val) : (Int × Val) × Bool :=\n"
            "  match k with\n  | .f => first_non_null_float k arr_len arr\n  | .b => ((0, arr 0), true)\n"
            "  | _ => first_non_null_int k arr_len arr\n\n")


def is_null_dispatch(tree: ast.AST) -> str:
    """`@overload(is_null)`: the isinstance chain on the scalar's numba type becomes a match on the kind.  The loops call the
    hand-written `isNull`; `LoopBridge/IsNull.lean` proves the two equal on well-formed cells, so a change of the
    overload (another sentinel, another type class) fails a named obligation"""
    fn = find_func(tree, "jit_is_null")
    consts = module_int_constants(tree)
    chain = [n for n in fn.body if isinstance(n, ast.If)]
    branches = []
    for node in chain:
        while True:
            inner = [n for n in node.body if isinstance(n, ast.FunctionDef)]
            rets = [n for n in node.body if isinstance(n, ast.Return)]
            if len(inner) != 1 or len(rets) != 1 or ast.unparse(rets[0].value) != inner[0].name:
                raise TranslateError("jit_is_null: branch shape changed")
            body = [b for b in inner[0].body if not (isinstance(b, ast.Expr) and isinstance(b.value, ast.Constant))]
            if len(body) != 1 or not isinstance(body[0], ast.Return):
                raise TranslateError("jit_is_null: implementation is not a single return")
            branches.append((ast.unparse(node.test), ast.unparse(body[0].value)))
            if len(node.orelse) == 1 and isinstance(node.orelse[0], ast.If):
                node = node.orelse[0]
            else:
                if node.orelse:
                    raise TranslateError("jit_is_null: unexpected else branch")
                break
    want_tests = ["isinstance(x, nb.types.Float) or isinstance(x, float)", "isinstance(x, nb.types.Integer)",
                  "isinstance(x, nb.types.Boolean)", "isinstance(x, (nb.types.NPDatetime, nb.types.NPTimedelta))"]
    if [t for t, _ in branches] != want_tests:
        raise TranslateError(f"jit_is_null: dispatch chain changed: {[t for t, _ in branches]}")

    def impl(src: str) -> str:
        if src == "np.isnan(x)":
            return "Val.isNan x"
        if src == "False":
            return "false"
        if src == "np.isnat(x)":
            # NaT is the int64 minimum of the integer view the kernels get
            return "Val.eqF x (Val.num (-9223372036854775808))"
        m = ast.parse(src, mode="eval").body
        if isinstance(m, ast.Compare) and len(m.ops) == 1 and isinstance(m.ops[0], ast.Eq) and ast.unparse(m.left) == "x" \
                and isinstance(m.comparators[0], ast.Name) and m.comparators[0].id in consts:
            return f"Val.eqF x (Val.num ({consts[m.comparators[0].id]}))"
        raise TranslateError(f"jit_is_null: implementation `{src}` not understood")
    f_, i_, b_, t_ = [impl(src) for _, src in branches]
    return ("/-- `@overload(is_null)`: float -> the first implementation, every integer type (signed or unsigned; datetime and\n"
            "timedelta arrive as int64 views, for which the fourth implementation `isnat` is the same test) -> the second, bool -> the third -/\n"
            "def is_null_src (k : Kind) (x : Val) : Bool :=\n"
            f"  match k with\n  | .f => {f_}\n  | .b => {b_}\n  | .i 64 => ({i_}) && ({t_})\n  | _ => {i_}\n\n")


# functions already translated in this run: python name -> (lean name, parameter types, result types)
TRANSLATED: dict = {}

# declared iteration bounds of `while` loops (python expression over the function's variables)
WHILE_FUEL = {"min_or_max_and_position": "len(arr)", "monotonic_factorization": "len(arr_list)"}

# function -> (module key, python name, declared parameter types)
LOOPS = {
    "find_nth": ("numba", "_find_nth",
                 {"group_key": "A(Int)", "ngroups": "Int", "n": "Int", "mask": "OptA(Bool)"}),
    "find_first_or_last_n": ("numba", "_find_first_or_last_n",
                             {"group_key": "A(Int)", "ngroups": "Int", "n": "Int", "mask": "OptA(Bool)", "forward": "Bool"}),
    "group_by_reduce": ("numba", "_group_by_reduce",
                        {"group_key": "A(Int)", "values": "A(Val)", "target": "A(Val)", "reduce_func": "Red",
                         "indexer": "OptL(Int)", "check_in_bounds": "Bool"}),
    "cumulative_reduce": ("numba", "_cumulative_reduce",
                          {"group_key": "A(Int)", "values": "LL(Val)", "reduce_func": "Red", "ngroups": "Int",
                           "target": "A(Val)", "mask": "OptA(Bool)"}),
    "reduce_array_pair": ("numba", "reduce_array_pair",
                          {"x": "A(Val)", "y": "A(Val)", "reducer": "Red", "counts": "OptA(Int)", "y_counts": "OptA(Int)"}),
    "min_or_max_and_position": ("numba", "min_or_max_and_position", {"arr": "A(Val)", "want_max": "Bool"}, "Val", ["Val", "Int"]),
    "rolling_max_or_min": ("numba", "_rolling_max_or_min_1d",
                           {"group_key": "A(Int)", "values": "LL(Val)", "ngroups": "Int", "window": "Int",
                            "min_periods": "OptInt", "mask": "OptA(Bool)", "null_value": "Val", "want_max": "Bool"}),
    "rolling_shift_or_diff": ("numba", "_rolling_shift_or_diff_1d",
                              {"group_key": "A(Int)", "values": "LL(Val)", "ngroups": "Int", "window": "Int",
                               "mask": "OptA(Bool)", "null_value": "Val", "want_shift": "Bool"}),
    "rolling_sum_or_mean": ("numba", "_rolling_sum_or_mean_1d",
                            {"group_key": "A(Int)", "values": "LL(Val)", "ngroups": "Int", "window": "Int",
                             "min_periods": "OptInt", "mask": "OptA(Bool)", "null_value": "Val", "want_mean": "Bool"}),
    "ema_adjusted": ("emas", "_ema_adjusted",
                     {"arr": "A(F)", "alpha": "F", "local:residual": "F", "local:residual_weights": "F"}, "F"),
    "ema_time_weighted": ("emas", "_ema_time_weighted",
                          {"arr": "A(F)", "times": "A(Int)", "halflife": "Int", "local:residual": "F", "local:residual_weights": "F"}, "F"),
    "ema_grouped": ("emas", "_ema_grouped",
                    {"group_key": "A(Int)", "values": "A(F)", "alpha": "F", "ngroups": "Int", "mask": "OptA(Bool)"}, "F"),
    "ema_grouped_timed": ("emas", "_ema_grouped_timed",
                          {"group_key": "A(Int)", "values": "A(F)", "times": "A(Int)", "halflife": "Int", "ngroups": "Int",
                           "mask": "OptA(Bool)"}, "F"),
    "weight_code_sum": ("fact", "_weight_code_sum", {"codes": "A(Int)", "weights": "A(Int)"}, "Val", ["Int"]),
    "monotonic_factorization": ("fact", "_monotonic_factorization", {"arr_list": "LA(Val)", "total_len": "Int"}, "Val",
                                ["Int", "A(Int)", "S(Val)"]),
    "first_non_null_float": ("util", "_get_first_non_null", {"arr": "A(Val)"}, "Val", ["Int", "Val"]),
    "first_non_null_int": ("util", "jit_get_first_non_null/f#0", {"arr": "A(Val)"}, "Val", ["Int", "Val"]),
    "nb_reduce": ("nanops", "_nb_reduce", {"reduce_func": "Red2", "arr": "A(Val)", "skipna": "Bool", "initial_value": "OptVal"}, "Val",
                  ["Val"]),
    "combine_factorizations_arr": ("fact", "_combine_factorizations",
                                   {"codes": "A2(Int)", "code_weights": "A(Int)", "code_tracker": "A(Int)"}),
    "combine_factorizations_dict": ("fact", "_combine_factorizations",
                                    {"codes": "A2(Int)", "code_weights": "A(Int)", "code_tracker": "D(Int)"}),
    "nb_dot": ("util", "_nb_dot", {"a": "LA(Val)", "b": "A(Val)", "out": "A(Val)"}),
    "group_nearby_members": ("numba", "group_nearby_members",
                             {"group_key": "A(Int)", "values": "A(Val)", "max_diff": "Val", "n_groups": "Int"}),
    "build_group_sorted_indexer": ("core", "_build_group_sorted_indexer_numba",
                                   {"group_key_list": "LL(Int)", "group_counts": "A(Int)", "key_map": "OptA(Int)",
                                    "mask": "OptA(Bool)"}),
}


def module_int_constants(tree: ast.AST) -> dict:
    """module-level `NAME = <int>` and `NAME = np.iinfo(np.int64).min / .max`"""
    out = {}
    for n in getattr(tree, "body", []):
        if isinstance(n, ast.Assign) and len(n.targets) == 1 and isinstance(n.targets[0], ast.Name):
            v = n.value
            if isinstance(v, ast.Constant) and isinstance(v.value, int) and not isinstance(v.value, bool):
                out[n.targets[0].id] = v.value
            elif ast.unparse(v) == "np.iinfo(np.int64).min":
                out[n.targets[0].id] = -(2 ** 63)
            elif ast.unparse(v) == "np.iinfo(np.int64).max":
                out[n.targets[0].id] = 2 ** 63 - 1
    return out


def generate_loops(trees: dict[str, ast.AST], only=None) -> tuple[str, dict[str, str]]:
    """returns (Lean text, {function: error message}) - a function that cannot be translated is left out"""
    out = [PRELUDE]
    errors = {}
    TRANSLATED.clear()
    if not only:
        try:
            out.append(is_null_dispatch(trees["util"]))
        except TranslateError as e:
            errors["is_null_src"] = str(e)
            out.append(f"-- TRANSLATE-ERROR is_null_src: {e}\n\n")
    for lean_name, spec in LOOPS.items():
        mod, pyname, params = spec[:3]
        float_ty = spec[3] if len(spec) > 3 else "Val"
        if only and lean_name not in only:
            continue
        try:
            fn = find_func(trees[mod], pyname)
            tr = LoopTranslator(lean_name, params, float_ty, module_int_constants(trees[mod]))
            if len(spec) > 4:
                tr.declared_ret = spec[4]
            out.append(f"/-! ### `{pyname}` -/\n\n" + tr.function(fn, lean_name) + "\n")
            if len(spec) > 4:
                TRANSLATED[pyname] = (lean_name, [t for t in params.values()], spec[4])
            if lean_name == "first_non_null_int":
                out.append(first_non_null_dispatch(trees[mod]))
                TRANSLATED["_get_first_non_null"] = ("get_first_non_null", ["A(Val)"], ["Int", "Val"])
        except TranslateError as e:
            errors[lean_name] = str(e)
            out.append(f"-- TRANSLATE-ERROR {lean_name}: {e}\n\n")
    out.append("end GV.Generated.Loops\n")
    return "".join(out), errors


if __name__ == "__main__":
    import sys
    from pathlib import Path
    repo = Path(sys.argv[1] if len(sys.argv) > 1 else "/repo")
    trees = {
        "numba": ast.parse((repo / "groupby_lib/groupby/numba.py").read_text()),
        "core": ast.parse((repo / "groupby_lib/groupby/core.py").read_text()),
        "emas": ast.parse((repo / "groupby_lib/emas.py").read_text()),
        "fact": ast.parse((repo / "groupby_lib/groupby/factorization.py").read_text()),
        "nanops": ast.parse((repo / "groupby_lib/nanops.py").read_text()),
        "util": ast.parse((repo / "groupby_lib/util.py").read_text()),
    }
    txt, errs = generate_loops(trees)
    print(txt)
    for k, v in errs.items():
        print("ERROR", k, v, file=sys.stderr)
