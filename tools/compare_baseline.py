#!/usr/bin/env python3
"""compare a junit xml of the repository's suite with the stable_pass set of /root/.vp/BASELINE.json"""
import json, sys
import xml.etree.ElementTree as ET
b = json.load(open('/root/.vp/BASELINE.json'))
stable = set(b['stable_pass'])
passed = set()
failed = set()
for tc in ET.parse(sys.argv[1]).getroot().iter('testcase'):
    name = f"{tc.get('classname')}::{tc.get('name')}"
    if any(ch.tag in ('failure', 'error') for ch in tc):
        failed.add(name)
    elif any(ch.tag == 'skipped' for ch in tc):
        pass
    else:
        passed.add(name)
missing = sorted(stable - passed)
print(f"stable_pass={len(stable)} passed_now={len(passed)} stable_not_passing={len(missing)}")
for m in missing[:40]:
    print("  ", m, "(FAILED)" if m in failed else "(absent)")
sys.exit(1 if missing else 0)
