#!/usr/bin/env python3
"""Writes /verif/MANIFEST.json from the table below (kept in one place so that every claimed
property has the same command shape).  Run after editing; validated against the schema if
jsonschema is importable."""
import json
import sys
from pathlib import Path

VERIF = Path(__file__).resolve().parent.parent

BASELINE_CMD = "cd /repo && /venv/bin/python -m pytest -ra -q -p no:cacheprovider --timeout=900 --continue-on-collection-errors --junitxml=/tmp/groupby_lib_baseline.junit.xml"

COMMON_NOTE = ("Trusted base: Lean 4.33 kernel (axioms audited per theorem on every run: propext, Classical.choice, Quot.sound only; "
               "no sorry/admit/native_decide/bv_decide/own axioms), tools/translate.py + tools/translate_loops.py (Python ast -> Lean, "
               "restricted subset, fail closed), the Python correspondence harness and the Lean compiler for the executable driver. "
               "The numba loop kernels _group_by_reduce, reduce_array_pair, _find_nth, _find_first_or_last_n, _cumulative_reduce, "
               "_build_group_sorted_indexer_numba, _weight_code_sum, _rolling_sum_or_mean_1d, _rolling_shift_or_diff_1d, "
               "_rolling_max_or_min_1d with min_or_max_and_position, _ema_grouped, _ema_grouped_timed, _get_first_non_null, _nb_reduce "
               "are translated from the source on every run (Generated/Loops.lean) and proved equal to the hand-written models "
               "(LoopBridge/*.lean). Modelled rather than verified: the remaining loops (monotonic factorization, "
               "_combine_factorizations, group_nearby_members, ungrouped EMA) and the pandas/numpy/arrow glue (hand model tied by differential execution), IEEE rounding (exact arithmetic on "
               "representable inputs; division / exp are uninterpreted functions in the translated loops), thread scheduling (any "
               "completion permutation). ")

CHECKS = {
    "C04": dict(
        text=("Lean theorems (for all rows, blocks, kernels, dtype classes): single pass = per-group definition; merging per-block partials "
              "= single pass over the concatenation (partials form a monoid with the empty partial as identity); negative codes ignored; "
              "max/min/sum characterised as the textbook operations. Reducers are re-translated from the source on every run and proved "
              "equal to the model (Bridge). The loops, dispatch and masks are tied by exhaustive small-scope differential execution of "
              "groupby_lib.groupby.numba.group_* against the compiled model and the specification." " Source level (new): Generated.Loops.group_by_reduce / reduce_array_pair are regenerated from numba.py on every run by tools/translate_loops.py; LoopBridge/Reduce proves them equal to groupByReduce (array order and through an indexer with wrap-around of negative positions, with the bounds error flag) and mergePair; source_kernel_eq_def / source_kernel_indexer_eq_def / source_merge_eq_mergePair state the per-group definition directly about the translated source."),
        note="source_loop_shape: the AST of _group_by_reduce is matched on every run against the loop shape the model stands for (own-slot update, row order, zero counts, negative-key guard). Assumes codes < ngroups, in-range positions, small-integer float values, no int64 partial sum equal to the int64 minimum; prange race-freedom not modelled.",
        technique="Lean 4 proof (fold/merge homomorphism by induction) + source-to-Lean translation of the scalar reducers AND of the reduction / merge loops with proved bridge to the model + exhaustive small-scope correspondence",
        design="§7 C04",
    ),
}

CHECKS["C01"] = dict(
    text=("Lean: modelReduce_eq_specReduce - the whole public reduction pipeline for one value column (factorization by first appearance, the kernel "
          "under any mask kind / thread count, the observed-label filter on value and key counts, the label ordering through the argsort of the label "
          "list) returns exactly the specification: the labels are the keys with at least one selected row, each once, ascending (sort) or in "
          "first-appearance order, each with the per-group definition over its selected rows in row order - for every interleaving of groups, null "
          "placement in keys and values, kernel and dtype class. It rests on C04's end-to-end kernel theorem, C02's factorization lemmas, the "
          "commutation of every mask kind with row-wise maps (selectGen_map) and List.map_mergeSort. Further: all_null_group_neutral, "
          "count_counts_nonnull, first_last_row_order, spec_labels_exactly_selected. The pipeline model is executed by the driver next to the "
          "specification and both are compared with the real GroupBy.size/count/sum/mean/min/max/first/last on generated datasets (all key classes, "
          "1-3 keys, nulls anywhere, all mask kinds)."),
    note="Multi-key factorization (factorize_2d) is covered by C02's theorems and enters the pipeline theorem through the abstract key tuple; label values are abstract ordered atoms; pandas factorize / argsort are trusted to behave as modelled (tied by the differential run).",
    technique="Lean 4 proof (end-to-end pipeline = specification, on top of the kernel contract) + executable pipeline model + differential correspondence against the public API",
    design="§7 C01",
)

CHECKS["C02"] = dict(
    text=("Lean theorems for every key list: first-appearance factorization satisfies label-at-code, equal-codes-iff-equal-keys, null-code-iff-null-key, "
          "labels distinct, every label observed; group positions are ascending, cover exactly the rows with a valid code and never a null-key row; the "
          "mixed-radix combination of several keys is injective on bounded digits and yields the null code iff ANY component is null. "
          "The same relations are evaluated directly on the real output of factorize_1d / factorize_2d / monotonic_factorization / GroupBy (plain, "
          "chunk-wise with scaled threshold, monotonic and partially monotonic, pre-chunked arrow; two keys with 66 000 / 70 000 labels each - beyond 2^32 combinations, the typed-dict tracker - with keys 2^32 apart planted) and the first-appearance routes are compared with the model. "
          "Sorted-prefix route: monotonic_factorization_faithful (Lemmas/Monotonic.lean, loop invariant of the run detection): for every input the cut-off is "
          "the end of the longest null-free non-decreasing prefix, one code per prefix row, labels strictly increasing, label at a row's code has the row's "
          "key; monotonic_codes_eq_iff; monotonic_null_first - for any comparison functions that agree with the key order on non-null elements. Several keys, "
          "end to end: factorize2d_codes_eq_iff - through the per-key factorizations, the mixed-radix combination and the final factorization two rows get "
          "the same code exactly when both hold a null in some key, or neither does and they agree in every key column." " Source level (new): the counting sort _build_group_sorted_indexer_numba is translated from core.py on every run and proved correct (LoopBridge/CountingSort, source_counting_sort): with the true group sizes the segment of every group lists exactly the ascending positions of its rows, for any chunking of the codes and any mask. _weight_code_sum likewise (LoopBridge/WeightCode, source_weight_code_sum): the null code iff ANY component code is null, the last key included, else the injective mixed-radix value. _monotonic_factorization (the chunk-walking sorted-prefix kernel of numba.py) likewise (LoopBridge/MonoFact, source_monotonic_eq_model): codes, labels and cut-off equal the model on the concatenated chunks, both while loops within their declared bounds. _combine_factorizations (array tracker and dict tracker: both numba specialisations are translated, the alias uniques = codes eliminated by renaming) is proved to number the rows' mixed-radix keys by first appearance and to collect the first row of every key (LoopBridge/CombineFact, source_combine_factorizations, source_combine_factorizations_dict)."),
    note="pd.factorize / get_indexer / drop_duplicates are assumed (exercised, not proved); the chunk-pointer route is modelled (C03 chunk_route_eq_global) and tied by correspondence.",
    technique="Lean 4 proof (list induction; mixed-radix injectivity; counting-sort correctness of the translated source loop) + relations evaluated on the implementation's output for every route + model correspondence",
    design="§7 C02",
)

CHECKS["C15"] = dict(
    text=("Lean theorems for every interleaving of groups, every n and every counter width w: under rows < 2^(w-1) `_find_nth` returns the n-th row of "
          "each group from the start / from the end (-1 when too short, the assert never fires), `_find_first_or_last_n` returns the first / last n "
          "rows in ascending position; selected rows carry the group's code (never a null key). The obligations seen_width_* tie w to the dtype the "
          "current source allocates (extracted by the translator): w = 64, so the bound holds for any array. Correspondence: kernels and public "
          "head/tail/nth(keep_input_index=True) incl. groups of 32766..70000 rows, arbitrary index, multi-column values." " Source level (new): _find_nth and _find_first_or_last_n are translated from numba.py on every run and proved equal to the models (LoopBridge/FindNth, FirstLast); source_nth_eq_spec / source_head_eq_spec / source_tail_eq_spec state the specification (and that the assert never fires) about the translated source, masks included."),
    note="_get_row_selection (positional take, index restoration, ordering) is tied by correspondence only; row identity at the public level through unique values.",
    technique="Lean 4 proof (per-group fold + wrapping-counter invariant) + source-to-Lean translation of both selection loops with proved bridge + boundary-size correspondence",
    design="§7 C15",
)

CHECKS["C08"] = dict(
    text=("Lean theorem cum_eq_prefix: for every list of rows (any interleaving of groups, null keys, nulls, boolean mask) the output of the cumulative "
          "loop equals, at every non-null-key row, the per-group definition (sum/min/max/count of the non-null selected values of the same group up to "
          "and including the row); null-key rows get a marker independent of all other rows; rows of other groups / unselected rows never enter; the "
          "last cumulative value of a group equals the group reduction; a null makes the non-skipping float sum null from there on. Reducers come from "
          "the source via the translator+Bridge; the loop is tied by correspondence on numba.cum* and GroupBy.cum* (all dtype classes, ints beyond 2^53, "
          "datetime/timedelta with NaT, exact dtype checks)." " Source level (new): _cumulative_reduce is translated from numba.py on every run and proved equal to cumGo (LoopBridge/Cumulative: the read-back target[last_seen] including target[-1] on a group's first row, the uint32 count array below 2^32 rows, any chunking of the values); source_loop_eq_spec states the prefix-reduction specification about the translated source."),
    note="source_loop_shape: the AST of _cumulative_reduce is matched on every run against the loop shape the model cumGo stands for (running row counter, read of the previous output position of the group, masked pass-through). The read-back of the running value from the output array is modelled as the group's running partial (each position is written once, in its own iteration); cummin/cummax with skip_na=False are compared with the model only (the property does not define them).",
    technique="Lean 4 proof (structural induction over the row list, any starting state) + source-to-Lean translation of the reducers and of the cumulative loop with proved bridge + differential correspondence",
    design="§7 C08",
)

CHECKS["C09"] = dict(
    text=("Lean: the rolling loop's output at every selected row is computed from the ring state of that row's group folded over exactly the group's "
          "selected rows (rollGo_at, any interleaving/mask/null keys); the ring state satisfies the invariant RInv (buffer = last `window` values in "
          "ring order, write position, saturating rows-seen, running sum and non-null count agree with the window) for every history; hence rolling "
          "sum and mean equal the window reduction with the min_periods rule (rolling_sum_eq_window, rolling_mean_eq_window). Rolling max / min: the "
          "invariant MInv of the extremum kernel (Lemmas/RingMax.lean: the kept extremum is the extremum of the window's non-null values - incremental "
          "while the window fills, replaced by a value at least as good, otherwise recomputed by min_or_max_and_position over the circular buffer, "
          "which by window_cover / buf_mem_iff holds exactly the window's values; minOrMax_isExt characterises the scan) gives rolling_max_eq_window "
          "and rolling_min_eq_window for every history, window and min_periods >= 1. Shift / diff: rolling_shift_diff_eq_window (the value `window` "
          "group-rows earlier / the difference to it, null until then). Correspondence on numba.rolling_* and GroupBy.rolling_*/shift/diff, both "
          "layouts, temporal exactness and time unit, boundary windows 32767/32768/40000." " Source level (new): _rolling_sum_or_mean_1d and _rolling_shift_or_diff_1d are translated from numba.py on every run and proved equal to the ring-buffer models (LoopBridge/Rolling; the mean's division is an uninterpreted function); source_rolling_sum_mean_eq_window / source_rolling_shift_diff_eq_window state the window specification about the translated source., and the extremum kernel _rolling_max_or_min_1d with its helper min_or_max_and_position (a while loop with a declared and proved iteration bound) likewise: source_rolling_max_min_eq_window. Correspondence includes windows 17/130/200 over up to 14 windows of rows."),
    note="index_by_groups=True delegates to pandas rolling (assumed); counters are unbounded in the model (source widths extracted and checked >= 16 bits, boundary windows exercised); the shift / diff theorem is stated for the float view (null = NaN), temporal values are compared by the correspondence run.",
    technique="Lean 4 proof (ring-buffer invariants for the sum and the extremum kernel by induction over the history + per-group lift) + source-to-Lean translation of the sum/mean and shift/diff loops with proved bridge + differential correspondence",
    design="§7 C09",
)

CHECKS["C10"] = dict(
    text=("Lean (exact rational arithmetic): for every interleaving of groups the output at a row is a function of the same group's rows up to it only "
          "(loopGo_at: group independence, null-key rows get a constant marker); the per-group state is the decayed weighted sums of the history "
          "(run_state), hence at every valid row the output is the normalised exponentially weighted mean with weight beta^(group rows elapsed) "
          "(ema_closed_form); invalid rows repeat the previous output, the output is null until the first valid observation; the time-weighted kernel "
          "satisfies the same closed form with weight decay(t_i - t_j) for ANY multiplicative decay (ema_timed_closed_form), of which 2^(-dt/halflife) "
          "is an instance. Correspondence: ema / ema_grouped / GroupBy.ema against the exact rational model (untimed, rational alpha) and a float "
          "closed-form oracle (halflife, timed; units s/ms/us/ns, pre-1970, leading nulls, masks, null keys, both layouts)." " Source level (new): _ema_grouped and _ema_grouped_timed are translated from emas.py on every run over exact rationals with NaN (FVal) and proved equal to the models (LoopBridge/Ema; exp / ln 2 uninterpreted); source_ema_closed_form states the weighted-mean closed form about the translated source. The ungrouped _ema_adjusted and _ema_time_weighted are translated and bridged too; source_single_group_eq_ungrouped(_timed): the translated grouped kernel on one group equals the translated ungrouped kernel at every row (two source functions, no hand model)."),
    note="PARTIAL for real-valued halflives: alpha = 1 - 2^(-1/h) and decay = 2^(-dt/h) involve exp/log, which are outside the model; the conversion is checked by comparing the entry points with the float closed form to 1e-9 relative. Mathlib single modules (FieldSimp, Ring, Positivity, Order.Field.Rat, Data.List.Basic) are imported by this proof file only.",
    technique="Lean 4 proof over Rat (state invariant = decayed weighted sums; closed form; abstract multiplicative decay) + source-to-Lean translation of both grouped EMA loops with proved bridge + differential correspondence",
    design="§7 C10",
)

CHECKS["C05"] = dict(
    text=("Lean: kernel_mask_eq_filter - for every kernel, dtype class, mask kind (boolean, slice with None/negative bounds, positions with repeats/negatives), "
          "thread count and value chunking the masked group kernel returns what the unmasked kernel returns on rows[mask] (from the end-to-end kernel theorem "
          "groupKernel_eq_def, which includes the proof that the dispatch's blocks concatenate to rows[mask]); unselected_rows_inert; for row-aligned "
          "operations cum_mask_eq_filter, rolling_sum/mean_mask_eq_filter, rolling_extremum_mask_eq_filter (max / min) and rolling_shift_diff_mask_eq_filter: "
          "at every selected row the masked run equals the run on the filtered data at the row's rank. Metamorphic correspondence on the public API for every maskable operation (reductions incl. var/std/median, cumulative, rolling, "
          "shift/diff, EMA plain and timed) plus overwrite-unselected-values test. Source level (new): source_positions_eq_filter / source_bool_mask_eq_filter (translated kernel through an indexer = translated kernel on the selected rows, no bounds error) source_cum_mask_eq_filter (translated cumulative loop, rank of the row among the selected rows), source_rolling_sum_mask_eq_filter / source_rolling_max_mask_eq_filter (translated rolling kernels, via the generic WindowFn lemma)."),
    note="The EMA kernels are covered by the metamorphic run (and C10's group-independence theorems); the public pipeline above the kernels (observed filter under a mask) by correspondence. Open finding: untimed EMA treats masked rows as null values (pinned by tests).",
    technique="Lean 4 proof (corollaries of the kernel contract and of the prefix theorems; list rank/filter lemma) + metamorphic differential testing of masked vs filtered executions",
    design="§7 C05",
)

CHECKS["C06"] = dict(
    text=("Lean: deleting the rows with a null (negative) code changes no group's reduction (from the kernel contract); a multi-key row gets the null code iff "
          "ANY component is null (mixed-radix theorem); for the cumulative loop, rolling sum / mean / max / min / shift / diff and the EMA loop shape: the output at a non-null-key row is "
          "unchanged by deleting the null-key rows (dropNull_at_rank rank lemma + prefix theorems), and a null-key row receives a marker that depends on no "
          "other row; the obligation all_guards_present ties this to the `key < 0` guards of the current source (extracted by the translator for nine loops). "
          "Metamorphic correspondence: every public operation (reductions, transform, cumulative, rolling, shift/diff, EMA, head/tail/nth, groups, "
          "group_nearby_members; source level (new): source_null_rows_inert_reduction, source_cum_null_rows_inert, source_cum_null_row_marker relate two runs of the translated loops; source_rolling_sum_null_rows_inert / source_rolling_max_null_rows_inert / source_ema_null_rows_inert do the same for the translated rolling and EMA kernels; group_nearby_members is translated and bridged (LoopBridge/Nearby) with source_nearby_spec - what every row's sub-group number is - and source_nearby_null_rows_inert) on data with nulls in any key position (single keys also behind a two-chunk arrow key with chunk-local codes) vs the same data with those rows deleted; constancy of the marker."),
    note="Row selection is covered at the model level by its own property (C15) and here by the metamorphic run.",
    technique="Lean 4 proof (corollaries of kernel contract / prefix theorems via a rank lemma; source guard facts) + metamorphic differential testing",
    design="§7 C06",
)
CHECKS["C07"] = dict(
    text=("Lean: transform_eq_lookup - the transform output has one entry per input row in input order; a row with a valid code gets the per-group definition "
          "over the selected rows of its group, a row with a null key indexes (numpy wrap-around of -1) the extra trailing slot, which no row writes and which "
          "therefore holds the neutral value (untouched_slot_neutral); groups without a selected row likewise; container rule as decision logic. "
          "Correspondence: transform=True vs the same call with transform=False re-broadcast by the harness, for all reductions incl. var/std/median/apply, "
          "contiguous / chunk-factorized / pre-chunked arrow keys, numpy / indexed pandas / polars values, masks. Source level (new): source_transform_eq_lookup - the ngroups + 1 slots written by the translated _group_by_reduce, fancy-indexed with the row codes (wrap of -1 to the trailing slot), give valid rows their group's definition and null-key rows the neutral value; source_transform_shape: the ngroups + 1 slots, the dropped / restored null slot of the chunked route and the fancy-index broadcast are re-extracted from the AST of core.py on every run."),
    note="The public glue (index restoration, container conversion, unification of chunked codes before indexing) is tied by correspondence; size() has no values input, so no container/index rule is demanded for it.",
    technique="Lean 4 proof (lookup theorem over the kernel contract) + metamorphic differential testing against the non-transform result",
    design="§7 C07",
)

CHECKS["C03"] = dict(
    text=("Lean: parallel_map_order_independent - for EVERY permutation of the completion order of the pool tasks the gathered list equals the task results in "
          "submission order (gather by submission index); kernel_strategy_independent - any two (thread count, value chunking) strategies give the same "
          "per-group result (corollary of the end-to-end kernel theorem, which quantifies over all block splits incl. groups absent from a block); "
          "chunk_route_eq_global - a chunk-local code mapped through the chunk's pointer table equals the code against the unified label list (whole vs "
          "chunk-wise factorization). Metamorphic correspondence through the public API: baseline strategy vs random strategies (threads 1..4, whole / "
          "chunk-wise / monotonic / partially monotonic / pre-chunked arrow keys, contiguous / arrow-chunked values, random completion orders through the real "
          "gathering code) for reductions, transform, cumulative, rolling, shift/diff, EMA, all mask kinds; three real-size cases (1M and 2M rows, no scaling). "
          "Source level (new): source_blockwise_eq_single_pass - the translated _group_by_reduce run block by block (any blocks) and merged by the translated reduce_array_pair in the order of combine_chunk_results_for_factorized_key equals the translated kernel in one pass (both sides are runs of the regenerated source); source_combine_fold_shape pins the hand-mirrored Python fold to the AST of the source."),
    note="PARTIAL: 'sums and means agree to floating-point rounding' is checked by a 1e-9 relative tolerance only (the model is exact arithmetic); real thread interleavings / data races are outside the model (tasks share no mutable arrays - assumed); the thread-count heuristic is replaced by the scaled value in the small runs and exercised unmodified in the real-size cases.",
    technique="Lean 4 proof (permutation-invariance of gathering; strategy independence as corollary of the kernel contract; pointer-table lemma) + metamorphic differential testing across strategies",
    design="§7 C03",
)

CHECKS["C13"] = dict(
    text=("Lean: state machine of the key representation (code chunks, optional per-chunk pointer tables, contiguous flag) with every public operation "
          "classified by its rewrite (none / unify keep_chunked / unify flatten / both); unify_preserves_abs: unification never changes the global code "
          "of any row (null code kept); history_preserves_abs / history_independent by induction over arbitrary operation lists: any result that is a "
          "function of the global codes is the same after ANY history as on the fresh object; unify_false_flat; chunked_reduce_eq_flat: merging per-chunk "
          "partials (through the pointer tables, from the empty partial) equals the single pass over contiguous global codes. Correspondence: random "
          "operation histories on one real object (4 initial representations, all public methods incl. copy-construction and class-level calls, fresh "
          "values/masks per step), every output compared with a freshly built object, labels re-checked after every step."),
    note="The classification of operations by their rewrite and the claim that results are functions of the global codes are read off core.py and tied by the stateful correspondence run; cached properties other than the code layout are covered by the run only.",
    technique="Lean 4 proof (refinement to the abstract code list, invariant by induction over histories) + stateful differential testing against fresh objects",
    design="§7 C13",
)

CHECKS["C20"] = dict(
    text=("Lean: the null-skipping _nb_reduce without initial value equals the fold of the non-null values seeded by the first of them (null when all are null); "
          "for EVERY split into chunks (any thread count, all-null and single-element chunks included) reducing the chunk results while skipping null "
          "results equals the one-pass min / max (associativity + closure of the source's comparison reducers, which are re-translated from util.py and "
          "proved equal to the model), the sum of chunk sums / counts equals the sum / count; max is member and upper bound; bools_to_categorical: bit i of "
          "the row mask is set iff column i is true, so the label names exactly the true columns (for any number of columns); pretty_cut: with sorted edges "
          "searchsorted puts x into (edge[i-1], edge[i]]. Correspondence: nanops.* vs NumPy / exact rational oracles and the Lean reduce_1d model over "
          "exhaustive null placements x threads 1..8, long float32 / float64 arrays (2e5..4e5 values, 2^24 + 1000 ones) against NumPy on the float64 copy, 2-D axes, nb_dot over ndarray/pandas/polars, all small boolean frames, edge grids incl. values on edges. "
          "Source level (new): _nb_reduce and _get_first_non_null (with the dtype dispatch of its numba overload) are translated from nanops.py / util.py on "
          "every run and proved equal to nbReduce / firstNonNull on all six paths (LoopBridge/NbReduce; source_nb_reduce_skipna, source_nb_reduce_initial); _nb_dot is translated and proved to be the row-wise sum of products (LoopBridge/Dot, source_nb_dot_eq_product); the @overload(is_null) dispatch is re-read on every run and proved equal to the model's null test (LoopBridge/IsNull)."),
    note="The executable model reduce1d itself is proved end to end: reduce1d_sum_threads, reduce1d_count_threads (any thread count, float view, = NumPy nansum / count of non-null) and reduce1d_extremum_eq_numpy (max / min, any thread count whose array_split has no empty chunk, = nanmax / nanmin, NaN when all null); an EMPTY chunk (n_threads > len) makes the source read arr[0] of an empty array (undefined in the model) - exercised, no wrong result observed; mean/var/std are exact only in rational arithmetic (float results compared to 1e-9).",
    technique="Lean 4 proof (fold/chunk homomorphism, testBit induction, sorted-search lemma) + source-to-Lean translation of the reducers and of _nb_reduce / _get_first_non_null with proved bridge + differential correspondence against NumPy",
    design="§7 C20",
)

CHECKS["C16"] = dict(
    text=("Lean (exact rational arithmetic): var_identity - the one-pass formula (Sum x^2 - (Sum x)^2/n)/(n-ddof) the library evaluates equals the two-pass sample "
          "variance Sum(x-mean)^2/(n-ddof) for every list and ddof (via Sum(x-m)^2 = Sum x^2 - 2m Sum x + n m^2); group_var_eq_two_pass - GroupBy.var end to end through the three kernel calls is that variance of the group's selected non-null values, and null exactly when the group has no more such values than ddof (source_var_eq_two_pass: the same from three runs of the translated kernel); apply: the "
          "group-sorted indexer hands each label exactly its rows in ascending row order (counting-sort theorems of C02); density shares add up to 100 "
          "whenever the total is non-zero. Correspondence: var/std (ddof 0..3, int32/int64 values up to 4e9) vs two-pass Fraction arithmetic (exact on integers; on floats with offsets up to 1e8 "
          "within 16*n*eps*max|x|^2), median/quantile vs NumPy on each group's selected values, apply with scalar / fixed-length / input-aligned user "
          "functions, agg lists vs individual calls, ratio, subset_ratio, density with/without margins; masks, null keys, unused categories, 1-2 value columns."),
    note="PARTIAL: the floating-point rounding bound of the one-pass variance is only tested against the stated allowance, not proved; NumPy's quantile interpolation is the reference (assumed). Mathlib single modules imported by this proof file only.",
    technique="Lean 4 proof over Rat (algebraic identities by induction + field_simp/ring) + differential correspondence against exact rational / NumPy oracles",
    design="§7 C16",
)

CHECKS["C14"] = dict(
    text=("Lean: margin_sum_eq_direct - the sum over the distinct labels of the per-label sums equals the direct sum over all selected rows (additivity over the "
          "partition by key; covers sum / count / size margins); margin_extremum_eq_direct - merging per-group partial results with the count-aware merge "
          "equals the reduction over all rows (min/max/first/last: extreme of extremes, null-aware; instance of the C04 monoid theorem with block = group); "
          "mean margin = total sum over total count with the explicit mean-of-means counter-example; crosstab_margin_eq_oneway. Correspondence: every result "
          "row of GroupBy.<fn>(margins=True | level subsets) for 1-3 keys with sparse combinations, nulls and masks, and every cell / margin of crosstab, "
          "is recomputed from the selected rows it summarises; ordinary rows compared with the no-margins call; 'All' only at requested levels."),
    note="add_row_margin's use of pandas reindex / groupby(level) / concat / unstack is assumed library behaviour and tied by correspondence only.",
    technique="Lean 4 proof (partition additivity by induction; monoid merge from C04) + differential correspondence against a row-level oracle",
    design="§7 C14",
)

CHECKS["C11"] = dict(
    text=("Lean: the lexicographic order on key tuples is a total preorder (keyLe_total, keyLe_trans), hence the sorted label list is ascending and a permutation "
          "of the labels (labels_sorted); the specification lists the observed labels ascending with sorting on (spec_labels_sorted) and as a sub-list of the "
          "first-appearance order with sorting off (spec_labels_first_appearance); shape decision logic: Series iff a single 1-D input (series_iff_single_1d), "
          "one column per input (columns_one_per_input), column naming keeps positions (colNames), column independence. Correspondence: index levels and "
          "names, label set and order under sort / observed_only / masks / categorical-with-unused categories, Series name, DataFrame columns and their "
          "order, each column vs the result for that input alone, for values given as ndarray / named and unnamed Series / polars Series / list / dict / "
          "DataFrame / 2-D array and keys as arrays, indexed Series or lists."),
    note="Boolean keys are factorized against the fixed label list [False, True] and are treated like a categorical (category order, also with sort=False); ordering of heterogeneous label types is pandas' (assumed).",
    technique="Lean 4 proof (order properties + mergeSort lemmas; decision tables by case analysis) + differential correspondence on labelling / shape observables",
    design="§7 C11",
)

CHECKS["C18"] = dict(
    text=("Lean: the validation (Model/Align.lean: lengthsOk, chainOk, accepts - the Boolean content of _validate_input_lengths_and_indexes / "
          "_preprocess_arguments / check_data_inputs_aligned) accepts a call iff every array argument has the number of key rows and every pandas "
          "argument carries the keys' index (accepts_iff_aligned; with lengthsOk_iff / chainOk_iff: the pairwise zip(indexes, indexes[1:]) chain and "
          "len(set(lens)) == 1 are equivalent to all-equal), so misaligned calls are rejected and aligned ones never are. Correspondence: the whole "
          "table public operation x array argument x perturbation is executed; for each call the abstraction (lengths, index identities) is sent to "
          "the Lean driver and the implementation must raise iff the model rejects."),
    note="'rejected' = any Python exception. The untimed top-level ema(values) has one array argument (nothing to misalign). Integer-position masks / slices are exempt by design.",
    technique="Lean 4 proof (accepts_iff_aligned by list induction) + exhaustive differential table (operation x argument x perturbation) of raise-vs-return against the Lean validator",
    design="§7 C18",
)

CHECKS["C19"] = dict(
    text=("Lean, static part: tools/effects.py re-extracts from the source, on every run, the effect table of all functions of groupby_lib (local in-place "
          "writes: subscript / augmented stores, out=, np.copyto & co, in-place methods, attribute stores, inplace=True; calls with the aliases bound to each "
          "callee parameter, alias kinds object / view / element / held-in-fresh-container) and a certificate; reach_mem_of_closed proves (induction over call "
          "chains) that a certificate which contains the local writes and is closed under every call site over-approximates every reachable write; "
          "generated_cert_closed / generated_cert_safe check the generated table by kernel evaluation; public_entry_writes_no_input: no public entry point can "
          "write through one of its parameters or store into a buffer of the grouping's state. Semantic part on a heap model: frame (stores above the "
          "pre-existing buffers leave them unchanged), result_edit_keeps_inputs, repeat_call_same_result. Dynamic correspondence: byte-level snapshots of "
          "every input object and of the numpy buffers they view, before/after each call of random 1-3 step histories over all public operations, key / value / "
          "mask containers incl. zero-copy views; the result is then edited in place and the inputs, the grouping's labels / row decoding and the repeated "
          "call (same and fresh grouping) are compared."),
    note=("The abstract interpretation of Python in tools/effects.py is trusted (its alias rules are listed in its docstring; unknown third-party calls are "
          "assumed not to write their arguments); the dynamic check is what observes third-party behaviour. groupby_lib/extensions.py (explicit inplace=True "
          "helpers patched onto pandas) is outside the entry-point set."),
    technique="Lean 4 proof (certificate soundness by induction on reachability; generated effect table checked by decide +kernel; heap frame theorem) + byte-level snapshot / result-scribble differential runs",
    design="§7 C19",
)

CHECKS["C12"] = dict(
    text=("Lean: same_answer_any_layout (the kernel result is independent of the value layout - contiguous or arrow chunks with arbitrary boundaries - and of "
          "the thread count; corollary of groupKernel_eq_def); selection_is_element / reduction_selection_is_element / cum_selection_is_element: min, max, "
          "first, last, cummin, cummax return the dtype's null or an element of the group's selected input values, end to end through masks, threads and "
          "chunkings; wsum_eq / int_sum_exact / uint_sum_exact / wsum_append: accumulation with wrapping 64-bit additions (incl. merging thread partials) "
          "equals the exact integer sum whenever it is representable; accumulator_table: the accumulator dtype / initial value table obtained by executing the "
          "source text of _build_target_for_groupby on its whole finite domain (11 dtypes x 14 operations), checked by kernel evaluation. Correspondence: "
          "3-4 arrangements of the same logical data over all key / value containers, chunk boundaries, thresholds and thread counts must give identical "
          "labels and numbers; selection-type results are compared with the element computed from the logical data and must keep the input's dtype class "
          "(width, unit, time zone); integer sums are compared with Python's exact sum (values up to 2**61)."),
    note=("Integer dtypes holding nulls exist only in arrow / polars containers and are compared among those (open finding C12-nullable-int-rounded-through-float: "
          "they travel as float64). Container normalisation (util._val_to_numpy, to_arrow, pandas / polars / pyarrow conversions) is tied by the differential runs only."),
    technique="Lean 4 proof (layout independence, element-hood of selection results, exactness of wrapping 64-bit sums, generated accumulator table) + metamorphic container / dtype differential runs",
    design="§7 C12",
)

CHECKS["C17"] = dict(
    text=("Lean: model of the by / level resolution (Model/Facade.lean: resolveItem, resolveAll, resolve); key_columns_not_aggregated, non_key_columns_kept, "
          "value_columns_sublist, keys_length (columns used as keys are never value columns, all others are, in frame order; one key per item); "
          "selection_honoured; on the facts extracted from api.py on every run: every_method_passes_selected_values (each facade method, and rolling, hands "
          "_values_to_group - or nothing for size / cumcount - to the engine), delegation_same_name, source_facts (__iter__ indexes with .iloc, value columns "
          "exclude key columns, [] builds the column / value_columns selection); iteration by position: iter_labels_once, iter_rows_exact (exactly the rows of "
          "the group, in row order, whatever the index labels) and loc_is_not_iloc. Correspondence: the Lean resolve model vs the implementation's value "
          "columns / key count / ngroups; every facade method vs the core engine on the selected columns (identical labels, columns, numbers) and vs pandas "
          "groupby for the operations pandas offers, on frames / Series with default, shuffled, string, duplicated and MultiIndex indexes, keys as columns, "
          "arrays, Series, level names / numbers, index name and mixtures, with and without [] selection; cumcount and iteration checked structurally."),
    note="Agreement with pandas is established by the differential runs only (pandas is not modelled). median is compared with the engine, not with pandas (not in the property's list).",
    technique="Lean 4 proof (resolution model by list induction; generated delegation table and source facts by decide; positional iteration theorem) + differential runs against the core engine and pandas",
    design="§7 C17",
)

NOT_APPLICABLE: list[dict] = []


def main():
    props = [json.loads(l) for l in (VERIF / "properties.jsonl").read_text().splitlines() if l.strip()]
    ids = [p["id"] for p in props]
    checks = []
    for pid in ids:
        if pid not in CHECKS:
            continue
        c = CHECKS[pid]
        checks.append({
            "property_id": pid,
            "quick_cmd": f"./check {pid} --tier quick",
            "thorough_cmd": f"./check {pid} --tier thorough",
            "evidence_file": f"evidence/{pid}.json",
            "replay_cmd_template": f"./check {pid} --replay {{path}}",
            "engine": "lean-model+correspondence",
            "level_claimed": {"category": "proof", "text": c["text"], "design_ref": c["design"]},
            "level_note": COMMON_NOTE + c["note"],
            "technique": c["technique"],
        })
    na = list(NOT_APPLICABLE)
    claimed = {c["property_id"] for c in checks}
    listed = {n["property_id"] for n in na}
    for pid in ids:
        if pid not in claimed and pid not in listed:
            na.append({"property_id": pid, "reason": "not yet claimed: model and correspondence check for this property are still under construction (technique applies; see DESIGN.md §7)"})
    manifest = {
        "version": 1,
        "setup_cmd": "./setup.sh",
        "hooks": {
            "guard": "GROUPBY_LIB_VERIF",
            "enable": ("no source hooks are needed: the harness sets GROUPBY_LIB_VERIF=1 for documentation only and scales thresholds / controls the "
                       "thread pool at run time from outside (module constant THRESHOLD_FOR_CHUNKED_FACTORIZE, concurrent.futures executor and "
                       "as_completed), see tools/harness/pool.py"),
            "baseline_off_cmd": BASELINE_CMD,
            "source_commits": [],
            "add_only": True,
        },
        "engines": [
            {"name": "lean-model", "path": "lean/", "serves_properties": sorted(claimed),
             "kind_free_text": "Lean 4 model (import-free, executable) + property theorems + bridge to source-generated definitions"},
            {"name": "translator", "path": "tools/translate.py", "serves_properties": sorted(claimed),
             "kind_free_text": "Python ast -> Lean for the scalar reducers and the constants/dtypes/guards the proofs depend on; rerun on every check"},
            {"name": "correspondence", "path": "tools/harness/", "serves_properties": sorted(claimed),
             "kind_free_text": "differential execution of the real code vs the compiled Lean driver over a line protocol; search, shrink, replay"},
        ],
        "checks": checks,
        "notes": "fix: commits in /repo are listed in known_findings.json (status fixed). See DESIGN.md.",
        "not_applicable": na,
    }
    out = VERIF / "MANIFEST.json"
    out.write_text(json.dumps(manifest, indent=1) + "\n")
    try:
        import jsonschema
        schema = json.loads(Path("/root/.vp/MANIFEST.schema.json").read_text())
        jsonschema.validate(manifest, schema)
        print("MANIFEST.json written and valid;", len(checks), "checks,", len(na), "not claimed")
    except ImportError:
        print("MANIFEST.json written (jsonschema not available for validation)")


if __name__ == "__main__":
    sys.exit(main())
