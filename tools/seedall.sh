#!/bin/bash
# regression: apply every seeded change to /repo in turn, run its property's quick check, revert; one line per seed
cd "$(dirname "$0")/.."
for d in seeded/*/; do
  s=$(basename $d); p=${s%%-*}
  python3 tools/seedtest.py seeded/$s $p 2>&1 | grep -v WARNING | python3 -c "
import sys,json
try:
    d=json.load(sys.stdin)
    print('$s', 'applies' if d.get('patch_applies') else 'NOPATCH', 'confirmed' if d.get('confirmed') else 'unconfirmed', {k:v['exit'] for k,v in d['checks'].items()})
except Exception as e:
    print('$s', 'ERROR', e)
"
done
git -C /repo status --short | head -3
