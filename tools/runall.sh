#!/bin/bash
# run every registered check once (tier and seed from the arguments), print one summary line each
# usage: tools/runall.sh quick 2
cd "$(dirname "$0")/.."
tier=${1:-quick}; seed=${2:-20260926}
for p in C01 C02 C03 C04 C05 C06 C07 C08 C09 C10 C11 C12 C13 C14 C15 C16 C17 C18 C19 C20; do
  out=$(VERIF_SEED=$seed timeout 14400 ./check $p --tier $tier 2>&1)
  rc=$?
  echo "$out" | grep -E "^\[$p\]|^VIOLATION|^HARNESS" | cut -c1-240
  echo "   -> $p exit=$rc"
done
