"""Real containers for one logical column (shared by C12 container invariance and C19 no-mutation).

A logical column is a list of python ints / None plus a dtype class; `wrap` turns it into any of the supported
containers, optionally as a zero-copy view of a numpy buffer that the harness keeps (and snapshots).
`snapshot` gives a byte-level + logical fingerprint of any input object, `scribble` overwrites a result in place.
"""
from __future__ import annotations

import numpy as np
import pandas as pd
import polars as pl
import pyarrow as pa

from .kernelcases import DTYPES, MIN_INT

# value dtype classes usable for container comparisons: numpy dtype, arrow type
VDT = {
    "f64": ("float64", pa.float64()), "f32": ("float32", pa.float32()),
    "i64": ("int64", pa.int64()), "i32": ("int32", pa.int32()), "i16": ("int16", pa.int16()), "i8": ("int8", pa.int8()),
    "u8": ("uint8", pa.uint8()), "u16": ("uint16", pa.uint16()), "u32": ("uint32", pa.uint32()), "u64": ("uint64", pa.uint64()),
    "bool": ("bool", pa.bool_()),
    "M8ns": ("datetime64[ns]", pa.timestamp("ns")), "M8us": ("datetime64[us]", pa.timestamp("us")), "M8ms": ("datetime64[ms]", pa.timestamp("ms")),
    "M8s": ("datetime64[s]", pa.timestamp("s")),
    "M8ns_tz": ("datetime64[ns]", pa.timestamp("ns", tz="Europe/Dublin")), "M8us_tz": ("datetime64[us]", pa.timestamp("us", tz="US/Eastern")),
    "m8ns": ("timedelta64[ns]", pa.duration("ns")), "m8s": ("timedelta64[s]", pa.duration("s")), "m8us": ("timedelta64[us]", pa.duration("us")),
}
NUMPY_NULLABLE = {"f64", "f32", "M8ns", "M8us", "M8ms", "M8s", "M8ns_tz", "M8us_tz", "m8ns", "m8s", "m8us"}   # NaN / NaT

VALUE_CONTAINERS = ["ndarray", "ndarray_strided", "ndarray_readonly", "pd_series", "pd_series_indexed", "pd_series_arrow", "pd_index",
                    "pl_series", "pa_array", "pa_chunked", "pd_series_arrow_chunked"]
KEY_CONTAINERS = ["ndarray", "ndarray_strided", "pd_series", "pd_series_indexed", "pd_series_arrow", "pd_index", "pd_categorical", "pl_series",
                  "pa_array", "pa_chunked", "pa_dictionary", "list"]


def tz_of(vdt):
    t = VDT[vdt][1]
    return getattr(t, "tz", None)


def numpy_column(vals, vdt):
    """canonical numpy form (NaN / NaT for nulls); raises if the dtype cannot hold the nulls"""
    npdt = np.dtype(VDT[vdt][0])
    if npdt.kind in "mM":
        return np.array([MIN_INT if v is None else v for v in vals], dtype=np.int64).view(npdt)
    if npdt.kind == "f":
        return np.array([np.nan if v is None else float(v) for v in vals], dtype=npdt)     # float("inf") for the token "inf"
    if any(v is None for v in vals):
        raise ValueError("dtype has no null")
    return np.array(vals, dtype=npdt)


def arrow_column(vals, vdt, chunks=None):
    typ = VDT[vdt][1]
    if pa.types.is_boolean(typ):
        vals = [None if v is None else bool(v) for v in vals]
    if pa.types.is_floating(typ):
        vals = [None if v is None else float(v) for v in vals]
    arr = pa.array(vals, type=typ)
    if chunks is None:
        return arr
    out, o = [], 0
    for c in chunks:
        out.append(arr.slice(o, c))
        o += c
    assert o == len(vals), (chunks, len(vals))
    return pa.chunked_array(out, type=typ)


def wrap(vals, vdt, kind, chunks=None, name=None, index=None):
    """-> (object, owners): owners = numpy arrays whose memory the object may share (kept and snapshotted by the caller)"""
    has_null = any(v is None for v in vals)
    tz = tz_of(vdt)
    if kind.startswith("ndarray") or kind in ("pd_series", "pd_series_indexed", "pd_index", "list"):
        if has_null and vdt not in NUMPY_NULLABLE:
            raise ValueError("numpy container cannot hold the nulls")
        base = numpy_column(vals, vdt)
        owners = [base]
        if kind == "ndarray_strided":
            big = np.empty(2 * len(vals) + 1, dtype=base.dtype)
            big[...] = base[0] if len(base) else 0
            big[1::2] = base
            owners = [big]
            base = big[1::2]
        if kind == "ndarray_readonly":
            base.setflags(write=False)
        if tz is not None:
            ser = pd.Series(base, name=name).dt.tz_localize("UTC").dt.tz_convert(tz)
            if kind == "pd_index":
                return pd.DatetimeIndex(ser, name=name), owners
            if kind in ("pd_series", "pd_series_indexed"):
                if kind == "pd_series_indexed":
                    ser.index = index if index is not None else pd.Index([f"r{i}" for i in range(len(vals))])
                return ser, owners
            raise ValueError("tz-aware data needs a pandas container")
        if kind in ("ndarray", "ndarray_strided", "ndarray_readonly"):
            return base, owners
        if kind == "pd_series":
            return pd.Series(base, name=name, copy=False), owners
        if kind == "pd_series_indexed":
            return pd.Series(base, name=name, copy=False, index=index if index is not None else pd.Index([f"r{i}" for i in range(len(vals))])), owners
        if kind == "pd_index":
            return pd.Index(base, name=name, copy=False), owners
        if kind == "list":
            return [x for x in base], owners
    if kind == "pd_categorical":
        cats = sorted({v for v in vals if v is not None})
        codes = np.array([-1 if v is None else cats.index(v) for v in vals], dtype=np.int8)
        labels = numpy_column(cats, vdt)
        if tz is not None:
            labels = pd.DatetimeIndex(labels).tz_localize("UTC").tz_convert(tz)
        cat = pd.Categorical.from_codes(codes, categories=pd.Index(labels))
        return pd.Series(cat, name=name), [codes]
    arr = arrow_column(vals, vdt, chunks if kind in ("pa_chunked", "pd_series_arrow_chunked") else None)
    if kind in ("pa_array", "pa_chunked"):
        return arr, []
    if kind == "pa_dictionary":
        return arr.dictionary_encode(), []
    if kind in ("pd_series_arrow", "pd_series_arrow_chunked"):
        return pd.Series(pd.arrays.ArrowExtensionArray(arr if isinstance(arr, pa.ChunkedArray) else pa.chunked_array([arr])), name=name), []
    if kind == "pd_index_arrow":
        return pd.Index(pd.arrays.ArrowExtensionArray(arr if isinstance(arr, pa.ChunkedArray) else pa.chunked_array([arr])), name=name), []
    if kind == "pl_series":
        return pl.Series(name or "", arr), []
    raise ValueError(kind)


# --------------------------------------------------------------------------------------------------
def _arrow_fp(a):
    chunks = a.chunks if isinstance(a, pa.ChunkedArray) else [a]
    out = []
    for c in chunks:
        bufs = []
        for b in c.buffers():
            bufs.append(None if b is None else b.to_pybytes())
        out.append((str(c.type), c.offset, len(c), tuple(bufs)))
        if pa.types.is_dictionary(c.type):
            out.append(("dict", _arrow_fp(c.dictionary), _arrow_fp(c.indices)))
    return tuple(out)


def snapshot(obj):
    """byte-level and logical fingerprint of an input object (nested containers allowed)"""
    if obj is None or isinstance(obj, (int, float, str, bool, slice)):
        return ("scalar", repr(obj))
    if isinstance(obj, np.ndarray):
        if obj.dtype == object:
            return ("nd-object", obj.shape, repr(obj.tolist()))
        return ("nd", str(obj.dtype), obj.shape, obj.tobytes(), bool(obj.flags.writeable))
    if isinstance(obj, pd.Series):
        return ("series", snapshot(obj.array), snapshot(obj.index), repr(obj.name), str(obj.dtype))
    if isinstance(obj, pd.MultiIndex):
        return ("multiindex", tuple(snapshot(l) for l in obj.levels), tuple(snapshot(np.asarray(c)) for c in obj.codes), repr(list(obj.names)))
    if isinstance(obj, pd.Index):
        return ("index", snapshot(obj.array) if not isinstance(obj, pd.RangeIndex) else repr(obj), repr(obj.name), str(obj.dtype))
    if isinstance(obj, pd.Categorical):
        return ("categorical", snapshot(np.asarray(obj.codes)), snapshot(obj.categories), bool(obj.ordered))
    if isinstance(obj, pd.DataFrame):
        return ("frame", tuple((repr(c), snapshot(obj[c])) for c in obj.columns), snapshot(obj.index))
    if isinstance(obj, pd.arrays.ArrowExtensionArray):
        return ("arrow-ext", _arrow_fp(obj._pa_array))
    if isinstance(obj, pd.api.extensions.ExtensionArray):
        try:
            raw = np.asarray(obj)
            inner = snapshot(raw) if raw.dtype != object else repr(list(obj))
        except Exception:  # noqa
            inner = repr(list(obj))
        nd = getattr(obj, "_ndarray", None)
        return ("ext", type(obj).__name__, inner, None if nd is None else snapshot(nd))
    if isinstance(obj, (pa.Array, pa.ChunkedArray)):
        return ("arrow", _arrow_fp(obj))
    if isinstance(obj, pl.Series):
        return ("pl-series", obj.name, str(obj.dtype), _arrow_fp(obj.to_arrow()), obj.n_chunks())
    if isinstance(obj, pl.DataFrame):
        return ("pl-frame", tuple(snapshot(obj[c]) for c in obj.columns), tuple(obj.columns))
    if isinstance(obj, (list, tuple)):
        return (type(obj).__name__, tuple(snapshot(x) for x in obj))
    if isinstance(obj, dict):
        return ("dict", tuple((repr(k), snapshot(v)) for k, v in obj.items()))
    return ("other", repr(obj))


def describe_diff(a, b, path="input"):
    """where two snapshots differ (short text)"""
    if a == b:
        return None
    if isinstance(a, dict) and isinstance(b, dict):
        for k in a:
            d = describe_diff(a[k], b.get(k), f"{path}.{k}")
            if d:
                return d
    if isinstance(a, tuple) and isinstance(b, tuple) and len(a) == len(b) and a and a[0] == b[0]:
        for i, (x, y) in enumerate(zip(a, b)):
            d = describe_diff(x, y, f"{path}.{a[0]}[{i}]") if isinstance(x, tuple) else (None if x == y else f"{path}.{a[0]}[{i}]: {str(x)[:60]!r} -> {str(y)[:60]!r}")
            if d:
                return d
    return f"{path}: {str(a)[:80]!r} -> {str(b)[:80]!r}"


def _scribble_array(a: np.ndarray) -> bool:
    if not isinstance(a, np.ndarray) or a.size == 0 or not a.flags.writeable:
        return False
    k = a.dtype.kind
    if k == "f":
        a[...] = 12345.678
    elif k in "iu":
        a[...] = 77
    elif k == "b":
        np.logical_not(a, out=a)
    elif k in "mM":
        a.view("int64")[...] += 86_400_000_000_123
    else:
        return False
    return True


def scribble(res) -> int:
    """edit a returned result in place the way a caller can: ndarray stores, `res.iloc[:] = v`, stores through `.values` / `to_numpy()`
    when they are handed out writable; returns the number of successful edits"""
    n = 0
    if isinstance(res, np.ndarray):
        return int(_scribble_array(res))
    if isinstance(res, pd.Series):
        if not len(res):
            return 0
        try:
            k = res.dtype.kind if isinstance(res.dtype, np.dtype) else None
            if k == "f":
                res.iloc[:] = 12345.678
            elif k in ("i", "u"):
                res.iloc[:] = 77
            elif k == "b":
                res.iloc[:] = ~res.to_numpy()
            elif k == "M":
                res.iloc[:] = np.datetime64("2001-02-03T04:05:06")
            elif k == "m":
                res.iloc[:] = np.timedelta64(123456, "s")
            elif isinstance(res.dtype, pd.DatetimeTZDtype):
                res.iloc[:] = pd.Timestamp("2001-02-03T04:05:06", tz=res.dtype.tz)
            else:
                k = "skip"
            if k != "skip":
                n += 1
        except Exception:  # noqa
            pass
        for getter in (lambda: res.values, lambda: res.to_numpy(copy=False), lambda: np.asarray(res)):
            try:
                raw = getter()
                if isinstance(raw, np.ndarray) and raw.dtype != object:
                    n += int(_scribble_array(raw))
            except Exception:  # noqa
                pass
        return n
    if isinstance(res, pd.DataFrame):
        for c in range(res.shape[1]):
            col = res.iloc[:, c]
            try:
                if len(res) and isinstance(col.dtype, np.dtype) and col.dtype.kind in "fiu":
                    res.iloc[:, c] = 31
                    n += 1
            except Exception:  # noqa
                pass
        try:
            raw = res.values
            if isinstance(raw, np.ndarray) and raw.dtype != object:
                n += int(_scribble_array(raw))
        except Exception:  # noqa
            pass
        return n
    if isinstance(res, pl.Series):
        try:
            raw = res.to_numpy(allow_copy=False)
            n += int(_scribble_array(raw))
        except Exception:  # noqa
            pass
        return n
    if isinstance(res, pl.DataFrame):
        for c in res.columns:
            n += scribble(res[c])
        return n
    if isinstance(res, (list, tuple)):
        for x in res:
            n += scribble(x)
        return n
    if isinstance(res, dict):
        for x in res.values():
            n += scribble(x)
        return n
    return n
