"""Keep numba's on-disk cache out of /repo and make it robust for the harness.

* `NUMBA_CACHE_DIR` points to a private directory under /verif/.cache so that the checks never
  touch /repo's __pycache__ (the repository's own test suite keeps its cache to itself).
* Functions that take another jitted function as an argument (`_group_by_reduce`,
  `reduce_array_pair`, `_cumulative_reduce`, `nanops._nb_reduce`) can never get a cache *hit* across processes
  (numba compares the dispatcher argument by identity) yet append a new entry per process,
  and re-saving an index with more than NUMBA_FUNCTION_CACHE_SIZE dead dispatcher references
  raises `ReferenceError: underlying object has vanished`.  For those the on-disk cache is
  switched off in the harness process (compilation in memory is unaffected).
"""
from __future__ import annotations

import os
from pathlib import Path

VERIF = Path(__file__).resolve().parent.parent.parent


def setup_env():
    d = VERIF / ".cache" / "numba"
    d.mkdir(parents=True, exist_ok=True)
    os.environ.setdefault("NUMBA_CACHE_DIR", str(d))
    os.environ.setdefault("NUMBA_FUNCTION_CACHE_SIZE", "100000")
    os.environ.setdefault("NUMBA_NUM_THREADS", "2")
    os.environ.setdefault("NUMBA_DISABLE_PERFORMANCE_WARNINGS", "1")


_done = False


def after_import():
    """call once after groupby_lib has been imported"""
    global _done
    if _done:
        return
    _done = True
    from numba.core.caching import NullCache
    from groupby_lib.groupby import numba as nbk
    from groupby_lib import nanops
    for f in (nbk._group_by_reduce, nbk.reduce_array_pair, nbk._cumulative_reduce, nanops._nb_reduce):
        try:
            f._cache = NullCache()
        except Exception:
            pass


def import_lib():
    setup_env()
    import groupby_lib  # noqa
    after_import()
    return groupby_lib
