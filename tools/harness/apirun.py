"""Generic skeleton of a check: prepare Lean, shard the generated cases over worker processes,
evaluate each against the driver and the real code, merge, shrink, decide.

A property module provides:
  PID, MODULES, RULE, ASSUMPTIONS
  gen_cases(tier, rng)            -> iterator of JSON-able case dicts (deterministic for a seed)
  evaluate(case, drv)             -> dict(verdict, detail, tags, nontrivial, key, size, bucket)
  shrink_candidates(case)         -> iterator of smaller cases            (optional)
  KNOWN_MATCHERS                  -> {finding id: predicate(violation detail)}   (optional)
  setup_worker()                  -> called once per process before evaluating (optional)
  shard_of(case) -> str           -> cases with the same string go to the same worker (optional)
"""
from __future__ import annotations

import importlib
import json
import random
import traceback
import zlib

from . import common, pool


def _worker(args):
    modname, shard, nshards, tier, seed = args
    mod = importlib.import_module(modname)
    prog = common.progress_path(f"{mod.PID}_{shard}")
    prog.write_text("null")
    rng = random.Random(seed)
    order = pool.Order("random", seed + shard)
    pool.install_inline(order)
    if hasattr(mod, "setup_worker"):
        mod.setup_worker()
    drv = common.Driver()
    out = dict(evals=0, distinct=set(), tags={}, sizes={}, samples=[], first_bad={}, orders=0, errors=[])
    shard_of = getattr(mod, "shard_of", None)

    def bump(d, k):
        d[k] = d.get(k, 0) + 1

    for idx, case in enumerate(mod.gen_cases(tier, rng)):
        if shard_of is not None:
            if zlib.crc32(shard_of(case).encode()) % nshards != shard:
                continue
        elif idx % nshards != shard:
            continue
        prog.write_text(json.dumps(case, default=str))
        try:
            r = mod.evaluate(case, drv)
        except Exception as e:  # harness error: never silently dropped
            if len(out["errors"]) < 5:
                out["errors"].append(dict(case=case, error=traceback.format_exc()[-1500:]))
            continue
        out["evals"] += 1
        if r.get("nontrivial"):
            out["distinct"].add(common.digest(r["key"]))
            if len(out["samples"]) < 2 and out["evals"] % 97 == 1:
                out["samples"].append(dict(case=case, observed=r.get("observed")))
        bump(out["sizes"], r.get("size", 0))
        for t in r.get("tags", ()):
            bump(out["tags"], t)
        if r["verdict"] != "ok":
            key = (r["verdict"],) + tuple(r.get("bucket", ()))
            if key not in out["first_bad"]:
                out["first_bad"][key] = r["detail"]
            bump(out["tags"], "bad:" + r["verdict"])
    drv.close()
    prog.write_text("null")
    out["orders"] = order.nontrivial
    return out


def _shrink_worker(args):
    modname, items, shrink_budget = args
    mod = importlib.import_module(modname)
    prog = common.progress_path(f"{mod.PID}_shrink")
    prog.write_text("null")
    pool.install_inline()
    if hasattr(mod, "setup_worker"):
        mod.setup_worker()
    drv = common.Driver()
    cands = getattr(mod, "shrink_candidates", None)
    out = []
    for (verdict, *_), detail in items:
        case = detail["case"]

        def run_one(c):
            prog.write_text(json.dumps(c, default=str))
            return mod.evaluate(c, drv)

        def signature(d):
            """kind of failure: a shrink step must not turn one failure into another (e.g. a wrong number into an exception)"""
            d = d or {}
            act = str(d.get("actual"))
            return (str(d.get("note")), act.split(":")[0] if act.startswith(("error", "{'masked': \"('error'")) else "value")

        sig0 = signature(detail)
        if cands is not None:
            def still(c, verdict=verdict):
                r = run_one(c)
                return r["verdict"] == verdict and signature(r.get("detail")) == sig0
            try:
                case = common.greedy_shrink(case, cands, still, budget=shrink_budget)
            except Exception:
                pass
        try:
            r2 = run_one(case)
            d2 = r2["detail"] if r2["verdict"] == verdict else detail
        except Exception:
            d2 = detail
        out.append((verdict, d2))
    drv.close()
    prog.write_text("null")
    return out


def _confirm_worker(args):
    """re-evaluate reported cases in a fresh process: a failure that does not come back is a transient of the run
    (observed: a one-off TypeError while numba caches were being written), not a property violation"""
    modname, details = args
    mod = importlib.import_module(modname)
    prog = common.progress_path(f"{mod.PID}_confirm")
    prog.write_text("null")
    pool.install_inline()
    if hasattr(mod, "setup_worker"):
        mod.setup_worker()
    drv = common.Driver()
    out = []
    for d in details:
        try:
            case = d["case"]
            prog.write_text(json.dumps(case, default=str))
            r = mod.evaluate(case, drv)
            out.append(r["verdict"] != "ok")
        except Exception:
            out.append(True)      # cannot tell: keep the report
    drv.close()
    prog.write_text("null")
    return out


def confirm_failures(mod, reported: list, attempts: int = 3) -> tuple[list, int]:
    """keep the (verdict, detail) pairs that fail again in at least one of `attempts` fresh processes"""
    pending = list(range(len(reported)))
    confirmed = set()
    for _ in range(attempts):
        if not pending:
            break
        res = common.run_sharded(_confirm_worker, [(mod.__name__, [reported[i][1] for i in pending])],
                                 progress_tags=[f"{mod.PID}_confirm"])[0]
        if isinstance(res, dict) and res.get("crashed"):
            confirmed |= set(pending)     # a crash while re-evaluating is itself a reproduction
            pending = []
            break
        still = []
        for i, bad in zip(pending, res):
            if bad:
                confirmed.add(i)
            else:
                still.append(i)
        pending = still
    return [reported[i] for i in sorted(confirmed)], len(pending)


def run_property(mod, tier: str, seed: int, shrink_budget=80, max_report=24) -> int:
    run = common.Run(mod.PID, tier, seed, rule=mod.RULE)
    run.assumptions = list(getattr(mod, "ASSUMPTIONS", []))
    run.known_matchers = dict(getattr(mod, "KNOWN_MATCHERS", {}))
    run.lean = common.prepare_lean(mod.MODULES, recheck=(tier == "thorough"))
    run.extra["leanchecker"] = run.lean.leanchecker
    if not run.lean.driver_ok:
        common.log("driver failed to build:\n" + run.lean.build_log[-3000:])
        run.lean.obligations.append({"name": "driver-build", "file": "lean/Driver.lean", "status": "failed", "axioms": None})
        return run.finish() or 2
    if run.lean.failed and hasattr(mod, "static_findings"):
        try:
            run.extra["static_findings"] = mod.static_findings()
            for f in run.extra["static_findings"][:10]:
                common.log(f"static finding: {f['entry']} can write {f['mode']} through {f['root']!r}: " + " ; ".join(f["chain"]))
        except Exception as e:  # noqa
            run.extra["static_findings"] = f"error: {e!r}"
    nshards = common.n_workers(tier)
    if getattr(mod, "MAX_WORKERS", None):
        nshards = min(nshards, mod.MAX_WORKERS)
    results = common.run_sharded(_worker, [(mod.__name__, i, nshards, tier, seed) for i in range(nshards)],
                                 progress_tags=[f"{mod.PID}_{i}" for i in range(nshards)])
    # a worker that died (segfault in compiled code) is re-run in a fresh process: a crash counts as a failing input only if
    # it happens again (the same policy as for every other reported case: what cannot be reproduced cannot be replayed)
    for i, r in enumerate(results):
        tries = 0
        while r.get("crashed") and tries < 2:
            tries += 1
            common.log(f"worker {i} died (exit code {r.get('exitcode')}) at {json.dumps(r.get('last_case'), default=str)[:300]}: re-running the shard (attempt {tries})")
            r2 = common.run_sharded(_worker, [(mod.__name__, i, nshards, tier, seed)], progress_tags=[f"{mod.PID}_{i}_retry{tries}"])[0]
            if not r2.get("crashed"):
                run.extra["transient_worker_crashes"] = run.extra.get("transient_worker_crashes", 0) + 1
                common.log(f"TRANSIENT: worker {i} completed its shard in a fresh process; the crash is not reported")
            r = r2
        results[i] = r
    first_bad = {}
    harness_errors = []
    for r in results:
        if r.get("crashed"):
            if r.get("last_case") is not None:
                # the interpreter died while the real code was evaluating this case: that is a failing input
                run.violation(dict(case=r["last_case"], expected="a result or a Python exception",
                                   actual=f"process crashed (exit code {r['exitcode']}) while evaluating this case"))
            else:
                harness_errors.append(dict(case=None, error=f"worker died: exit code {r['exitcode']}\n{r.get('traceback')}"))
            continue
        run.evals += r["evals"]
        run.distinct |= r["distinct"]
        for k, v in r["tags"].items():
            run.tags[k] += v
        for k, v in r["sizes"].items():
            run.sizes[k] += v
        run.samples.extend(r["samples"][:1])
        run.extra["completion_orders_permuted"] = run.extra.get("completion_orders_permuted", 0) + r["orders"]
        harness_errors.extend(r["errors"])
        for k, v in r["first_bad"].items():
            first_bad.setdefault(k, v)
    if harness_errors:
        common.log("HARNESS-ERROR (check infrastructure failed on a case):\n" + json.dumps(harness_errors[0], indent=1, default=str)[:3000])
        run.extra["harness_errors"] = len(harness_errors)
    if first_bad:
        # shrinking re-runs the real code: do it in a child process too, so that a crash of the
        # interpreter (segfault in compiled code) cannot take the check down
        items = list(first_bad.items())[:max_report]
        shr = common.run_sharded(_shrink_worker, [(mod.__name__, items, shrink_budget)], progress_tags=[f"{mod.PID}_shrink"])[0]
        if isinstance(shr, dict) and shr.get("crashed"):
            run.extra["shrink_stage_crashed"] = True
            if shr.get("last_case") is not None:
                run.violation(dict(case=shr["last_case"], expected="a result or a Python exception",
                                   actual=f"process crashed (exit code {shr['exitcode']}) while evaluating this case"))
            shr = [(k[0], v) for k, v in items]
        else:
            shr, dropped = confirm_failures(mod, [x for x in shr if isinstance(x[1], dict) and "case" in x[1]])
            if dropped:
                run.extra["transient_not_reproduced"] = dropped
                common.log(f"TRANSIENT: {dropped} reported case(s) passed in three fresh processes and are not reported")
        for verdict, detail in shr:
            if verdict == "violation":
                run.violation(detail)
            else:
                run.disagreement(detail)
    run.extra["worker_processes"] = nshards
    rc = run.finish()
    if harness_errors and rc == 0:
        return 2
    return rc


def replay_property(mod, path) -> int:
    data = json.loads(open(path).read())
    v = data.get("violation") or (data.get("correspondence_disagreements") or [None])[0]
    if v is None:
        print("replay file holds no concrete case (failed obligations only):")
        print(json.dumps(data.get("failed_obligations"), indent=1))
        return 1
    case = v["case"]
    if hasattr(mod, "fix_case"):
        case = mod.fix_case(case)
    common.prepare_lean(mod.MODULES)
    pool.install_inline()
    if hasattr(mod, "setup_worker"):
        mod.setup_worker()
    drv = common.Driver()
    r = mod.evaluate(case, drv)
    drv.close()
    print(json.dumps(dict(case=case, verdict=r["verdict"], detail=r["detail"]), indent=1, default=str))
    if r["verdict"] == "violation":
        print(f"VIOLATION property={mod.PID} replay={path}")
        return 1
    return 0
