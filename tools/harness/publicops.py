"""A uniform table of the public GroupBy operations, used by the relational properties
(C03 strategy independence, C05 mask == filter, C06 null keys inert, C07 transform, C13 history).

Every op takes (gb, values, mask) and returns a canonical observation:
  ("labels", [(label tuple, value), ...])    for reductions        (ordered as returned)
  ("rows",   [value or "_" ...])             for row-aligned ops   (one per input row)
  ("select", [(position-identifying value, ...)])  for head/tail/nth
Values are canonicalised: NaN/NaT -> "_", integer-valued floats -> int, other floats rounded to 1e-9 relative.
"""
from __future__ import annotations

import math

import numpy as np
import pandas as pd

MIN_INT = -(2 ** 63)


def cv(x):
    if x is None or x is pd.NaT or x is pd.NA:
        return "_"
    if isinstance(x, (pd.Timestamp, pd.Timedelta)):
        return int(x.value)
    if isinstance(x, (np.datetime64, np.timedelta64)):
        v = int(x.astype("int64"))
        return "_" if v == MIN_INT else v
    if isinstance(x, (bool, np.bool_)):
        return int(x)
    if isinstance(x, (float, np.floating)):
        if math.isnan(x):
            return "_"
        if math.isinf(x):
            return "inf" if x > 0 else "-inf"
        if float(x).is_integer() and abs(x) < 2 ** 62:
            return int(x)
        return float(f"{float(x):.10g}")
    if isinstance(x, (int, np.integer)):
        return int(x)
    return str(x)


def canon_values(arr):
    arr = np.asarray(arr)
    if arr.dtype.kind in "mM":
        return ["_" if v == MIN_INT else int(v) for v in arr.view("int64")]
    return [cv(v) for v in arr]


def canon_label(lab):
    if not isinstance(lab, tuple):
        lab = (lab,)
    return tuple(cv(x) if not isinstance(x, str) else x for x in lab)


def obs_labels(res):
    if isinstance(res, pd.DataFrame):
        return ("labels", [(canon_label(l), tuple(canon_values(res.iloc[i].to_numpy()))) for i, l in enumerate(res.index)])
    return ("labels", list(zip([canon_label(l) for l in res.index], canon_values(res.to_numpy()))))


def obs_rows(res):
    if hasattr(res, "to_numpy"):
        res = res.to_numpy()
    return ("rows", canon_values(res))


REDUCTIONS = ["size", "count", "sum", "mean", "min", "max", "first", "last", "var", "std", "median"]
ROW_OPS = ["cumsum", "cummin", "cummax", "cumcount", "rolling_sum", "rolling_mean", "rolling_min", "rolling_max", "shift", "diff", "ema", "ema_timed"]
SELECT_OPS = ["head", "tail", "nth"]
COMPOSITE_OPS = ["value_counts", "agg1", "aggL", "ratio", "density", "quantile", "apply"]


def run_op(gb, op, values, mask=None, transform=False, times=None, **kw):
    """returns the canonical observation; raises whatever the library raises"""
    if op in REDUCTIONS:
        if op == "size":
            res = gb.size(mask=mask, transform=transform)
        elif op == "median":
            res = gb.median(values, mask=mask, transform=transform)
        else:
            res = getattr(gb, op)(values, mask=mask, transform=transform)
        return obs_rows(res) if transform else obs_labels(res)
    if op in ("cumsum", "cummin", "cummax"):
        return obs_rows(getattr(gb, op)(values, mask=mask))
    if op == "cumcount":
        return obs_rows(gb.cumcount(mask=mask))
    if op.startswith("rolling_"):
        return obs_rows(getattr(gb, op)(values, window=kw.get("window", 2), min_periods=kw.get("min_periods", 1), mask=mask))
    if op in ("shift", "diff"):
        return obs_rows(getattr(gb, op)(values, window=kw.get("window", 1), mask=mask))
    if op == "ema":
        return obs_rows(gb.ema(values, alpha=0.5, mask=mask))
    if op == "ema_timed":
        return obs_rows(gb.ema(values, halflife="2s", times=times, mask=mask))
    if op in COMPOSITE_OPS:
        # composite / helper operations that accept a mask; `values` may hold nulls, the second operand of ratio is derived from it
        from groupby_lib.groupby.core import value_counts
        if op == "value_counts":
            return obs_labels(value_counts(kw["raw_keys"], mask=mask))
        if op == "agg1":
            return obs_labels(gb.agg(values, "sum", mask=mask))
        if op == "aggL":
            return obs_labels(gb.agg(values, ["sum", "max", "count"], mask=mask))
        if op == "ratio":
            other = np.where(np.isnan(values), np.nan, np.abs(values) + 1.0)
            return obs_labels(gb.ratio(np.abs(values) + 1.0, other * 2.0, mask=mask))
        if op == "density":
            return obs_labels(gb.density(np.abs(values) + 1.0, mask=mask))
        if op == "quantile":
            return obs_labels(gb.quantile(values, q=[0.5], mask=mask))
        if op == "apply":
            return obs_labels(gb.apply(values, np.nansum, mask=mask))
    if op in SELECT_OPS:
        n = kw.get("n", 1)
        res = getattr(gb, op)(values, n, keep_input_index=True)
        return ("select", sorted(canon_values(res.to_numpy())))
    if op == "groups":
        return ("groups", sorted((canon_label(k), [int(i) for i in v]) for k, v in gb.groups.items()))
    raise ValueError(op)


def approx_equal(a, b, tol=1e-9):
    if isinstance(a, (list, tuple)) and isinstance(b, (list, tuple)):
        return len(a) == len(b) and all(approx_equal(x, y, tol) for x, y in zip(a, b))
    if isinstance(a, float) or isinstance(b, float):
        if isinstance(a, str) or isinstance(b, str):
            return a == b
        return abs(a - b) <= tol * max(1.0, abs(a), abs(b))
    return a == b
