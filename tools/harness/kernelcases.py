"""Cases for the array-level group kernels (shared by C04 and others): encoding of values per
dtype class, calling the real `groupby_lib.groupby.numba.group_*`, protocol lines, comparison."""
from __future__ import annotations

import itertools
import math
from fractions import Fraction

import numpy as np
import pyarrow as pa

MIN_INT = -(2 ** 63)

# dtype class -> (numpy dtype, lean kind token, null representation or None)
DTYPES = {
    "f64": (np.dtype("float64"), "f", float("nan")),
    "f32": (np.dtype("float32"), "f", float("nan")),
    "i64": (np.dtype("int64"), "i64", MIN_INT),
    "i32": (np.dtype("int32"), "i32", None),
    "i8": (np.dtype("int8"), "i8", None),
    "u8": (np.dtype("uint8"), "u8", None),
    "u64": (np.dtype("uint64"), "u64", None),
    "bool": (np.dtype("bool"), "b", None),
    "M8ns": (np.dtype("datetime64[ns]"), "i64", MIN_INT),
    "m8s": (np.dtype("timedelta64[s]"), "i64", MIN_INT),
}

KERNELS = ["size", "count", "sum", "sum_squares", "mean", "min", "max", "first", "last"]


def has_null(dt: str) -> bool:
    return DTYPES[dt][2] is not None


def encode_values(vals, dt: str) -> np.ndarray:
    npdt, _, null = DTYPES[dt]
    if npdt.kind in "mM":
        raw = np.array([MIN_INT if v is None else v for v in vals], dtype=np.int64)
        return raw.view(npdt)
    if npdt.kind == "f":
        return np.array([np.nan if v is None else v for v in vals], dtype=npdt)
    if null is not None:
        return np.array([null if v is None else v for v in vals], dtype=npdt)
    assert all(v is not None for v in vals), "dtype has no null"
    return np.array(vals, dtype=npdt)


def canon_scalar(x):
    """numpy scalar -> python int, Fraction-comparable float, or '_' for NaN"""
    if isinstance(x, (np.datetime64, np.timedelta64)):
        return int(x.view("int64")) if hasattr(x, "view") else int(x.astype("int64"))
    if isinstance(x, (np.bool_, bool)):
        return int(x)
    if isinstance(x, (np.floating, float)):
        if math.isnan(x):
            return "_"
        if float(x).is_integer():
            return int(x)
        return float(x)
    return int(x)


def canon_array(a: np.ndarray):
    if a.dtype.kind in "mM":
        return [int(v) for v in a.view("int64")]
    return [canon_scalar(v) for v in a]


def mask_token(mask) -> str:
    if mask is None:
        return "-"
    kind = mask[0]
    if kind == "b":
        return "b:" + ",".join("1" if x else "0" for x in mask[1])
    if kind == "p":
        return "p:" + ",".join(str(x) for x in mask[1])
    if kind == "s":
        a, b = mask[1], mask[2]
        return f"s:{'' if a is None else a}:{'' if b is None else b}"
    raise ValueError(mask)


def mask_object(mask):
    if mask is None:
        return None
    kind = mask[0]
    if kind == "b":
        return np.array(mask[1], dtype=bool)
    if kind == "p":
        return np.array(mask[1], dtype=np.int64)
    if kind == "s":
        return slice(mask[1], mask[2])
    raise ValueError(mask)


def model_kernel_and_kind(case) -> tuple[str, str]:
    """which model kernel / kind the implementation's dispatch selects for this case"""
    fn, dt = case["fn"], case["dt"]
    npdt, kind, _ = DTYPES[dt]
    if fn == "size":
        return "size", "i64"  # the codes themselves are passed as values
    if fn == "sum":
        if npdt.kind in "ui" and case.get("vchunks") is None:
            return "sum_noskip", kind  # group_sum picks the non-skipping reducer for int ndarrays
        return "sum", kind
    if fn == "mean":
        return "sum", kind
    if fn == "sum_squares":
        return "sum_squares", "f"  # values are cast to float first
    return fn, kind


def proto_line(case) -> str:
    kn, kind = model_kernel_and_kind(case)
    vals = case["vals"]
    if case["fn"] == "size":
        vals = case["codes"]
    null_tok = "_" if kind == "f" else str(MIN_INT)
    if case["fn"] == "sum_squares":
        null_tok = "_" if DTYPES[case["dt"]][0].kind == "f" else str(MIN_INT)  # int64-min cast to float is a number
    vs = ",".join(null_tok if v is None else str(v) for v in vals)
    vch = "-" if case.get("vchunks") is None else ",".join(map(str, case["vchunks"]))
    return (f"reduce fn={kn} kind={kind} ng={case['ng']} codes={','.join(map(str, case['codes']))} vals={vs} "
            f"mask={mask_token(case.get('mask'))} threads={case['threads']} vchunks={vch}")


def call_impl(case):
    """returns ('ok', values, counts) or ('error', ExceptionName, msg)"""
    from .numba_env import import_lib
    import_lib()
    from groupby_lib.groupby import numba as nbk

    fn, dt = case["fn"], case["dt"]
    codes = np.array(case["codes"], dtype=np.int64)
    mask = mask_object(case.get("mask"))
    try:
        if fn == "size":
            cnt = nbk.group_size(group_key=codes, ngroups=case["ng"], mask=mask, n_threads=case["threads"])
            return "ok", canon_array(cnt), canon_array(cnt)
        values = encode_values(case["vals"], dt)
        if case.get("vchunks") is not None:
            offs = np.cumsum([0] + list(case["vchunks"]))
            values = pa.chunked_array([pa.array(values[a:b]) for a, b in zip(offs[:-1], offs[1:])])
        res, cnt = getattr(nbk, "group_" + fn)(
            group_key=codes, values=values, ngroups=case["ng"], mask=mask, n_threads=case["threads"], return_count=True
        )
        return "ok", canon_array(np.asarray(res)), canon_array(np.asarray(cnt))
    except Exception as e:  # noqa
        return "error", type(e).__name__, str(e)[:200]


def parse_groups(tok: str):
    """'v/c,v/c' -> list of (value, count) with value '_' or int"""
    if tok == "error":
        return None
    out = []
    if tok == "":
        return out
    for cell in tok.split(","):
        v, c = cell.split("/")
        out.append(("_" if v == "_" else int(v), int(c)))
    return out


def expected_observation(case, groups):
    """turn the model/spec per-group (value,count) into what the implementation's arrays must show"""
    if groups is None:
        return None
    fn, dt = case["fn"], case["dt"]
    npdt = DTYPES[dt][0]
    vals, cnts = [], []
    for v, c in groups:
        cnts.append(c)
        if fn in ("size", "count"):
            vals.append(c)
        elif fn == "mean":
            if c == 0:
                vals.append(MIN_INT if npdt.kind in "mM" else "_")
            elif npdt.kind in "mM":
                vals.append(("approx", Fraction(v, c)))
            else:
                q = v / c  # correctly rounded quotient of two exactly representable integers
                vals.append(int(q) if float(q).is_integer() else q)
        else:
            vals.append(v)
    return vals, cnts


def observation_matches(exp, got_vals, got_cnts) -> bool:
    if exp is None:
        return False
    ev, ec = exp
    if list(ec) != list(got_cnts) or len(ev) != len(got_vals):
        return False
    for e, g in zip(ev, got_vals):
        if isinstance(e, tuple) and e[0] == "approx":
            if g == "_" or abs(Fraction(g) - e[1]) >= 1:
                return False
        elif e != g:
            return False
    return True


# ---------------------------------------------------------------------------------------
# enumerators
# ---------------------------------------------------------------------------------------

def rgs_codes(length: int, max_groups: int = 3):
    """all code strings over {null(-1), 0..max_groups-1} whose non-null codes appear in first-appearance
    (restricted growth) order — every pattern of 'group absent from a block' up to relabelling"""
    def rec(prefix, next_new):
        if len(prefix) == length:
            yield list(prefix)
            return
        for c in [-1] + list(range(min(next_new + 1, max_groups))):
            prefix.append(c)
            yield from rec(prefix, max(next_new, c + 1) if c >= 0 else next_new)
            prefix.pop()
    yield from rec([], 0)


def value_strings(length: int, alphabet):
    return itertools.product(alphabet, repeat=length)
