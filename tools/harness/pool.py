"""Run-time control of `groupby_lib.util.parallel_map` without touching the repository.

`parallel_map` looks up `concurrent.futures.ThreadPoolExecutor` and
`concurrent.futures.as_completed` at call time, so replacing those two attributes lets the
harness (a) run the tasks inline (no 3-6 ms pool start-up per call) and (b) deliver the
futures to the gathering loop in *any chosen completion order* — still through the real
`future_to_index` bookkeeping of `parallel_map`.
"""
from __future__ import annotations

import concurrent.futures as cf
import contextlib
import random

_REAL_EXECUTOR = cf.ThreadPoolExecutor
_REAL_AS_COMPLETED = cf.as_completed


class InlineExecutor:
    def __init__(self, max_workers=None, **kw):
        pass

    def __enter__(self):
        return self

    def __exit__(self, *a):
        return False

    def submit(self, fn, *args, **kwargs):
        f = cf.Future()
        try:
            f.set_result(fn(*args, **kwargs))
        except BaseException as e:  # noqa
            f.set_exception(e)
        return f

    def shutdown(self, wait=True, **kw):
        pass


class Order:
    """completion order policy: 'fifo', 'lifo' or a seeded random permutation"""

    def __init__(self, mode="fifo", seed=0):
        self.mode = mode
        self.rng = random.Random(seed)
        self.used = 0
        self.nontrivial = 0

    def arrange(self, fs):
        fs = list(fs)
        self.used += 1
        if len(fs) > 1:
            self.nontrivial += 1
        if self.mode == "lifo":
            fs.reverse()
        elif self.mode == "random":
            self.rng.shuffle(fs)
        return fs


_order = Order()


def _as_completed(fs, timeout=None):
    fs = list(fs)
    if all(f.done() for f in fs):
        return iter(_order.arrange(fs))
    # real pool: wait for all, then deliver in the chosen order
    cf.wait(fs, timeout=timeout)
    return iter(_order.arrange(fs))


def install_inline(order: Order | None = None):
    global _order
    if order is not None:
        _order = order
    cf.ThreadPoolExecutor = InlineExecutor
    cf.as_completed = _as_completed


def install_real_pool(order: Order | None = None):
    """real threads, but completion order delivered as chosen (all tasks are awaited first)"""
    global _order
    if order is not None:
        _order = order
    cf.ThreadPoolExecutor = _REAL_EXECUTOR
    cf.as_completed = _as_completed


def uninstall():
    cf.ThreadPoolExecutor = _REAL_EXECUTOR
    cf.as_completed = _REAL_AS_COMPLETED


@contextlib.contextmanager
def real_pool():
    prev = (cf.ThreadPoolExecutor, cf.as_completed)
    uninstall()
    try:
        yield
    finally:
        cf.ThreadPoolExecutor, cf.as_completed = prev
