"""C02 — Factorization is a faithful partition of the rows.

The four relations of the property (label at code = key, equal codes <=> equal keys, null code
<=> null key, labels distinct) and the derived views (groups / key_count / size) are evaluated
directly on the implementation's output for every route; the first-appearance routes are also
compared with the Lean model (`fact`, `mono` driver ops)."""
from __future__ import annotations

import sys

from .. import apirun, common
from ..gbcases import KEY_CLASSES, decode_label, encode_key_column, null_allowed

PID = "C02"
MODULES = ["GroupbyVerif.Props.C02", "GroupbyVerif.LoopBridge.CountingSort", "GroupbyVerif.LoopBridge.WeightCode", "GroupbyVerif.LoopBridge.MonoFact", "GroupbyVerif.LoopBridge.CombineFact"]
RULE = ("seeded random key columns (1-3 keys, classes int/float+NaN/str/bool/datetime+NaT/categorical with unused categories, nulls in any "
        "key position, sorted prefixes of every length class, NaN inside a sorted prefix) x routes {factorize_1d, factorize_2d, "
        "monotonic_factorization, GroupBy plain, GroupBy with the chunking threshold scaled to 8 rows (chunked / monotonic / partially "
        "monotonic), GroupBy on pre-chunked arrow keys} x containers {ndarray, pd.Series, pa.array, pa.chunked_array, pl.Series, arrow-backed pd.Series}; "
        "plus two integer keys with 66 000 / 70 000 labels each (more than 2^32 combinations: the typed-dict tracker) with mixed-radix keys exactly 2^32 apart planted; "
        "plus keys that are a pd.RangeIndex (any start, step of either sign, also as the first of several keys) and generic pd.Index keys; "
        "non-trivial = at least 2 rows with non-null key and 2 distinct labels or a null key; distinct = distinct (keys, classes, route, container)")
ASSUMPTIONS = [
    "pd.factorize / factorize_array / Index.get_indexer / drop_duplicates are trusted library behaviour (first-appearance codes, -1 for null)",
    "key values are small atoms mapped order-preservingly by the harness",
]
ROUTES = ["f1", "f2", "mono", "gb_plain", "gb_small", "gb_arrowchunks"]
MAX_WORKERS = 8


def setup_worker():
    from ..numba_env import import_lib
    import_lib()


def fix_case(c):
    return c


def gen_keys(rng, n, cls, hi, p_null, shape):
    """shape: random / sorted / sorted-prefix (prefix fraction) / sorted-with-null-inside"""
    def draw():
        if null_allowed(cls) and rng.random() < p_null:
            return None
        return rng.randrange(hi)
    col = [draw() for _ in range(n)]
    if shape == "sorted":
        col = sorted([c for c in col if c is not None])
        col += [rng.randrange(hi) for _ in range(n - len(col))]
        col.sort()
    elif shape in ("prefix", "prefix_null"):
        k = rng.randint(0, n)
        pre = sorted(c for c in col[:k] if c is not None)
        pre += [hi - 1] * (k - len(pre)) if pre else [0] * k
        pre.sort()
        col = pre + col[k:]
        if shape == "prefix_null" and null_allowed(cls) and k >= 2:
            col[rng.randrange(0, k)] = None
    return col


def gen_cases(tier, rng):
    for c in common.load_corpus(PID):
        yield c
    # two keys whose label counts multiply beyond 2**32 (typed-dict tracker; keys that differ by exactly 2**32 are planted)
    for j in range(2 if tier == "quick" else 6):
        yield dict(route="bigcard", gseed=rng.randrange(1 << 30), n1=rng.choice([66000, 70000]), planted=40, keys=[], key_classes=["int", "int"],
                   container="ndarray", sort=False)
    n_cases = 4000 if tier == "quick" else 60000
    for _ in range(n_cases):
        route = rng.choice(ROUTES)
        if route in ("f2",):
            nkeys = rng.choice([2, 2, 3])
        elif route in ("gb_plain",):
            nkeys = rng.choice([1, 1, 2, 3])
        else:
            nkeys = 1
        n = rng.randint(0, 14) if route not in ("gb_small", "mono", "gb_arrowchunks") else rng.randint(1, 40)
        classes, cols = [], []
        for _ in range(nkeys):
            if route == "mono":
                cls = rng.choice(["int", "float", "datetime"])
            elif route in ("gb_small", "gb_arrowchunks"):
                cls = rng.choice(["int", "float", "str", "datetime", "bool"])
            else:
                cls = rng.choice(KEY_CLASSES)
            hi = 2 if cls == "bool" else rng.randint(1, 5)
            shape = rng.choice(["random", "random", "sorted", "prefix", "prefix_null"]) if route in ("mono", "gb_small", "gb_arrowchunks") else "random"
            cols.append(gen_keys(rng, n, cls, hi, rng.choice([0.0, 0.15, 0.4]), shape))
            classes.append(cls)
        if route in ("f1", "gb_plain") and nkeys == 1:
            container = rng.choice(["ndarray", "series", "pa_array", "pl_series", "pd_arrow", "pa_chunked"])
        elif route == "gb_arrowchunks":
            container = "pa_chunked"
        else:
            container = rng.choice(["ndarray", "series"])
            if route == "gb_arrowchunks":
                route = "gb_plain"
        case = dict(route=route, keys=cols, key_classes=classes, container=container, sort=rng.random() < 0.5)
        if route in ("f1", "gb_plain", "gb_small") and rng.random() < 0.12:
            # the range-index route: the first key IS an arithmetic progression (any start, step of either sign)
            start, step = rng.randint(-3, 3), rng.choice([1, 1, 2, 3, -1, -2])
            case["keys"][0] = [start + i * step for i in range(n)]
            case["key_classes"][0] = "int"
            case["container"] = "range_index"
            case["range"] = [start, step]
        elif route in ("f1", "gb_plain", "gb_small") and container == "series" and rng.random() < 0.3:
            case["container"] = "pd_index"
        if container == "pa_chunked":
            k = rng.randint(1, 3)
            cuts = sorted(rng.randint(0, n) for _ in range(k - 1))
            case["chunks"] = [b - a for a, b in zip([0] + cuts, cuts + [n])]
        yield case


def arrow_type(cls):
    import pyarrow as pa
    return {"int": pa.int64(), "float": pa.float64(), "str": pa.string(), "bool": pa.bool_(),
            "datetime": pa.timestamp("ns")}[cls]


def to_container(arr, cls, container, chunks=None):
    import numpy as np
    import pandas as pd
    import pyarrow as pa
    import polars as pl
    if container == "ndarray":
        return arr
    if container == "series":
        return pd.Series(arr, name="k")
    if container == "pd_index":
        return pd.Index(arr, name="k")
    if cls == "categorical":
        return pd.Series(arr, name="k")  # arrow containers: categoricals are covered by C12
    whole = pa.array(arr, type=arrow_type(cls), from_pandas=True)
    if container == "pa_array":
        return whole
    if container == "pa_chunked":
        offs = np.cumsum([0] + list(chunks))
        return pa.chunked_array([whole.slice(a, b - a) for a, b in zip(offs[:-1], offs[1:])], type=arrow_type(cls))
    if container == "pl_series":
        return pl.Series("k", whole)
    if container == "pd_arrow":
        return pd.Series(pd.arrays.ArrowExtensionArray(whole), name="k")
    raise ValueError(container)


def decode_labels(labels, classes):
    """result_index -> list of tuples of logical ints; raises if a label is null/undecodable"""
    out = []
    for lab in labels:
        if not isinstance(lab, tuple):
            lab = (lab,)
        out.append(tuple(decode_label(x, c) for x, c in zip(lab, classes)))
    return out


def row_keys(case):
    n = len(case["keys"][0]) if case["keys"] else 0
    rows = []
    for i in range(n):
        t = tuple(col[i] for col in case["keys"])
        rows.append(None if any(x is None for x in t) else t)
    return rows


def check_relations(codes, labels, rows, prefix=None):
    """-> None if all four relations hold, else a description"""
    n = len(rows) if prefix is None else prefix
    if len(codes) < n:
        return f"codes shorter than rows: {len(codes)} < {n}"
    if len(set(labels)) != len(labels):
        return f"labels not distinct: {labels}"
    for i in range(n):
        if codes[i] != codes[i] or int(codes[i]) != codes[i]:
            return f"row {i}: code {codes[i]!r} is not an integer"
        c = int(codes[i])
        if rows[i] is None:
            if c != -1:
                return f"row {i} has a null key but code {c}"
        else:
            if c < 0 or c >= len(labels):
                return f"row {i} key {rows[i]} has code {c} (labels {labels})"
            if labels[c] != rows[i]:
                return f"row {i} key {rows[i]} has code {c} whose label is {labels[c]}"
    for i in range(n):
        for j in range(i + 1, n):
            if (int(codes[i]) == int(codes[j])) != (rows[i] == rows[j]) and not (rows[i] is None and rows[j] is None):
                return f"rows {i},{j}: codes {codes[i]},{codes[j]} keys {rows[i]},{rows[j]}"
    return None


def observe(case):
    """run the route on the real code; returns dict(kind=..., ...) describing codes/labels/views"""
    import numpy as np
    import pandas as pd
    import pyarrow as pa
    from groupby_lib.groupby import core as core_mod
    from groupby_lib.groupby.core import GroupBy
    from groupby_lib.groupby.factorization import factorize_1d, factorize_2d, monotonic_factorization

    route, classes = case["route"], case["key_classes"]
    arrs = [encode_key_column(col, cls) for col, cls in zip(case["keys"], classes)]

    def build(j):
        if case["container"] == "range_index":
            if j > 0:
                return pd.Series(arrs[j], name=f"k{j}")
            start, step = case["range"]
            n = len(arrs[0])
            return pd.RangeIndex(start * 10 + 5, start * 10 + 5 + step * 10 * n, step * 10, name="k")
        return to_container(arrs[j], classes[j], case["container"], case.get("chunks"))
    if route == "f1":
        x = build(0)
        codes, labels = factorize_1d(x)
        return dict(codes=np.asarray(codes).tolist(), labels=list(labels))
    if route == "f2":
        xs = [to_container(a, c, case["container"]) for a, c in zip(arrs, classes)]
        codes, labels = factorize_2d(*xs)
        return dict(codes=np.asarray(codes).tolist(), labels=list(labels))
    if route == "mono":
        x = to_container(arrs[0], classes[0], case["container"])
        cutoff, codes, labels = monotonic_factorization(x)
        return dict(cutoff=int(cutoff), codes=np.asarray(codes)[:cutoff].astype(np.int64).tolist(), labels=list(labels))
    # GroupBy routes
    old = core_mod.THRESHOLD_FOR_CHUNKED_FACTORIZE
    try:
        core_mod.THRESHOLD_FOR_CHUNKED_FACTORIZE = 8 if route == "gb_small" else 10 ** 9
        xs = [build(j) for j in range(len(arrs))]
        gb = GroupBy(xs[0] if len(xs) == 1 else xs, sort=case["sort"])
        out = dict(chunked=bool(gb.key_is_chunked), ngroups=int(gb.ngroups), labels=list(gb.result_index))
        size = gb.size()
        out["size"] = [(lab, int(v)) for lab, v in zip(size.index, size.to_numpy())]
        kc = gb.key_count
        out["key_count"] = [(lab, int(v)) for lab, v in zip(kc.index, kc.to_numpy())]
        groups = gb.groups
        out["groups"] = [(lab, [int(i) for i in ix]) for lab, ix in groups.items()]
        ik = gb.group_ikey  # after `groups` the codes are global (possibly still chunked)
        if isinstance(ik, pa.ChunkedArray):
            ik = np.concatenate([c.to_numpy() for c in ik.chunks]) if ik.num_chunks else np.array([], dtype=np.int64)
        out["codes"] = np.asarray(ik).astype(np.int64).tolist()
        out["labels_after"] = list(gb.result_index)
        return out
    finally:
        core_mod.THRESHOLD_FOR_CHUNKED_FACTORIZE = old


def evaluate_bigcard(case):
    import numpy as np
    from groupby_lib.groupby.factorization import factorize_2d
    from ..gbcases import bigcard_keys, check_bigcard
    k1, k2 = bigcard_keys(case["gseed"], case["n1"], case["planted"])
    res = dict(tags=["route:bigcard", "nkeys:2", "kc:int"], size=len(k1), key=repr(("bigcard", case["gseed"], case["n1"])), nontrivial=True,
               bucket=("bigcard", "ndarray", ("int", "int")))
    try:
        codes, labels = factorize_2d(k1, k2)
        err = check_bigcard(codes, labels.get_level_values(0).to_numpy(), labels.get_level_values(1).to_numpy(), k1, k2, None)
    except Exception as e:  # noqa
        err = f"error:{type(e).__name__}: {str(e)[:200]}"
    if err:
        res.update(verdict="violation", detail=dict(case=case, expected="the partition relations on a key space beyond 2**32", actual=err))
    else:
        res.update(verdict="ok", detail=None)
    return res


def evaluate(case, drv):
    if case["route"] == "bigcard":
        return evaluate_bigcard(case)
    rows = row_keys(case)
    classes = case["key_classes"]
    n = len(rows)
    nonnull = [r for r in rows if r is not None]
    key = repr((case["keys"], classes, case["route"], case["container"], case.get("chunks"), case["sort"]))
    res = dict(tags=[f"route:{case['route']}", f"cont:{case['container']}", f"nkeys:{len(classes)}"] + [f"kc:{c}" for c in classes]
               + (["has-null-key"] if len(nonnull) < n else []),
               size=n, key=key, nontrivial=len(nonnull) >= 2 and (len(set(nonnull)) >= 2 or len(nonnull) < n),
               bucket=(case["route"], case["container"], tuple(classes)))

    def bad(msg, obs=None, verdict="violation", **kw):
        res.update(verdict=verdict, detail=dict(case=case, expected="the four partition relations + views", actual=msg,
                                                observed=None if obs is None else {k: str(v)[:300] for k, v in obs.items()}, **kw))
        return res

    try:
        obs = observe(case)
    except Exception as e:  # noqa
        return bad(f"error:{type(e).__name__}: {str(e)[:200]}")
    res["observed"] = {k: str(v)[:120] for k, v in obs.items()}
    try:
        labels = decode_labels(obs["labels"], classes)
    except Exception as e:  # noqa
        return bad(f"undecodable/null label in {obs['labels']!r}: {type(e).__name__}", obs)
    route = case["route"]
    if route == "mono":
        cut = obs["cutoff"]
        vals = [None if r is None else r[0] for r in rows]
        # the prefix must be non-decreasing and null-free; the cutoff must be maximal for a null-free input
        pre = vals[:cut]
        if any(v is None for v in pre):
            msg = check_relations(obs["codes"], labels, rows, prefix=cut)
            return bad(f"null key inside the monotonic prefix (cutoff {cut}); relations: {msg}", obs)
        if any(a > b for a, b in zip(pre, pre[1:])):
            return bad(f"prefix of length {cut} is not non-decreasing", obs)
        if n and cut < n and None not in vals and not (vals[cut] < vals[cut - 1] if cut > 0 else True):
            return bad(f"cutoff {cut} is not maximal", obs)
        msg = check_relations(obs["codes"], labels, rows, prefix=cut)
        if msg:
            return bad(msg, obs)
        used = sorted(set(obs["codes"]))
        if used != list(range(len(labels))):
            return bad(f"labels {labels} not exactly the codes used {used}", obs)
        # correspondence with the model (faithful to the comparison semantics)
        xs = ",".join("_" if v is None else str(v) for v in vals)
        if n:
            ans = drv.ask(f"mono xs={xs}")
            got = f"cutoff={cut} codes={','.join(map(str, obs['codes']))} labels={','.join(str(l[0]) for l in labels)}"
            exp = f"cutoff={ans['cutoff']} codes={ans['codes']} labels={ans['labels']}"
            if got != exp:
                return bad(got, obs, verdict="disagreement", model=exp)
        res.update(verdict="ok", detail=None)
        return res
    if route in ("f1", "f2"):
        msg = check_relations(obs["codes"], labels, rows)
        if msg:
            return bad(msg, obs)
        first_appearance = all(c not in ("categorical", "bool") for c in classes) and case["container"] in ("ndarray", "series")
        if first_appearance and not (route == "f1" and classes[0] == "int" and False):
            keys = ";".join(",".join("_" if v is None else str(v) for v in col) for col in case["keys"])
            ans = drv.ask(f"fact keys={keys} n={n}")
            got = f"codes={','.join(map(str, obs['codes']))} labels={'|'.join('.'.join(map(str, l)) for l in labels) or '-'}"
            exp = f"codes={ans['codes']} labels={ans['labels']}"
            if got != exp:
                return bad(got, obs, verdict="disagreement", model=exp)
        res.update(verdict="ok", detail=None)
        return res
    # GroupBy routes
    try:
        labels_after = decode_labels(obs["labels_after"], classes)
    except Exception as e:  # noqa
        return bad(f"undecodable label after unification: {obs['labels_after']!r}", obs)
    if labels_after != labels:
        return bad(f"labels changed by group listing: {labels} -> {labels_after}", obs)
    if obs["ngroups"] != len(labels):
        return bad("ngroups != number of labels", obs)
    res["tags"].append("chunked-repr" if obs["chunked"] else "flat-repr")
    msg = check_relations(obs["codes"], labels, rows)
    if msg:
        return bad(msg, obs)
    # views
    want_groups = {}
    for i, r in enumerate(rows):
        if r is not None:
            want_groups.setdefault(r, []).append(i)
    try:
        got_groups = {decode_labels([lab], classes)[0]: ix for lab, ix in obs["groups"]}
        got_size = {decode_labels([lab], classes)[0]: v for lab, v in obs["size"]}
        got_kc = {decode_labels([lab], classes)[0]: v for lab, v in obs["key_count"]}
    except Exception as e:  # noqa
        return bad(f"undecodable label in a view: {type(e).__name__}", obs)
    if got_groups != want_groups:
        return bad(f"groups {got_groups} != ascending positions per label {want_groups}", obs)
    if {k: v for k, v in got_size.items() if v} != {k: len(v) for k, v in want_groups.items()}:
        return bad(f"size() {got_size} != group sizes", obs)
    if {k: v for k, v in got_kc.items() if v} != {k: len(v) for k, v in want_groups.items()}:
        return bad(f"key_count {got_kc} != group sizes", obs)
    if sum(got_kc.values()) != len(nonnull):
        return bad("sizes do not add up to the number of non-null-key rows", obs)
    if case["sort"] and all(c != "categorical" for c in classes) and len(classes) == 1:
        pass  # label ORDER is C11's business
    res.update(verdict="ok", detail=None)
    return res


def shrink_candidates(case):
    if case["route"] == "bigcard":
        return
    n = len(case["keys"][0]) if case["keys"] else 0
    if case["container"] not in ("ndarray",) and case["route"] != "gb_arrowchunks":
        yield {**case, "container": "ndarray", "chunks": None}
    for i in range(n):
        if n <= 1:
            break
        if case["container"] == "range_index" and i != n - 1:
            continue  # only a prefix of a progression is a progression
        c = dict(case)
        c["keys"] = [col[:i] + col[i + 1:] for col in case["keys"]]
        if case.get("chunks"):
            ch = list(case["chunks"])
            off = 0
            for j, l in enumerate(ch):
                if i < off + l:
                    ch[j] -= 1
                    break
                off += l
            c["chunks"] = ch
        yield c
    if len(case["keys"]) > 2:
        for j in range(len(case["keys"])):
            yield {**case, "keys": case["keys"][:j] + case["keys"][j + 1:], "key_classes": case["key_classes"][:j] + case["key_classes"][j + 1:]}


def main(tier, seed):
    return apirun.run_property(sys.modules[__name__], tier, seed)


def replay(path):
    return apirun.replay_property(sys.modules[__name__], path)
