"""C01 — Group reductions equal the per-group definition (public GroupBy.size/count/sum/mean/min/max/first/last)."""
from __future__ import annotations

import sys

from .. import apirun, common
from ..gbcases import (build_keys, build_mask, build_values, canon_result_series, expected_from_spec, gb_proto_line,
                       gen_dataset, model_kernel_for_public, parse_labelled, values_match)

PID = "C01"
MODULES = ["GroupbyVerif.Props.C01", "GroupbyVerif.Props.C04", "GroupbyVerif.Props.C02", "GroupbyVerif.LoopBridge.Reduce"]
RULE = ("seeded random logical datasets (1-3 keys of int/float+NaN/str/bool/datetime+NaT/categorical-with-unused class, nulls anywhere, "
        "forced all-null groups, value dtype classes f64 f32 i64 i32 u8 bool M8[ns] m8[s], masks none/bool/slice/positions incl. "
        "all-false, negative bounds, repeats) x 8 reductions, plus exhaustive int/float keys for <= 5 rows in the thorough tier; "
        "keys/values as ndarray or indexed pd.Series, values also as a list of two columns with different null placement (each column against the definition), "
        "single keys also as arrow chunked arrays (chunk-factorized representation); non-trivial = at least 2 selected rows with non-null key; distinct = distinct (protocol line, reduction, containers)")
ASSUMPTIONS = [
    "label values are abstract ordered atoms mapped order-preservingly to real ints/floats/strings/dates/categories by the harness",
    "float values are small integers; positional masks within [-n, n)",
    "pandas' factorize / argsort / iloc are trusted (exercised, not proved)",
]
FNS = ["size", "count", "sum", "mean", "min", "max", "first", "last"]


def setup_worker():
    from ..numba_env import import_lib
    import_lib()


def shard_of(case):
    # one worker per (value dtype, reduction): every numba specialisation is compiled once
    return f"{case['vdt']}|{case['fn']}"


def corpus_cases():
    for c in common.load_corpus(PID):
        yield fix_case(c)


def fix_case(c):
    if c.get("mask") is not None:
        c["mask"] = tuple(c["mask"])
    return c


def gen_cases(tier, rng):
    yield from corpus_cases()
    n = 2600 if tier == "quick" else 40000
    for i in range(n):
        ds = gen_dataset(rng, max_rows=12 if tier == "quick" else 30, max_labels=4)
        ds["container"] = rng.choice(["ndarray", "ndarray", "series"])
        if rng.random() < 0.2:
            # several value columns in one call (each must equal the definition on its own) ...
            ds["container"] = "two_columns"
        if len(ds["keys"]) == 1 and ds["key_classes"][0] in ("int", "float", "str", "datetime", "bool") and len(ds["vals"]) >= 2 and rng.random() < 0.2:
            # ... and keys in the chunk-factorized representation (arrow chunks: one dictionary per chunk)
            ds["key_chunks"] = rng.randint(1, len(ds["vals"]) - 1)
        fns = FNS if i % 4 == 0 else rng.sample(FNS, 3)
        for fn in fns:
            yield {**ds, "fn": fn}
    if tier == "thorough":
        import itertools
        for L in range(1, 6):
            for keys in itertools.product([None, 0, 1], repeat=L):
                for vals in itertools.product([None, 1, 2], repeat=L):
                    for fn in ("sum", "min", "first", "count"):
                        yield dict(keys=[list(keys)], key_classes=["float"], vals=list(vals), vdt="f64", mask=None, sort=True,
                                   container="ndarray", fn=fn)


def companion(case):
    """a second value column of the same dtype with its nulls in other places"""
    vals = case["vals"]
    nullable = any(v is None for v in vals) or case["vdt"] in ("f64", "f32", "M8ns", "m8s")
    fill = next((v for v in vals if v is not None), 1)
    comp = [fill if v is None else v for v in reversed(vals)]
    if nullable:
        comp = [None if i % 3 == 1 else v for i, v in enumerate(comp)]
    return comp


def call_public(case):
    """-> list of canonical results, one per value column"""
    import numpy as np
    import pandas as pd
    from groupby_lib.groupby.core import GroupBy

    n = len(case["vals"])
    index = None
    cont = case.get("container", "ndarray")
    if cont == "series":
        index = pd.Index([f"r{(i * 7) % max(n, 1)}_{i}" for i in range(n)])  # non-default, non-monotonic labels
    two = cont == "two_columns"
    keys = build_keys(case, index=index, container="ndarray" if two else cont)
    if case.get("key_chunks"):
        import pyarrow as pa
        from .c02 import arrow_type
        cut = case["key_chunks"]
        whole = pa.array(np.asarray(keys), type=arrow_type(case["key_classes"][0]), from_pandas=True)
        keys = pa.chunked_array([whole.slice(0, cut), whole.slice(cut)])
    values = build_values(case, index=index, container="ndarray" if two else cont, name="v" if cont == "series" else None)
    if two:
        values = [values, build_values({**case, "vals": companion(case)})]
    mask = build_mask(case, index=index, as_series=(cont == "series"))
    gb = GroupBy(keys, sort=case.get("sort", True))
    fn = case["fn"]
    if fn == "size":
        res = gb.size(mask=mask)
    else:
        res = getattr(gb, fn)(values, mask=mask)
    if two and fn != "size":
        if not isinstance(res, pd.DataFrame) or res.shape[1] != 2:
            raise TypeError(f"expected a 2-column DataFrame, got {type(res).__name__}")
        return [canon_result_series(res.iloc[:, j], case["key_classes"]) for j in range(2)]
    if not isinstance(res, pd.Series):
        raise TypeError(f"expected a Series, got {type(res).__name__}")
    return [canon_result_series(res, case["key_classes"])]


def evaluate(case, drv):
    res = evaluate_column(case, drv, 0)
    if res["verdict"] == "ok" and case.get("container") == "two_columns" and case["fn"] != "size":
        res2 = evaluate_column({**case, "vals": companion(case)}, drv, 1)
        if res2["verdict"] != "ok":
            res2["detail"]["case"] = case
            res2["detail"]["note"] = "second value column (different null placement) != definition"
            res2["tags"], res2["key"], res2["size"] = res["tags"], res["key"], res["size"]
            return res2
    return res


_last = {}


def evaluate_column(case, drv, col):
    kn, kind = model_kernel_for_public(case["fn"], case["vdt"])
    line = gb_proto_line(case, kn, kind)
    ans = drv.ask(line)
    spec = parse_labelled(ans["spec"])
    model = parse_labelled(ans["model"])
    nsel = sum(1 for l, v, c in (spec or []) for _ in range(1))
    tags = [f"fn:{case['fn']}", f"vdt:{case['vdt']}", f"nkeys:{len(case['keys'])}", "mask:" + ("none" if case["mask"] is None else case["mask"][0]),
            "cont:" + case.get("container", "ndarray"), "sort:" + str(case.get("sort", True)),
            "keyrepr:" + ("arrow-chunked" if case.get("key_chunks") else "flat")] + [f"kc:{c}" for c in case["key_classes"]]
    if spec is not None and any(c == 0 for _, _, c in spec) and case["fn"] not in ("size",):
        tags.append("all-null-or-empty-group-listed")
    res = dict(tags=tags, size=len(case["vals"]), key=line + "|" + case["fn"] + "|" + case.get("container", "") + "|" + str(case.get("key_chunks")),
               nontrivial=spec is not None and sum(c for _, _, c in spec) >= 2 or (spec is not None and len(spec) >= 2),
               bucket=(case["fn"], case["vdt"], tuple(case["key_classes"]), None if case["mask"] is None else case["mask"][0]))
    try:
        if col == 0:
            _last["cols"] = call_public(case)
        got = _last["cols"][col if len(_last["cols"]) > 1 else 0]
        err = None
    except Exception as e:  # noqa
        got, err = None, f"error:{type(e).__name__}: {str(e)[:160]}"
    res["observed"] = got if err is None else err
    if err is not None:
        if spec is None:
            res.update(verdict="ok", detail=None)  # rejected by the specification as well (e.g. mask length)
        else:
            res.update(verdict="violation", detail=dict(case=case, expected=ans["spec"], actual=err))
        return res
    if spec is None:
        res.update(verdict="violation", detail=dict(case=case, expected="error", actual=got))
        return res
    # label ORDER is C11's business: C01 compares the label -> value mapping
    got = sorted(got, key=lambda t: t[0])
    spec = sorted(spec, key=lambda t: t[0])
    model = None if model is None else sorted(model, key=lambda t: t[0])
    if len({l for l, _ in got}) != len(got):
        res.update(verdict="violation", detail=dict(case=case, expected=ans["spec"], actual=got, note="duplicate label in result"))
        return res
    exp = expected_from_spec(case["fn"], case["vdt"], spec)
    if not values_match(exp, got):
        res.update(verdict="violation", detail=dict(case=case, expected=ans["spec"], actual=got, model=ans["model"]))
    elif model is None or not values_match(expected_from_spec(case["fn"], case["vdt"], model), got):
        res.update(verdict="disagreement", detail=dict(case=case, model=ans["model"], spec=ans["spec"], actual=got))
    else:
        res.update(verdict="ok", detail=None)
    return res


def shrink_candidates(case):
    n = len(case["vals"])
    m = case["mask"]
    if m is not None:
        yield {**case, "mask": None}
    if case.get("container") not in ("ndarray", "two_columns"):
        yield {**case, "container": "ndarray"}
    if case.get("key_chunks") and case.get("container") != "two_columns":
        yield {**case, "key_chunks": None}
    for i in range(n):
        if case.get("key_chunks") and n - 1 <= case["key_chunks"]:
            break
        if m is not None and m[0] == "p":
            break
        c = dict(case)
        c["keys"] = [col[:i] + col[i + 1:] for col in case["keys"]]
        c["vals"] = case["vals"][:i] + case["vals"][i + 1:]
        if m is not None and m[0] == "b":
            c["mask"] = ("b", m[1][:i] + m[1][i + 1:])
        yield c
    if len(case["keys"]) > 1:
        for j in range(len(case["keys"])):
            yield {**case, "keys": case["keys"][:j] + case["keys"][j + 1:], "key_classes": case["key_classes"][:j] + case["key_classes"][j + 1:]}
    for j, cls in enumerate(case["key_classes"]):
        if cls not in ("float",) and all(v is None or v in (0, 1) or cls != "bool" for v in case["keys"][j]):
            yield {**case, "key_classes": case["key_classes"][:j] + ["float"] + case["key_classes"][j + 1:]}
    if case["vdt"] != "f64" and all(v is None or v >= 0 for v in case["vals"]):
        yield {**case, "vdt": "f64"}


def main(tier, seed):
    return apirun.run_property(sys.modules[__name__], tier, seed)


def replay(path):
    return apirun.replay_property(sys.modules[__name__], path)
