"""C14 — Margins and cross-tabulation totals equal the aggregate of what they summarise."""
from __future__ import annotations

import itertools
import math
import sys
from fractions import Fraction

from .. import apirun, common
from ..gbcases import build_keys, decode_label, gen_dataset
from ..publicops import cv

PID = "C14"
MODULES = ["GroupbyVerif.Props.C14"]
RULE = ("seeded random 1-3-key groupings with SPARSE label combinations, nulls in keys and values, boolean/no mask x {sum, count, size, min, max, mean} x margin "
        "settings {True, every subset of levels}; oracle: each result row is recomputed from the selected rows matching its non-'All' positions ('All' = "
        "any label); ordinary rows must equal the no-margins call; 'All' only at requested levels; crosstab with 1-2 row and column keys, values or "
        "counts, margins in {False, True, 'row', 'column'}: every cell / margin recomputed from the rows; the per-group results of the plain call are "
        "also fed to the Lean model of add_row_margin (driver op `margins`), which must return the same table of labels and numbers; non-trivial = >= 2 keys with >= 2 labels each and "
        "a missing combination; distinct = distinct (dataset, fn, margins)")
ASSUMPTIONS = ["pandas reindex / groupby(level) / unstack are trusted library behaviour"]
FNS = ["sum", "count", "size", "min", "max", "mean"]


def setup_worker():
    from ..numba_env import import_lib
    import_lib()


def fix_case(c):
    if c.get("mask") is not None:
        c["mask"] = tuple(c["mask"])
    return c


def gen_cases(tier, rng):
    for c in common.load_corpus(PID):
        yield fix_case(c)
    n = 1500 if tier == "quick" else 25000
    for _ in range(n):
        kind = rng.choice(["margins", "margins", "crosstab"])
        nkeys = rng.choice([1, 2, 2, 3]) if kind == "margins" else rng.choice([2, 2, 3])
        classes = [rng.choice(["int", "float", "str"]) for _ in range(nkeys)]
        ds = gen_dataset(rng, max_rows=14, max_labels=3, nkeys=nkeys, key_classes=classes, vdt="f64", mask_kinds=("none", "b"), min_rows=1,
                         p_null_key=rng.choice([0, 0.1]))
        fn = rng.choice(FNS)
        case = {**ds, "kind": kind, "fn": fn, "sort": True}
        if kind == "margins":
            levels = list(range(nkeys))
            subsets = [True] + [list(s) for r in range(1, nkeys + 1) for s in itertools.combinations(levels, r)]
            case["margins"] = rng.choice(subsets)
        else:
            case["nrow"] = 1 if nkeys == 2 else rng.choice([1, 2])
            case["margins"] = rng.choice([False, True, "row", "column"])
            case["with_values"] = fn != "size"
        yield case


def agg(fn, vals):
    """aggregate a list of (possibly None) values like the library must"""
    nn = [v for v in vals if v is not None]
    if fn == "size":
        return len(vals)
    if fn == "count":
        return len(nn)
    if fn == "sum":
        return sum(nn)
    if not nn:
        return None
    if fn == "min":
        return min(nn)
    if fn == "max":
        return max(nn)
    return Fraction(sum(nn), len(nn))


def same(g, e):
    if e is None:
        return g == "_" or (isinstance(g, float) and math.isnan(g))
    if g == "_":
        return False
    return abs(float(g) - float(e)) <= 1e-9 * max(1.0, abs(float(e)))


def evaluate(case, drv):
    import numpy as np
    import pandas as pd
    from groupby_lib.groupby.core import GroupBy, crosstab

    n = len(case["vals"])
    nk = len(case["keys"])
    sel = [True] * n if case["mask"] is None else list(case["mask"][1])
    rows = [(tuple(col[i] for col in case["keys"]), case["vals"][i]) for i in range(n)
            if sel[i] and not any(col[i] is None for col in case["keys"])]
    combos = {k for k, _ in rows}
    key = repr(sorted((k, str(v)) for k, v in case.items()))
    labels_per_key = [len({k[j] for k in combos}) for j in range(nk)]
    full = 1
    for c in labels_per_key:
        full *= max(c, 1)
    res = dict(tags=[f"kind:{case['kind']}", f"fn:{case['fn']}", f"nkeys:{nk}", f"margins:{case['margins']}", "sparse" if len(combos) < full else "dense"],
               size=n, key=key, nontrivial=nk >= 2 and min(labels_per_key + [9]) >= 2 and len(combos) < full,
               bucket=(case["kind"], case["fn"], nk, str(case["margins"])))

    def bad(exp, act, **kw):
        res.update(verdict="violation", detail=dict(case=case, expected=str(exp)[:400], actual=str(act)[:400], **kw))
        return res

    classes = case["key_classes"]
    keys = build_keys(case)
    vals = np.array([np.nan if v is None else v for v in case["vals"]], dtype=np.float64)
    mask = None if case["mask"] is None else np.array(case["mask"][1], dtype=bool)
    fn = case["fn"]

    def dec(lab):
        if not isinstance(lab, tuple):
            lab = (lab,)
        return tuple("All" if (isinstance(x, str) and x == "All") else decode_label(x, c) for x, c in zip(lab, classes))

    def expected_for(lab):
        match = [v for k, v in rows if all(a == "All" or a == b for a, b in zip(lab, k))]
        return agg(fn, match), len(match)

    try:
        if case["kind"] == "margins":
            gb = GroupBy(keys if nk > 1 else keys)
            call = (lambda **kw: gb.size(mask=mask, **kw)) if fn == "size" else (lambda **kw: getattr(gb, fn)(vals, mask=mask, **kw))
            plain = call()
            withm = call(margins=case["margins"])
            got = {dec(l): cv(v) for l, v in withm.items()}
            plain_map = {dec(l): cv(v) for l, v in plain.items()}
            # ordinary rows unchanged
            for lab, v in plain_map.items():
                if lab not in got or not (got[lab] == v or (isinstance(v, float) and abs(got[lab] - v) < 1e-12)):
                    return bad(f"ordinary row {lab} = {v}", got.get(lab, "missing"))
            allowed = list(range(nk)) if case["margins"] is True else list(case["margins"])
            for lab, g in got.items():
                for j, a in enumerate(lab):
                    if a == "All" and j not in allowed:
                        return bad(f"'All' only at levels {allowed}", lab)
                e, m = expected_for(lab)
                if "All" in lab:
                    if m == 0:
                        # an 'All' combination that summarises no selected row: neutral or null, or absent
                        if not (g in ("_", 0) or (isinstance(g, float) and math.isnan(g))):
                            return bad(f"{lab}: neutral (summarises nothing)", g)
                        continue
                    if not same(g, e):
                        return bad(f"{lab}: {e if not isinstance(e, Fraction) else float(e)}", g, note="margin row != aggregation of the rows it summarises")
            # every requested total that summarises something must be present
            if rows:
                want = set()
                for k, _ in rows:
                    for r in range(1, len(allowed) + 1):
                        for sub in itertools.combinations(allowed, r):
                            want.add(tuple("All" if j in sub else k[j] for j in range(nk)))
                if nk == 1:
                    want = {("All",)}
                missing = [w for w in want if w not in got]
                if missing:
                    return bad(f"margin rows {sorted(map(str, missing))[:5]} present", sorted(map(str, got))[:12])
            # correspondence with the Lean model of add_row_margin: fed with the per-group results of the plain call,
            # the model must return the table the implementation returned (labels and numbers)
            if plain_map:
                def tok(lab):
                    return ".".join("A" if a == "All" else str(a) for a in lab)

                def as_int(v):
                    if v == "_" or isinstance(v, str):
                        return None
                    return int(v) if float(v).is_integer() else False
                if fn == "mean":
                    sums = {dec(l): cv(v) for l, v in gb.sum(vals, mask=mask).items()}
                    cnts = {dec(l): cv(v) for l, v in gb.count(vals, mask=mask).items()}
                    data = {lab: (as_int(sums[lab]), as_int(cnts[lab])) for lab in plain_map}
                    ok_ints = all(a not in (None, False) and b not in (None, False) for a, b in data.values())
                    items = ";".join(f"{tok(l)}:{a}/{b}" for l, (a, b) in data.items())
                    mfn = "mean"
                else:
                    data = {lab: as_int(v) for lab, v in plain_map.items()}
                    ok_ints = all(v is not False for v in data.values()) and (fn in ("min", "max") or all(v is not None for v in data.values()))
                    items = ";".join(f"{tok(l)}:{'_' if v is None else v}" for l, v in data.items())
                    mfn = fn if fn in ("min", "max") else "sum"
                if ok_ints:
                    lv = "_" if case["margins"] is True else ",".join(str(int(x)) for x in case["margins"])
                    ans = drv.ask(f"margins fn={mfn} n={nk} levels={lv} data={items}")
                    res["tags"].append("model-tie")
                    if ans["model"] != ans["spec"]:
                        return bad(f"spec {ans['spec']}", f"model {ans['model']}", note="model of add_row_margin != aggregate of summarised rows")
                    model = {}
                    for t in ([] if ans["model"] == "-" else ans["model"].split("|")):
                        l, v = t.split(":")
                        lab = tuple("All" if a == "A" else int(a) for a in l.split("."))
                        if mfn == "mean":
                            a, b = v.split("/")
                            model[lab] = None if b in ("_", "0") else Fraction(int(a), int(b))
                        else:
                            model[lab] = None if v == "_" else int(v)
                    if set(model) != set(got):
                        res.update(verdict="disagreement", detail=dict(case=case, model=sorted(map(str, model)), actual=sorted(map(str, got)),
                                                                       note="add_row_margin: set of result labels differs from the model"))
                        return res
                    for lab, e in model.items():
                        if not same(got[lab], e):
                            res.update(verdict="disagreement", detail=dict(case=case, model=f"{lab}: {e}", actual=f"{lab}: {got[lab]}",
                                                                           note="add_row_margin: value differs from the model"))
                            return res
        else:
            nrow = case["nrow"]
            index = keys[:nrow] if nrow > 1 else keys[0]
            columns = keys[nrow:] if nk - nrow > 1 else keys[nrow]
            tab = crosstab(index, columns, values=vals if case["with_values"] else None, aggfunc=fn if case["with_values"] else "sum",
                           mask=mask, margins=case["margins"])
            rclasses, cclasses = classes[:nrow], classes[nrow:]

            def dec2(lab, cl):
                if not isinstance(lab, tuple):
                    lab = (lab,)
                return tuple("All" if (isinstance(x, str) and x == "All") else decode_label(x, c) for x, c in zip(lab, cl))

            for rl in tab.index:
                for cl in tab.columns:
                    lab = dec2(rl, rclasses) + dec2(cl, cclasses)
                    g = cv(tab.loc[rl, cl])
                    e, m = expected_for(lab)
                    if m == 0:
                        if not (g in ("_", 0) or (isinstance(g, float) and math.isnan(g))):
                            return bad(f"cell {lab}: absent combination -> null", g)
                        continue
                    if not same(g, e):
                        return bad(f"cell {lab}: {e if not isinstance(e, Fraction) else float(e)}", g)
            # every observed combination has a cell
            cells = {dec2(rl, rclasses) + dec2(cl, cclasses) for rl in tab.index for cl in tab.columns}
            missing = [k for k in combos if k not in cells]
            if missing:
                return bad(f"cells for {missing[:4]}", sorted(map(str, cells))[:10])
            want_row_margin = case["margins"] in (True, "row")
            want_col_margin = case["margins"] in (True, "column")
            has_row_all = any("All" in dec2(rl, rclasses) for rl in tab.index)
            has_col_all = any("All" in dec2(cl, cclasses) for cl in tab.columns)
            if rows and (has_row_all != want_row_margin or has_col_all != want_col_margin):
                return bad(f"row margin {want_row_margin}, column margin {want_col_margin}", f"row {has_row_all}, column {has_col_all}")
    except Exception as e:  # noqa
        import traceback
        return bad("a result", f"error:{type(e).__name__}: {str(e)[:200]}", tb=traceback.format_exc()[-500:])
    res.update(verdict="ok", detail=None)
    return res


def shrink_candidates(case):
    n = len(case["vals"])
    if case["mask"] is not None:
        yield {**case, "mask": None}
    for i in range(n):
        if n <= 1:
            break
        c = {**case, "keys": [col[:i] + col[i + 1:] for col in case["keys"]], "vals": case["vals"][:i] + case["vals"][i + 1:]}
        if case["mask"] is not None:
            c["mask"] = ("b", case["mask"][1][:i] + case["mask"][1][i + 1:])
        yield c
    if case["fn"] != "sum":
        yield {**case, "fn": "sum", "with_values": True}


def main(tier, seed):
    return apirun.run_property(sys.modules[__name__], tier, seed)


def replay(path):
    return apirun.replay_property(sys.modules[__name__], path)
