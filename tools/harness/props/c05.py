"""C05 — A mask is equivalent to filtering the rows first (metamorphic on the public API)."""
from __future__ import annotations

import sys

from .. import apirun, common
from ..gbcases import build_keys, gen_dataset
from ..kernelcases import encode_values
from ..publicops import COMPOSITE_OPS, REDUCTIONS, ROW_OPS, approx_equal, run_op

PID = "C05"
MODULES = ["GroupbyVerif.Props.C05"]
RULE = ("seeded random datasets (1-2 keys incl. null keys, value classes f64 i64 M8[ns], <= 14 rows; also single keys of <= 26 rows in the chunked key "
        "representations: chunk-wise factorization with the threshold scaled to 8 rows, pre-chunked arrow keys with 2-3 chunks) x masks of every accepted kind (boolean incl. "
        "all-false / all-true / emptying a group, slices with negative bounds, integer positions with repeats - the last two for reductions only, the "
        "row-aligned kernels accept boolean masks) x every maskable operation (11 reductions, cumulative, rolling, shift/diff, EMA plain and timed, and the composite / helper operations "
        "value_counts, agg with one function and with a list, ratio, density, quantile, apply); "
        "relation: op(keys, values, mask) == op(keys[mask], values[mask]) at the selected rows / as label->value mapping, and selected outputs do not "
        "change when the VALUES of unselected rows are overwritten; non-trivial = mask selects >= 2 and deselects >= 1 row; distinct = distinct (dataset, mask, op)")
ASSUMPTIONS = ["float results compared to 1e-9 relative (summation order may differ between the two executions)"]


def setup_worker():
    from ..numba_env import import_lib
    import_lib()


def fix_case(c):
    if c.get("mask") is not None:
        c["mask"] = tuple(c["mask"])
    return c


def shard_of(case):
    return f"{case['vdt']}|{case['op']}"


def gen_cases(tier, rng):
    for c in common.load_corpus(PID):
        yield fix_case(c)
    n = 2500 if tier == "quick" else 50000
    for i in range(n):
        op = rng.choice(REDUCTIONS + ROW_OPS + ROW_OPS + COMPOSITE_OPS)
        # median goes through GroupBy.apply, which accepts boolean masks only ("mask must be a boolean array")
        kinds = ("b", "s", "p") if ((op in REDUCTIONS and op != "median") or op in ("value_counts", "agg1", "aggL", "ratio")) else ("b",)
        repr_ = rng.choice(["plain", "plain", "small", "arrowchunks"])
        if repr_ == "plain":
            ds = gen_dataset(rng, max_rows=14, max_labels=3, nkeys=rng.choice([1, 1, 2]), vdt=rng.choice(["f64", "f64", "i64", "M8ns"]),
                             mask_kinds=kinds, min_rows=1)
        else:
            ds = gen_dataset(rng, max_rows=26, max_labels=4, nkeys=1, key_classes=[rng.choice(["float", "str", "datetime", "int"])],
                             vdt=rng.choice(["f64", "f64", "i64", "M8ns"]), mask_kinds=kinds, min_rows=9 if repr_ == "small" else 2)
        if ds["mask"] is None:
            continue
        ds["repr"] = repr_
        if repr_ == "arrowchunks":
            k = len(ds["vals"])
            cuts = sorted(rng.randint(0, k) for _ in range(rng.choice([1, 2])))
            ds["chunks"] = [b - a for a, b in zip([0] + cuts, cuts + [k])]
        if ds["vdt"] == "M8ns" and op in ("sum", "mean", "var", "std", "median", "cumsum", "rolling_sum", "rolling_mean", "ema", "ema_timed"):
            ds["vdt"] = "f64"
            ds["vals"] = [None if v is None else v for v in ds["vals"]]
        if op in ("ema", "ema_timed", "var", "std", "median") and ds["vdt"] != "f64":
            ds["vdt"] = "f64"
        if op in COMPOSITE_OPS:
            ds["vdt"] = "f64"
            if op in ("value_counts", "density") and len(ds["keys"]) > 1:
                ds["keys"], ds["key_classes"] = ds["keys"][:1], ds["key_classes"][:1]
            if repr_ != "plain" and op == "value_counts":
                repr_ = ds["repr"] = "plain"
                ds.pop("chunks", None)
        if ds["vdt"] == "i64":
            ds["vals"] = [1 if v is None else v for v in ds["vals"]]
        ds["sort"] = True
        yield {**ds, "op": op, "window": rng.randint(1, 3)}


def selection(case):
    n = len(case["vals"])
    m = case["mask"]
    if m[0] == "b":
        return [i for i in range(n) if m[1][i]]
    if m[0] == "s":
        return list(range(n))[slice(m[1], m[2])]
    return [p % n if p < 0 else p for p in m[1]]


def evaluate(case, drv):
    import numpy as np
    from groupby_lib.groupby.core import GroupBy

    n = len(case["vals"])
    sel = selection(case)
    op = case["op"]
    m = case["mask"]
    key = repr((case["keys"], case["key_classes"], case["vals"], case["vdt"], m, op, case["window"], case.get("repr"), case.get("chunks")))
    res = dict(tags=[f"op:{op}", f"mask:{m[0]}", f"vdt:{case['vdt']}", f"nkeys:{len(case['keys'])}", f"repr:{case.get('repr', 'plain')}",
                     "empty-selection" if not sel else "nonempty", "all-selected" if len(set(sel)) == n else "partial"],
               size=n, key=key, nontrivial=len(sel) >= 2 and len(set(sel)) < n, bucket=(op, m[0], case["vdt"]))

    def bad(msg, **kw):
        res.update(verdict="violation", detail=dict(case=case, expected="masked == filtered", actual=msg, **kw))
        return res

    def build(rows=None, overwrite=None):
        sub = dict(case)
        if rows is not None:
            sub = {**case, "keys": [[col[i] for i in rows] for col in case["keys"]], "vals": [case["vals"][i] for i in rows]}
        keys = build_keys(sub)
        vals = list(sub["vals"])
        if overwrite is not None:
            vals = [overwrite if (i not in set(sel) and v is not None) else v for i, v in enumerate(vals)]
        values = encode_values(vals, case["vdt"])
        times = None
        if op == "ema_timed":
            idx = rows if rows is not None else range(n)
            times = np.array([1_600_000_000 + 2 * i for i in idx], dtype="int64").view("datetime64[s]")
        return keys, values, times

    def mask_obj():
        if m[0] == "b":
            return np.array(m[1], dtype=bool)
        if m[0] == "s":
            return slice(m[1], m[2])
        return np.array(m[1], dtype=np.int64)

    kw = dict(window=case["window"], min_periods=1)
    from groupby_lib.groupby import core as core_mod
    old_thr = core_mod.THRESHOLD_FOR_CHUNKED_FACTORIZE
    try:
        keys, values, times = build()
        if case.get("repr") == "small":
            core_mod.THRESHOLD_FOR_CHUNKED_FACTORIZE = 8
        elif case.get("repr") == "arrowchunks":
            import pyarrow as pa
            typ = {"int": pa.int64(), "float": pa.float64(), "str": pa.string(), "datetime": pa.timestamp("ns")}[case["key_classes"][0]]
            whole = pa.array(np.asarray(keys), type=typ, from_pandas=True)
            offs = [sum(case["chunks"][:j]) for j in range(len(case["chunks"]))]
            keys = pa.chunked_array([whole.slice(o, l) for o, l in zip(offs, case["chunks"])], type=typ)
        gb = GroupBy(keys)
        res["tags"].append("chunked-keys" if gb.key_is_chunked else "flat-keys")
        masked = run_op(gb, op, values, mask=mask_obj(), times=times, raw_keys=keys, **kw)
    except Exception as e:  # noqa
        masked = ("error", f"{type(e).__name__}: {str(e)[:120]}")
    finally:
        core_mod.THRESHOLD_FOR_CHUNKED_FACTORIZE = old_thr
    try:
        if sel:
            fk, fv, ft = build(rows=sel)
            filtered = run_op(GroupBy(fk), op, fv, mask=None, times=ft, raw_keys=fk, **kw)
        else:
            filtered = ("labels", []) if (op in REDUCTIONS or op in COMPOSITE_OPS) else ("rows", [])
    except Exception as e:  # noqa
        filtered = ("error", f"{type(e).__name__}: {str(e)[:120]}")
    res["observed"] = dict(masked=str(masked)[:200], filtered=str(filtered)[:200])
    if filtered[0] == "error" and masked[0] == "error":
        res.update(verdict="ok", detail=None)
        return res
    if masked[0] == "error" or filtered[0] == "error":
        return bad(dict(masked=str(masked)[:300], filtered=str(filtered)[:300]))
    if op in REDUCTIONS or op in COMPOSITE_OPS:
        a, b = sorted(masked[1], key=lambda t: str(t[0])), sorted(filtered[1], key=lambda t: str(t[0]))
        if not approx_equal([list(t) for t in a], [list(t) for t in b]):
            return bad(dict(masked=a, filtered=b))
    else:
        a = [masked[1][i] for i in sel]
        b = filtered[1]
        if not approx_equal(a, b):
            extra = {}
            if op == "ema":
                # recorded open finding: the untimed EMA treats a masked row like a row with a null value
                try:
                    nan_vals = [v if i in set(sel) else None for i, v in enumerate(case["vals"])]
                    k2 = build_keys(case)
                    as_nan = run_op(GroupBy(k2), op, encode_values(nan_vals, case["vdt"]), mask=None, **kw)
                    extra["ema_mask_behaves_like_null_value"] = approx_equal([as_nan[1][i] for i in sel], a)
                except Exception:
                    extra["ema_mask_behaves_like_null_value"] = False
            return bad(dict(masked_at_selected=a, filtered=b), **extra)
        # unselected rows never influence a selected row: overwrite their values
        if case["vdt"] == "f64" and len(set(sel)) < n:
            try:
                k3, v3, t3 = build(overwrite=999)
                again = run_op(GroupBy(k3), op, v3, mask=mask_obj(), times=t3, **kw)
                if not approx_equal([again[1][i] for i in sel], a):
                    return bad(dict(note="overwriting the values of unselected rows changed a selected output",
                                    before=a, after=[again[1][i] for i in sel]))
            except Exception as e:  # noqa
                return bad(f"error after overwriting unselected values: {type(e).__name__}")
    res.update(verdict="ok", detail=None)
    return res


def _known_ema_mask(v):
    c = v.get("case", {})
    return c.get("op") == "ema" and v.get("ema_mask_behaves_like_null_value") is True


def _known_apply_no_rows(v):
    c = v.get("case", {})
    if c.get("op") != "median" or c.get("mask") is None or c["mask"][0] != "b":
        return False
    keys_null = [any(col[i] is None for col in c["keys"]) for i in range(len(c["vals"]))]
    no_rows = not any(m and not kn for m, kn in zip(c["mask"][1], keys_null))
    return no_rows and "IndexError" in str(v.get("actual"))


KNOWN_MATCHERS = {"C05-untimed-ema-mask-is-null-value": _known_ema_mask, "C05-apply-no-rows": _known_apply_no_rows}


def shrink_candidates(case):
    n = len(case["vals"])
    m = case["mask"]
    if m[0] != "b":
        return
    for i in range(n):
        if n <= 1:
            break
        c = {**case, "keys": [col[:i] + col[i + 1:] for col in case["keys"]], "vals": case["vals"][:i] + case["vals"][i + 1:],
             "mask": ("b", m[1][:i] + m[1][i + 1:])}
        if case.get("chunks"):
            ch, acc = list(case["chunks"]), 0
            for j, l in enumerate(ch):
                if i < acc + l:
                    ch[j] -= 1
                    break
                acc += l
            c["chunks"] = ch
        yield c
    if len(case["keys"]) > 1:
        yield {**case, "keys": case["keys"][:1], "key_classes": case["key_classes"][:1]}


def main(tier, seed):
    return apirun.run_property(sys.modules[__name__], tier, seed)


def replay(path):
    return apirun.replay_property(sys.modules[__name__], path)
