"""C03 — Results do not depend on the execution strategy (metamorphic across strategies)."""
from __future__ import annotations

import sys

from .. import apirun, common, pool
from ..gbcases import gen_dataset
from ..kernelcases import encode_values
from ..publicops import REDUCTIONS, ROW_OPS, approx_equal, run_op

PID = "C03"
MODULES = ["GroupbyVerif.Props.C03"]
RULE = ("seeded random datasets (single numeric/str/datetime key with nulls, sorted prefixes of every length class incl. NaN inside the prefix, groups absent "
        "from some block, 9..40 rows; value classes f64 i64 u8 bool M8[ns]) x masks (none, boolean, slice, positions with repeats) x operations (all "
        "reductions, transform, cumulative, rolling, shift/diff, EMA) x strategies {threads 1..4 (rows-per-thread scaled down), key factorization whole / "
        "chunk-wise with the threshold scaled to 8 rows (general, monotonic, partially monotonic) / pre-chunked arrow keys, values contiguous / arrow-chunked "
        "(misaligned with the key chunks), completion order of the pool tasks permuted at random}; each strategy's result must equal the baseline strategy "
        "(1 thread, whole, contiguous); plus three real-size cases (1,000,000 and 2,000,000 rows, hooks off: a group absent from the first block, a sorted "
        "prefix with a NaN) against a NumPy oracle; non-trivial = >= 2 strategies compared on >= 2 groups; distinct = distinct (dataset, op, strategy)")
ASSUMPTIONS = ["sums/means compared to 1e-9 relative (float summation order differs between strategies); order-insensitive results compared exactly",
               "the thread-count heuristic itself (_max_threads_for_numba) is replaced by the scaled value in the small runs and exercised unmodified in the real-size cases"]
MAX_WORKERS = 8


def setup_worker():
    from ..numba_env import import_lib
    import_lib()


def fix_case(c):
    if c.get("mask") is not None:
        c["mask"] = tuple(c["mask"])
    return c


def shard_of(case):
    return f"{case.get('vdt')}|{case.get('op')}"


def gen_cases(tier, rng):
    for c in common.load_corpus(PID):
        yield fix_case(c)
    for big in ("absent_first_block", "sorted_prefix_nan", "two_million"):
        yield dict(big=big, op="min", vdt="f64")
    n = 1500 if tier == "quick" else 30000
    for _ in range(n):
        op = rng.choice(REDUCTIONS + ["T:sum", "T:max", "T:count"] + ROW_OPS)
        cls = rng.choice(["int", "float", "float", "str", "datetime"])
        ds = gen_dataset(rng, max_rows=40, max_labels=4, nkeys=1, key_classes=[cls], vdt=rng.choice(["f64", "f64", "i64", "u8", "bool", "M8ns"]),
                         mask_kinds=("none", "none", "b", "s", "p") if (op in REDUCTIONS and op != "median") else ("none", "b"), min_rows=9,
                         p_null_key=rng.choice([0.0, 0.1, 0.3]))
        # structure: sorted prefix / group absent from a block
        shape = rng.choice(["random", "prefix", "prefix_null", "blocky"])
        col = ds["keys"][0]
        L = len(col)
        if shape in ("prefix", "prefix_null"):
            k = rng.randint(L // 4, L)
            pre = sorted(c for c in col[:k] if c is not None) or [0]
            pre = (pre * L)[:k]
            pre.sort()
            col[:k] = pre
            if shape == "prefix_null" and cls != "int" and k >= 2:
                col[rng.randrange(k)] = None
        elif shape == "blocky":
            q = L // 4
            col[:q] = [0 if c is not None else None for c in col[:q]]  # first block: one group only
            col[-q:] = [c if c != 0 else 1 for c in col[-q:]]          # last block: group 0 absent
        if ds["vdt"] == "f64" and rng.random() < 0.15:
            # non-finite values: inf - inf = NaN must be the same NaN under every strategy
            ds["vals"] = [rng.choice(["inf", "-inf"]) if (v is not None and rng.random() < 0.3) else v for v in ds["vals"]]
        base = op[2:] if op.startswith("T:") else op
        if ds["vdt"] in ("M8ns", "bool", "u8") and base in ("sum", "mean", "var", "std", "median", "cumsum", "rolling_sum", "rolling_mean", "ema", "ema_timed", "diff"):
            ds["vdt"] = "f64"
        if base in ("ema", "ema_timed", "var", "std", "median") and ds["vdt"] != "f64":
            ds["vdt"] = "f64"
        if ds["vdt"] in ("i64", "u8", "bool"):
            ds["vals"] = [1 if v is None else abs(v) for v in ds["vals"]]
        if ds["vdt"] == "bool":
            ds["vals"] = [v % 2 for v in ds["vals"]]
        if ds["vdt"] == "M8ns":
            ds["vals"] = [None if v is None else abs(v) for v in ds["vals"]]
        ds["sort"] = rng.random() < 0.8
        strategies = []
        for _ in range(3):
            cut = rng.randint(1, L - 1)
            strategies.append(dict(threads=rng.choice([1, 2, 3, 4]), keys=rng.choice(["whole", "small", "arrowchunks"] if cls != "str" or True else ["whole"]),
                                   values=rng.choice(["contig", "arrowchunks"]), kcut=rng.randint(1, L - 1), vcut=cut, order_seed=rng.randrange(10 ** 6)))
        yield {**ds, "op": op, "strategies": strategies, "shape": shape}


def big_case(case):
    """real sizes, hooks off: the implementation picks threads / chunking by its own heuristics"""
    import numpy as np
    from groupby_lib.groupby.core import GroupBy
    pool.uninstall()
    try:
        rng = np.random.default_rng(7)
        if case["big"] == "absent_first_block":
            n = 1_000_000
            keys = rng.integers(0, 5, n).astype(np.float64)
            keys[: n // 2][keys[: n // 2] == 3] = 1  # group 3 absent from the first half (two thread blocks)
            vals = rng.integers(-50, 50, n).astype(np.float64)
        elif case["big"] == "sorted_prefix_nan":
            n = 1_000_000
            keys = np.concatenate([np.repeat(np.arange(4.0), n // 8), rng.integers(0, 6, n - 4 * (n // 8)).astype(np.float64)])
            keys[n // 16] = np.nan
            vals = rng.integers(-50, 50, n).astype(np.float64)
        else:
            n = 2_000_000
            keys = rng.integers(0, 7, n).astype(np.float64)
            keys[: n * 3 // 4][keys[: n * 3 // 4] == 6] = 0  # group 6 only in the last thread block
            vals = rng.integers(-50, 50, n).astype(np.float64)
        gb = GroupBy(keys)
        out = {}
        for op in ("min", "max", "first", "last", "sum", "count", "size"):
            res = gb.size() if op == "size" else getattr(gb, op)(vals)
            out[op] = {float(k): float(v) for k, v in res.items()}
        # NumPy oracle
        exp = {op: {} for op in out}
        ok = ~np.isnan(keys)
        for g in np.unique(keys[ok]):
            v = vals[keys == g]
            exp["min"][g], exp["max"][g], exp["first"][g], exp["last"][g] = v.min(), v.max(), v[0], v[-1]
            exp["sum"][g], exp["count"][g], exp["size"][g] = v.sum(), float(len(v)), float(len(v))
        bad = [op for op in out if out[op] != {float(k): float(v) for k, v in exp[op].items()}]
        return bad, dict(chunked=bool(gb.key_is_chunked), threads=int(gb._max_threads_for_numba),
                         sample={op: (out[op], exp[op]) for op in bad[:2]})
    finally:
        pool.install_inline()


def evaluate(case, drv):
    import numpy as np
    import pandas as pd
    import pyarrow as pa
    from groupby_lib.groupby import core as core_mod
    from groupby_lib.groupby.core import GroupBy
    from ..gbcases import encode_key_column

    if case.get("big"):
        res = dict(tags=["real-size", case["big"]], size=10 ** 6, key=case["big"], nontrivial=True, bucket=("big", case["big"]))
        try:
            bad, info = big_case(case)
        except Exception as e:  # noqa
            bad, info = ["error"], dict(error=f"{type(e).__name__}: {str(e)[:200]}")
        res["observed"] = info
        if bad:
            res.update(verdict="violation", detail=dict(case=case, expected="NumPy per-group oracle", actual=dict(failing_ops=bad, info=str(info)[:600])))
        else:
            res.update(verdict="ok", detail=None)
        return res

    n = len(case["vals"])
    op = case["op"]
    transform = op.startswith("T:")
    base = op[2:] if transform else op
    cls = case["key_classes"][0]
    key = repr((case["keys"], cls, case["vals"], case["vdt"], case["mask"], op, case["strategies"], case["sort"]))
    ngroups = len({c for c in case["keys"][0] if c is not None})
    res = dict(tags=[f"op:{op}", f"vdt:{case['vdt']}", f"kc:{cls}", f"shape:{case['shape']}", "mask:" + ("none" if case["mask"] is None else case["mask"][0])],
               size=n, key=key, nontrivial=ngroups >= 2, bucket=(op, case["vdt"], cls, None if case["mask"] is None else case["mask"][0]))

    def mask_obj():
        m = case["mask"]
        if m is None:
            return None
        if m[0] == "b":
            return np.array(m[1], dtype=bool)
        if m[0] == "s":
            return slice(m[1], m[2])
        return np.array(m[1], dtype=np.int64)

    key_arr = encode_key_column(case["keys"][0], cls)
    val_arr = encode_values(case["vals"], case["vdt"])
    times = None
    if base == "ema_timed":
        times = np.array([1_600_000_000 + 2 * i for i in range(n)], dtype="int64").view("datetime64[s]")
    typ = {"int": pa.int64(), "float": pa.float64(), "str": pa.string(), "datetime": pa.timestamp("ns")}[cls]

    def run(strategy):
        old_thr = core_mod.THRESHOLD_FOR_CHUNKED_FACTORIZE
        old_prop = GroupBy._max_threads_for_numba
        pool.install_inline(pool.Order("random", strategy.get("order_seed", 0)))
        try:
            core_mod.THRESHOLD_FOR_CHUNKED_FACTORIZE = 8 if strategy["keys"] == "small" else 10 ** 9
            GroupBy._max_threads_for_numba = property(lambda self, t=strategy["threads"]: t)
            keys = key_arr
            if strategy["keys"] == "arrowchunks":
                whole = pa.array(key_arr, type=typ, from_pandas=True)
                c = strategy["kcut"]
                keys = pa.chunked_array([whole.slice(0, c), whole.slice(c)], type=typ)
            values = val_arr
            if strategy["values"] == "arrowchunks" and case["vdt"] not in ("bool",):
                wv = pa.array(val_arr, from_pandas=False) if case["vdt"] != "M8ns" else pa.array(val_arr)
                c = strategy["vcut"]
                values = pa.chunked_array([wv.slice(0, c), wv.slice(c)])
            gb = GroupBy(keys, sort=case["sort"])
            tag = ("chunked-keys" if gb.key_is_chunked else "flat-keys")
            out = run_op(gb, base, values, mask=mask_obj(), transform=transform, times=times, window=2, min_periods=1)
            return out, tag
        finally:
            core_mod.THRESHOLD_FOR_CHUNKED_FACTORIZE = old_thr
            GroupBy._max_threads_for_numba = old_prop

    base_strategy = dict(threads=1, keys="whole", values="contig", kcut=1, vcut=1, order_seed=0)
    try:
        ref, _ = run(base_strategy)
    except Exception as e:  # noqa
        ref = ("error", f"{type(e).__name__}: {str(e)[:150]}")
    for st in case["strategies"]:
        try:
            out, tag = run(st)
            res["tags"].append(tag)
        except Exception as e:  # noqa
            out = ("error", f"{type(e).__name__}: {str(e)[:150]}")
        res["tags"] += [f"threads:{st['threads']}", f"keys:{st['keys']}", f"values:{st['values']}"]
        same = (ref[0] == out[0] == "error") or (ref[0] != "error" and out[0] != "error" and _equal(ref, out))
        if not same:
            res.update(verdict="violation", detail=dict(case={**case, "strategies": [st]}, expected=f"baseline strategy: {str(ref)[:500]}",
                                                        actual=f"strategy {st}: {str(out)[:500]}"))
            return res
    res.update(verdict="ok", detail=None)
    return res


def _equal(a, b):
    if a[0] != b[0]:
        return False
    x, y = a[1], b[1]
    if a[0] == "labels":
        x, y = [list(t) for t in x], [list(t) for t in y]  # ORDER included: labels must be identical, in the same order
    return approx_equal(x, y)


def shrink_candidates(case):
    if case.get("big"):
        return
    if len(case["strategies"]) > 1:
        for st in case["strategies"]:
            yield {**case, "strategies": [st]}
    if case["mask"] is not None:
        yield {**case, "mask": None}
    n = len(case["vals"])
    m = case["mask"]
    for i in range(n):
        if n <= 9 or (m is not None and m[0] == "p"):
            break
        c = {**case, "keys": [case["keys"][0][:i] + case["keys"][0][i + 1:]], "vals": case["vals"][:i] + case["vals"][i + 1:]}
        if m is not None and m[0] == "b":
            c["mask"] = ("b", m[1][:i] + m[1][i + 1:])
        c["strategies"] = [{**st, "kcut": min(st["kcut"], n - 2), "vcut": min(st["vcut"], n - 2)} for st in case["strategies"]]
        yield c


def main(tier, seed):
    return apirun.run_property(sys.modules[__name__], tier, seed)


def replay(path):
    return apirun.replay_property(sys.modules[__name__], path)
