"""C06 — Rows with a null key never influence any group (metamorphic: delete the null-key rows)."""
from __future__ import annotations

import sys

from .. import apirun, common
from ..gbcases import build_keys, gen_dataset
from ..kernelcases import encode_values
from ..publicops import REDUCTIONS, ROW_OPS, SELECT_OPS, approx_equal, run_op

PID = "C06"
MODULES = ["GroupbyVerif.Props.C06", "GroupbyVerif.LoopBridge.Nearby", "GroupbyVerif.Lemmas.Nearby"]
RULE = ("seeded random datasets with nulls at any subset of rows and in any key position of 1-3 keys (float/str/datetime/categorical key classes), "
        "<= 14 rows, single non-categorical keys also as a two-chunk arrow key (chunk-local codes), value classes f64 i64 M8[ns] x every operation (11 reductions, their transform=True forms, cumulative, rolling, shift/diff, EMA "
        "plain and timed, head/tail/nth, groups, group_nearby_members); relations: (a) deleting the null-key rows leaves every label's / every other "
        "row's result unchanged, (b) no label is created for them, (c) in row-aligned outputs they carry one constant null/neutral marker that does "
        "not change when the other rows' values change; non-trivial = >= 1 null-key row and >= 2 others; distinct = distinct (dataset, op)")
ASSUMPTIONS = ["float results compared to 1e-9 relative"]
OPS = REDUCTIONS + ["T:" + r for r in REDUCTIONS] + ROW_OPS + ROW_OPS + SELECT_OPS + ["groups", "nearby"]


def setup_worker():
    from ..numba_env import import_lib
    import_lib()


def fix_case(c):
    return c


def shard_of(case):
    return f"{case['vdt']}|{case['op']}"


def gen_cases(tier, rng):
    for c in common.load_corpus(PID):
        yield c
    n = 2500 if tier == "quick" else 50000
    for _ in range(n):
        op = rng.choice(OPS)
        nkeys = rng.choice([1, 1, 2, 3])
        classes = [rng.choice(["float", "str", "datetime", "categorical"]) for _ in range(nkeys)]
        ds = gen_dataset(rng, max_rows=14, max_labels=3, nkeys=nkeys, key_classes=classes, vdt=rng.choice(["f64", "f64", "i64", "M8ns"]),
                         mask_kinds=("none",), min_rows=1, p_null_key=rng.choice([0.15, 0.35]))
        base = op[2:] if op.startswith("T:") else op
        if ds["vdt"] == "M8ns" and base in ("sum", "mean", "var", "std", "median", "cumsum", "rolling_sum", "rolling_mean", "ema", "ema_timed", "nearby"):
            ds["vdt"] = "f64"
        if base in ("ema", "ema_timed", "var", "std", "median", "nearby") and ds["vdt"] != "f64":
            ds["vdt"] = "f64"
        if ds["vdt"] == "i64" or base == "nearby":
            ds["vals"] = [1 if v is None else v for v in ds["vals"]]
        ds["sort"] = True
        kchunks = None
        if nkeys == 1 and classes[0] != "categorical" and len(ds["vals"]) >= 2 and rng.random() < 0.35:
            # the same rows behind a two-chunk arrow key: chunk-local codes, unified lazily by the row-aligned operations
            kchunks = rng.randint(1, len(ds["vals"]) - 1)
        yield {**ds, "op": op, "window": rng.randint(1, 3), "n": rng.choice([-2, -1, 0, 1, 2]), "kchunks": kchunks}


def evaluate(case, drv):
    import numpy as np
    from groupby_lib.groupby.core import GroupBy

    n = len(case["vals"])
    null_rows = [i for i in range(n) if any(col[i] is None for col in case["keys"])]
    keep = [i for i in range(n) if i not in set(null_rows)]
    op = case["op"]
    transform = op.startswith("T:")
    base = op[2:] if transform else op
    key = repr((case["keys"], case["key_classes"], case["vals"], case["vdt"], op, case["window"], case["n"], case.get("kchunks")))
    pos = {}
    res = dict(tags=[f"op:{op}", f"vdt:{case['vdt']}", f"nkeys:{len(case['keys'])}", "has-null" if null_rows else "no-null", "arrow-chunked-key" if case.get("kchunks") else "flat-key"]
               + [f"nullpos:{j}" for j, col in enumerate(case["keys"]) if any(v is None for v in col)],
               size=n, key=key, nontrivial=len(null_rows) >= 1 and len(keep) >= 2, bucket=(op, case["vdt"], len(case["keys"])))

    def bad(msg, **kw):
        res.update(verdict="violation", detail=dict(case=case, expected="result unchanged by deleting null-key rows", actual=msg, **kw))
        return res

    def run(rows, overwrite=False):
        sub = {**case, "keys": [[col[i] for i in rows] for col in case["keys"]], "vals": [case["vals"][i] for i in rows]}
        keys = build_keys(sub)
        if case.get("kchunks"):
            import pyarrow as pa
            cut = sum(1 for i in rows if i < case["kchunks"])
            whole = pa.array(keys, from_pandas=True)
            keys = pa.chunked_array([c for c in (whole.slice(0, cut), whole.slice(cut)) if len(c)] or [whole], type=whole.type)
        vals = list(sub["vals"])
        if overwrite:
            # change the values of all rows whose key is NOT null (used to test the constancy of the null-key marker)
            vals = [(v + 5 if v is not None else v) if not any(col[i] is None for col in case["keys"]) else v for i, v in zip(rows, vals)]
        values = encode_values(vals, case["vdt"])
        if base in SELECT_OPS:
            values = np.arange(len(rows), dtype=np.float64) * 0 + np.array([i * 10.0 + 1 for i in rows])  # identifies original rows
        times = None
        if base == "ema_timed":
            times = np.array([1_600_000_000 + 2 * i for i in rows], dtype="int64").view("datetime64[s]")
        gb = GroupBy(keys)
        if base == "nearby":
            # values with gaps of 1..2 between neighbouring rows, integer threshold 1..3: distances equal to the threshold occur
            nv = [float(i + (i // 3)) for i in rows]
            out = gb.group_nearby_members(np.array(nv), float(case["window"]))
            got = [int(x) for x in np.asarray(out)]
            if rows == list(range(n)):
                # correspondence with the Lean model on the implementation's own codes (integer values and threshold)
                codes = [int(c) for c in np.asarray(gb.group_ikey)]
                ans = drv.ask(f"nearby codes={','.join(map(str, codes))} vals={','.join(str(int(x)) for x in nv)} maxdiff={case['window']}")
                pos["model_nearby"] = (ans.get("model"), ",".join(map(str, got)))
            return ("rows", got)
        kw = dict(window=case["window"], min_periods=1)
        if base == "nth":
            kw["n"] = case["n"]
        elif base in ("head", "tail"):
            kw["n"] = abs(case["n"])
        return run_op(gb, base, values, mask=None, transform=transform, times=times, **kw)

    try:
        full = run(list(range(n)))
    except Exception as e:  # noqa
        full = ("error", f"{type(e).__name__}: {str(e)[:150]}")
    try:
        if keep:
            clean = run(keep)
        else:
            clean = None
    except Exception as e:  # noqa
        clean = ("error", f"{type(e).__name__}: {str(e)[:150]}")
    res["observed"] = dict(full=str(full)[:200], clean=str(clean)[:200])
    if "model_nearby" in pos:
        res["tags"].append("model-tie:nearby")
        m, g = pos["model_nearby"]
        if m != g and full[0] != "error":
            res.update(verdict="disagreement", detail=dict(case=case, model=m, actual=g, note="group_nearby_members differs from the Lean model"))
            return res
    if clean is None:
        # only null-key rows: no label may be created; a failure here is the 'no rows' edge of apply (C05/C09 finding)
        if full[0] == "labels" and full[1]:
            return bad(dict(full=full, note="labels reported although every key is null"))
        res.update(verdict="ok", detail=None)
        return res
    if full[0] == "error" and clean[0] == "error":
        res.update(verdict="ok", detail=None)
        return res
    if full[0] == "error" or clean[0] == "error":
        return bad(dict(full=str(full)[:300], without_null_rows=str(clean)[:300]))
    kind = full[0]
    if kind in ("labels", "select", "groups"):
        a, b = full[1], clean[1]
        if kind == "groups":
            # positions shift when rows are deleted: compare through original row numbers
            b = [(lab, [keep[i] for i in ix]) for lab, ix in b]
        if kind == "labels":
            a, b = sorted(a, key=lambda t: str(t[0])), sorted(b, key=lambda t: str(t[0]))
            a, b = [list(t) for t in a], [list(t) for t in b]
        if not approx_equal(a, b):
            return bad(dict(full=a, without_null_rows=b))
        if kind == "labels" and any(x == "_" for lab, _ in full[1] for x in lab):
            return bad(dict(full=full[1], note="a label containing a null was created"))
    else:  # row-aligned
        a = [full[1][i] for i in keep]
        b = clean[1]
        if base == "nearby":
            # sub-group numbering is global: compare the partition of the kept rows instead of the numbers
            def part(xs):
                first = {}
                return [first.setdefault(x, len(first)) for x in xs]
            a, b = part(a), part(b)
        if not approx_equal(a, b):
            return bad(dict(full_at_other_rows=a, without_null_rows=b))
        marks = [full[1][i] for i in null_rows]
        if len(set(map(str, marks))) > 1:
            return bad(dict(null_row_outputs=marks, note="null-key rows do not carry one constant marker"))
        if marks and case["vdt"] == "f64" and base != "nearby":
            try:
                again = run(list(range(n)), overwrite=True)
                marks2 = [again[1][i] for i in null_rows]
                if list(map(str, marks2)) != list(map(str, marks)):
                    return bad(dict(null_row_outputs=marks, after_changing_other_rows=marks2))
            except Exception as e:  # noqa
                return bad(f"error after changing other rows: {type(e).__name__}")
    res.update(verdict="ok", detail=None)
    return res


def shrink_candidates(case):
    n = len(case["vals"])
    kc = case.get("kchunks")
    for i in range(n):
        if n <= 1:
            break
        nk = None if not kc else (kc - 1 if i < kc else kc)
        yield {**case, "keys": [col[:i] + col[i + 1:] for col in case["keys"]], "vals": case["vals"][:i] + case["vals"][i + 1:],
               "kchunks": nk if nk and 0 < nk < n - 1 else None}
    if kc:
        yield {**case, "kchunks": None}
    if len(case["keys"]) > 1:
        for j in range(len(case["keys"])):
            yield {**case, "keys": case["keys"][:j] + case["keys"][j + 1:], "key_classes": case["key_classes"][:j] + case["key_classes"][j + 1:]}


def main(tier, seed):
    return apirun.run_property(sys.modules[__name__], tier, seed)


def replay(path):
    return apirun.replay_property(sys.modules[__name__], path)
