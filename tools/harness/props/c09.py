"""C09 — Rolling operations are per-group sliding-window reductions."""
from __future__ import annotations

import math
import sys
from fractions import Fraction

from .. import apirun, common
from ..kernelcases import DTYPES, MIN_INT, encode_values, mask_token

PID = "C09"
MODULES = ["GroupbyVerif.Props.C09", "GroupbyVerif.LoopBridge.Rolling", "GroupbyVerif.LoopBridge.RollingMax", "GroupbyVerif.LoopBridge.IsNull"]
RULE = ("seeded random interleavings of <= 3 groups with null codes/keys x window 1..5 (plus windows 17 / 130 / 200 over 3-14 windows of rows) x min_periods 1..window (and the boundary value 0; in 15 % of the cases left at its default with windows 2..9, beyond the largest group) x null placements x boolean masks x "
        "value dtype classes f64 f32 i32 i64(small) M8[ns] with sub-microsecond digits m8[s] x {rolling sum, mean, min, max, shift, diff} at the kernel "
        "level (numba.rolling_*) and through GroupBy.rolling_*/shift/diff with both index_by_groups settings; boundary windows 32767/32768/40000 with a "
        "longer group in both tiers; exhaustive <= 6 rows, <= 2 groups, window <= 3 in the thorough tier; non-trivial = a group with > window selected rows; "
        "distinct = distinct (protocol line, level, dtype, layout)")
ASSUMPTIONS = ["codes < ngroups", "float values are small integers (sums exact)", "integer inputs are returned as float64 (the property exempts them from exactness)"]
OPS = ["sum", "mean", "min", "max", "shift", "diff"]
BIG_TS = 1_600_000_000_123_456_789


def _known_by_groups_no_rows(v):
    c = v.get("case", {})
    if not c.get("by_groups") or c.get("codes") is None:
        return False
    sel = [True] * len(c["codes"]) if c.get("mask") is None else list(c["mask"][1])
    no_rows = not any(code >= 0 and s for code, s in zip(c["codes"], sel))
    return no_rows and str(v.get("actual", "")).startswith("error:IndexError")


KNOWN_MATCHERS = {"C09-by-groups-no-rows": _known_by_groups_no_rows}


def setup_worker():
    from ..numba_env import import_lib
    import_lib()


def fix_case(c):
    if c.get("mask") is not None:
        c["mask"] = tuple(c["mask"])
    return c


def shard_of(case):
    return f"{case['dt']}|{case['op']}"


def gen_cases(tier, rng):
    for c in common.load_corpus(PID):
        yield fix_case(c)
    for w in (32767, 32768, 40000):
        for op in ("sum", "max", "shift"):
            yield dict(level="kernel", op=op, dt="f64", window=w, minp=1, big=w + 5, ng=1, codes=None, vals=None, mask=None, by_groups=False)
    # windows well beyond the handful of rows of the random cases (a shortcut that only engages for long windows must
    # still evict the extremum when it leaves the window): two interleaved groups, non-monotone values, some nulls
    for w in (17, 130, 200):
        for op in ("max", "min", "sum", "mean", "shift"):
            # many windows of rows per group: a stale extremum needs the best value to leave the window unnoticed
            L = (14 if op in ("max", "min") else 3) * w + rng.randint(5, 40)
            codes = [rng.choice([0, 0, 1, 1, 1, -1]) if rng.random() < 0.97 else -1 for _ in range(L)]
            vals = [None if rng.random() < 0.05 else rng.randint(-1_000_000, 1_000_000) for _ in range(L)]
            yield dict(level=rng.choice(["kernel", "public"]), op=op, dt="f64", window=w, minp=rng.choice([1, w // 2]), codes=codes,
                       vals=vals, mask=None, ng=2, by_groups=False, container="ndarray")
    n = 3000 if tier == "quick" else 80000
    for _ in range(n):
        L = rng.randint(0, 14)
        ng = rng.randint(1, 3)
        codes = [rng.choice([-1] + list(range(ng))) if rng.random() < 0.9 else -1 for _ in range(L)]
        dt = rng.choice(["f64", "f64", "f32", "i32", "i64", "M8ns", "m8s"])
        null_ok = DTYPES[dt][2] is not None and dt != "i64"
        if dt == "M8ns":
            alpha = [BIG_TS, BIG_TS + 1, BIG_TS + 1000, BIG_TS - 7]
        elif dt == "m8s":
            alpha = [-3, 1, 2, 7]
        else:
            alpha = [-3, 1, 2, 7]
        vals = [None if (null_ok and rng.random() < 0.25) else rng.choice(alpha) for _ in range(L)]
        mask = ("b", [rng.random() < rng.choice([0.3, 0.7, 1.0]) for _ in range(L)]) if (L and rng.random() < 0.35) else None
        op = rng.choice(OPS)
        if dt in ("M8ns",) and op in ("sum", "mean"):
            op = rng.choice(["min", "max", "shift", "diff"])
        w = rng.randint(1, 5)
        minp = 0 if rng.random() < 0.1 else rng.randint(1, w)  # 0 is outside the property's range but accepted by the code: tied to the model too
        default_minp = False
        if rng.random() < 0.15:
            # min_periods left at its default (= the window), with windows that can exceed the largest group
            w = rng.randint(2, 9)
            minp, default_minp = w, True
        level = rng.choice(["kernel", "public", "public"])
        by_groups = level == "public" and op in ("sum", "mean", "min", "max") and rng.random() < 0.3 and dt in ("f64", "f32")
        yield dict(level=level, op=op, dt=dt, window=w, minp=minp, codes=codes, vals=vals, mask=mask, ng=ng, by_groups=by_groups,
                   container=rng.choice(["ndarray", "series"]), **({"default_minp": True} if default_minp else {}))
    if tier == "thorough":
        import itertools
        for L in range(1, 7):
            for codes in itertools.product([0, 1], repeat=L):
                for vals in itertools.product([None, 1, 2], repeat=L):
                    for w in (1, 2, 3):
                        for op in ("sum", "max", "min", "shift"):
                            yield dict(level="kernel", op=op, dt="f64", window=w, minp=1, codes=list(codes), vals=list(vals), mask=None, ng=2,
                                       by_groups=False, container="ndarray")


def canon(out, temporal):
    import numpy as np
    out = np.asarray(out)
    if out.dtype.kind in "mM":
        return ["_" if v == MIN_INT else int(v) for v in out.view("int64")]
    res = []
    for v in out:
        if isinstance(v, (float, np.floating)) and math.isnan(v):
            res.append("_")
        elif float(v).is_integer():
            res.append(int(v))
        else:
            res.append(float(v))
    return res


def expected(tok, temporal):
    exp = []
    for cell in (tok.split(",") if tok else []):
        if cell in ("K", "_"):
            exp.append("_")
        elif "/" in cell:
            s, c = cell.split("/")
            if temporal:
                exp.append(("approx", Fraction(int(s), int(c))))  # the mean is rounded to the input's time unit
                continue
            q = int(s) / int(c)
            exp.append(int(q) if float(q).is_integer() else q)
        else:
            v = int(cell)
            exp.append("_" if (temporal and v == MIN_INT) else v)
    return exp


def evaluate(case, drv):
    import numpy as np
    import pandas as pd
    from groupby_lib.groupby import numba as nbk
    from groupby_lib.groupby.core import GroupBy

    op, dt, w, minp = case["op"], case["dt"], case["window"], case["minp"]
    api_minp = None if case.get("default_minp") else minp       # what the real call gets; the model always sees the number
    npdt, kind, null = DTYPES[dt]
    temporal = npdt.kind in "mM"
    if case.get("big"):
        # boundary windows of the 16-bit ring counters: one long group, values 1..n; oracle computed here
        nrow = case["big"]
        key = np.zeros(nrow, dtype=np.int64)
        values = np.arange(1, nrow + 1, dtype=np.float64)
        res = dict(tags=["boundary-window", f"op:{op}", f"window:{w}"], size=w, key=repr((op, w)), nontrivial=True, bucket=("boundary", op, w))
        try:
            if op == "shift":
                out = nbk.rolling_shift(key, values, 1, w)
                want = [float("nan")] * w + list(values[: nrow - w])
            elif op == "sum":
                out = nbk.rolling_sum(key, values, 1, w, 1)
                cs = np.concatenate([[0], np.cumsum(values)])
                want = [cs[i + 1] - cs[max(0, i + 1 - w)] for i in range(nrow)]
            else:
                out = nbk.rolling_max(key, values, 1, w, 1)
                want = list(values)
            ok = all((math.isnan(a) and math.isnan(b)) or a == b for a, b in zip(np.asarray(out, dtype=float), want))
        except Exception as e:  # noqa
            ok, out = False, f"error:{type(e).__name__}"
        if ok:
            res.update(verdict="ok", detail=None)
        else:
            tail = list(np.asarray(out)[-8:]) if not isinstance(out, str) else out
            res.update(verdict="violation", detail=dict(case=case, expected=f"window reduction over 1..{nrow}; last rows {want[-8:]}", actual=str(tail)))
        return res
    codes, vals, L = case["codes"], case["vals"], len(case["codes"])
    line_kind = "i64" if temporal else "f"
    null_tok = "_" if line_kind == "f" else str(MIN_INT)
    vs = ",".join(null_tok if v is None else str(v) for v in vals)
    line = (f"roll op={op} kind={line_kind} window={w} minp={minp} codes={','.join(map(str, codes))} vals={vs} mask={mask_token(case['mask'])}")
    ans = drv.ask(line)
    sel = [True] * L if case["mask"] is None else list(case["mask"][1])
    per_group = {}
    for c, s in zip(codes, sel):
        if c >= 0 and s:
            per_group[c] = per_group.get(c, 0) + 1
    res = dict(tags=[f"level:{case['level']}", f"op:{op}", f"dt:{dt}", f"window:{w}", "mask:" + ("none" if case["mask"] is None else "b"),
                     "by-groups" if case["by_groups"] else "flat", "evict" if max(list(per_group.values()) + [0]) > w else "no-evict",
                     "minp:default" if case.get("default_minp") else "minp:given"],
               size=L, key=line + f"|{case['level']}|{dt}|{case['by_groups']}|{case.get('container')}|{case.get('default_minp')}",
               nontrivial=max(list(per_group.values()) + [0]) > w,
               bucket=(case["level"], op, dt, case["mask"] is not None, case["by_groups"]))

    def bad(verdict, actual, **kw):
        res.update(verdict=verdict, detail=dict(case=case, expected=ans["spec"], actual=str(actual)[:400], model=ans["model"], **kw))
        return res

    values = encode_values(vals, dt)
    mask = None if case["mask"] is None else np.array(case["mask"][1], dtype=bool)
    flat = None
    try:
        if case["level"] == "kernel":
            key = np.array(codes, dtype=np.int64)
            if op in ("shift", "diff"):
                out = getattr(nbk, "rolling_" + op)(key, values, case["ng"], w, mask)
            else:
                out = getattr(nbk, "rolling_" + op)(key, values, case["ng"], w, api_minp, mask)
            out = np.asarray(out)
        else:
            keys = np.array([np.nan if c < 0 else c + 0.5 for c in codes])
            index = None
            if case.get("container") == "series":
                index = pd.Index([f"r{(i * 5) % max(L, 1)}_{i}" for i in range(L)])
                keys = pd.Series(keys, index=index)
                values = pd.Series(values, index=index, name="v")
                if mask is not None:
                    mask = pd.Series(mask, index=index)
            gb = GroupBy(keys)
            if op == "shift":
                r = gb.shift(values, window=w, mask=mask)
            elif op == "diff":
                r = gb.diff(values, window=w, mask=mask)
            else:
                r = getattr(gb, "rolling_" + op)(values, window=w, min_periods=api_minp, mask=mask, index_by_groups=case["by_groups"])
            if case["by_groups"]:
                flat = getattr(gb, "rolling_" + op)(values, window=w, min_periods=api_minp, mask=mask, index_by_groups=False)
            elif index is not None and list(r.index) != list(index):
                return bad("violation", f"result index {list(r.index)[:5]} differs from the input's")
            out = r.to_numpy()
            if op == "diff" and temporal and r.dtype != np.dtype(f"timedelta64[{np.datetime_data(npdt)[0]}]"):
                return bad("violation", f"diff of {npdt} came back as {r.dtype} (differences must be in the input's time unit)")
            if op in ("min", "max", "shift") and temporal and r.dtype != npdt:
                return bad("violation", f"{op} of {npdt} came back as {r.dtype}")
    except Exception as e:  # noqa
        return bad("violation", f"error:{type(e).__name__}: {str(e)[:200]}")
    if case["by_groups"]:
        # same numbers, arranged group by group under (group label, original index)
        flat_vals = canon(flat.to_numpy(), temporal)
        want = []
        order = sorted(range(L), key=lambda i: (codes[i], i))
        for i in order:
            if codes[i] >= 0 and sel[i]:
                lab = i if case.get("container") != "series" else f"r{(i * 5) % max(L, 1)}_{i}"
                want.append(((codes[i] + 0.5, lab), flat_vals[i]))
        got = list(zip([tuple(t) for t in r.index], canon(out, temporal)))
        if got != want:
            return bad("violation", f"group-sorted layout {got[:6]} != flat numbers re-arranged {want[:6]}")
        res.update(verdict="ok", detail=None)
        return res
    got = canon(out, temporal)
    if len(got) != L:
        return bad("violation", f"result has {len(got)} rows, input {L}")
    def same(exp):
        if len(exp) != len(got):
            return False
        for e, g in zip(exp, got):
            if isinstance(e, tuple):
                if g == "_" or abs(Fraction(g) - e[1]) >= 1:
                    return False
            elif e != g:
                return False
        return True

    if not same(expected(ans["spec"], temporal)):
        return bad("violation", got)
    if not same(expected(ans["model"], temporal)):
        return bad("disagreement", got)
    res.update(verdict="ok", detail=None)
    return res


def shrink_candidates(case):
    if case.get("big"):
        return
    L = len(case["codes"])
    if case["mask"] is not None:
        yield {**case, "mask": None}
    if case.get("container") == "series":
        yield {**case, "container": "ndarray"}
    if case["level"] == "public" and not case["by_groups"]:
        yield {**case, "level": "kernel"}
    for i in range(L):
        c = dict(case)
        c["codes"] = case["codes"][:i] + case["codes"][i + 1:]
        c["vals"] = case["vals"][:i] + case["vals"][i + 1:]
        if case["mask"] is not None:
            c["mask"] = ("b", case["mask"][1][:i] + case["mask"][1][i + 1:])
        yield c
    if case["window"] > 1:
        yield {**case, "window": case["window"] - 1, "minp": min(case["minp"], case["window"] - 1)}
    if case["minp"] > 1:
        yield {**case, "minp": case["minp"] - 1}


def main(tier, seed):
    return apirun.run_property(sys.modules[__name__], tier, seed)


def replay(path):
    return apirun.replay_property(sys.modules[__name__], path)
