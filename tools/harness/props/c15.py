"""C15 — head/tail/nth select exactly the requested rows of each group."""
from __future__ import annotations

import sys

from .. import apirun, common

PID = "C15"
MODULES = ["GroupbyVerif.Props.C15", "GroupbyVerif.LoopBridge.FindNth", "GroupbyVerif.LoopBridge.FirstLast"]
RULE = ("kernel level: _find_nth / _find_first_or_last_n on random interleavings of <= 3 groups with null codes, n from 0 to beyond the largest "
        "group, negative n, forward and backward, plus groups of 32766..32770, 65534..65538 and 70000 rows in BOTH tiers; public level: "
        "GroupBy.head/tail/nth(keep_input_index=True) with 1-D and multi-column values, default / non-monotonic / duplicated index, sort on/off, float keys or (30 %) categorical keys with 1-12 unused categories / boolean keys; three keys of 1.2-1.3 million rows with a group that has fewer than n rows in the last stretch; "
        "non-trivial = at least 2 rows in some group; distinct = distinct (codes, n, op, level, index kind)")
ASSUMPTIONS = ["codes < ngroups", "row identity at the public level is established through unique per-row values"]
MAX_WORKERS = 8


def setup_worker():
    from ..numba_env import import_lib
    import_lib()


def fix_case(c):
    return c


def rle(codes):
    out, i = [], 0
    while i < len(codes):
        j = i
        while j < len(codes) and codes[j] == codes[i]:
            j += 1
        out.append(f"{codes[i]}*{j - i}" if j - i > 3 else ",".join(str(codes[i]) for _ in range(j - i)))
        i = j
    return ",".join(out)


def expand(spec):
    """codes given as list of [value, repeat] pairs or plain ints"""
    out = []
    for x in spec:
        if isinstance(x, list):
            out.extend([x[0]] * x[1])
        else:
            out.append(x)
    return out


def gen_cases(tier, rng):
    for c in common.load_corpus(PID):
        yield c
    # boundary sizes of the per-group counter, both tiers
    for size in [32766, 32767, 32768, 32769, 32770, 65534, 65535, 65536, 65537, 65538, 70000]:
        for op, n in [("nth", size - 1), ("nth", 40000 if size > 40000 else size - 2), ("nth", -1), ("nth", -size), ("nth", 0),
                      ("head", 3), ("tail", 3), ("head", size), ("tail", size - 1)]:
            yield dict(level="kernel", op=op, n=n, codes=[[0, size], 1, 1, -1, [0, 1]], ng=2)
    yield dict(level="public", op="nth", n=40000, codes=[[0, 70000], 1, 1, -1], ng=2, index="default", ncols=1, sort=True)
    yield dict(level="public", op="nth", n=-1, codes=[[0, 70000], 1, 1, -1], ng=2, index="default", ncols=1, sort=True)
    yield dict(level="public", op="head", n=33000, codes=[[0, 40000], 1, 1, -1], ng=2, index="default", ncols=1, sort=True)
    # long keys (row selection of more than a million rows): a group with fewer than n rows in the last stretch of the key
    yield dict(level="public", op="tail", n=2, codes=[[0, 400000], [1, 400000], 2, [0, 300000], 1, [0, 200000]], ng=3, index="default", ncols=1, sort=True)
    yield dict(level="public", op="tail", n=3, codes=[[0, 500000], [1, 300000], 2, 2, [0, 300000], 1, [0, 200000], -1], ng=3, index="default", ncols=1, sort=True)
    yield dict(level="public", op="head", n=3, codes=[1, [0, 500000], 2, [0, 500000], 1, [0, 200000], 2], ng=3, index="default", ncols=1, sort=True)
    n_small = 1500 if tier == "quick" else 30000
    for _ in range(n_small):
        L = rng.randint(0, 14)
        ng = rng.randint(1, 3)
        codes = [rng.choice([-1] + list(range(ng))) if rng.random() < 0.85 else -1 for _ in range(L)]
        op = rng.choice(["nth", "head", "tail"])
        n = rng.randint(-L - 1, L + 1) if op == "nth" else rng.randint(0, L + 1)
        level = rng.choice(["kernel", "public", "public"])
        case = dict(level=level, op=op, n=n, codes=codes, ng=ng)
        if level == "public":
            case.update(index=rng.choice(["default", "nonmono", "dup"]), ncols=rng.choice([1, 1, 2]), sort=rng.random() < 0.7)
            if rng.random() < 0.3:
                # groups without any row: a categorical key with unused categories, or a boolean key with one value only
                if ng <= 2 and -1 not in codes and rng.random() < 0.4:
                    case["kclass"] = "bool"
                else:
                    case.update(kclass="cat", unused=rng.choice([1, 3, 12]))
        yield case


def spec_from_driver(case, drv, codes):
    if case["op"] == "nth":
        ans = drv.ask(f"nth codes={rle(codes)} ng={case['ng']} n={case['n']}")
        spec = [[int(x)] for x in ans["spec"].split(",")] if ans["spec"] else []
        model = None if ans["model"] == "assert" else ([[int(x)] for x in ans["model"].split(",")] if ans["model"] else [])
        return spec, model, ans
    fwd = 1 if case["op"] == "head" else 0
    if case["n"] > 2000 or len(codes) > 200000:
        # the list-based model is quadratic in n: for the large-n boundary cases the specification
        # (first / last n positions of each group, -1 padded) is computed here directly
        n = case["n"]
        spec = []
        for g in range(case["ng"]):
            ps = [i for i, c in enumerate(codes) if c == g]
            row = ps[:n] + [-1] * (n - len(ps[:n])) if fwd else [-1] * (n - len(ps[-n:])) + ps[-n:]
            spec.append(row)
        return spec, spec, {"spec": "python-oracle(first/last n positions)", "model": "skipped(large n)", "w": "-"}
    ans = drv.ask(f"firstlast codes={rle(codes)} ng={case['ng']} n={case['n']} fwd={fwd}")

    def parse(tok):
        if tok == "-":
            return [[] for _ in range(case["ng"])]
        return [[int(x) for x in row.split(",")] if row else [] for row in tok.split("|")]
    return parse(ans["spec"]), parse(ans["model"]), ans


def evaluate(case, drv):
    import numpy as np
    import pandas as pd
    from groupby_lib.groupby import numba as nbk
    from groupby_lib.groupby.core import GroupBy

    codes = expand(case["codes"])
    L = len(codes)
    spec, model, ans = spec_from_driver(case, drv, codes)
    key = repr((case["codes"], case["n"], case["op"], case["level"], case.get("index"), case.get("ncols"), case.get("sort"), case.get("kclass"), case.get("unused")))
    sizes = [codes.count(g) for g in range(case["ng"])]
    res = dict(tags=[f"level:{case['level']}", f"op:{case['op']}", "n:" + ("neg" if case["n"] < 0 else "zero" if case["n"] == 0 else "pos"),
                     "large" if L > 1000 else "small", f"w:{ans.get('w')}", f"keys:{case.get('kclass', 'float')}"],
               size=L if L < 100 else (L // 1000) * 1000, key=key, nontrivial=max(sizes + [0]) >= 2,
               bucket=(case["level"], case["op"], "large" if L > 1000 else "small", case.get("index")))

    def bad(verdict, actual, **kw):
        res.update(verdict=verdict, detail=dict(case=case, expected=ans["spec"][:300], actual=str(actual)[:400], model=ans["model"][:300], **kw))
        return res

    arr = np.array(codes, dtype=np.int64)
    if case["level"] == "kernel":
        try:
            if case["op"] == "nth":
                out = nbk._find_nth(arr, case["ng"], case["n"])
                got = [[int(x)] for x in out]
            else:
                out = nbk._find_first_or_last_n(arr, case["ng"], case["n"], None, case["op"] == "head")
                got = [[int(x) for x in row] for row in np.asarray(out)]
        except Exception as e:  # noqa
            got = f"error:{type(e).__name__}"
        if got != spec:
            return bad("violation", got)
        if model is not None and got != model:
            return bad("disagreement", got)
        if model is None:
            return bad("disagreement", got, note="model asserts, implementation does not")
        res.update(verdict="ok", detail=None)
        return res
    # public level: keys = codes mapped to floats (null for -1), unique values identify rows
    keys = np.array([np.nan if c < 0 else c + 0.5 for c in codes])
    if case.get("kclass") == "cat":
        keys = pd.Categorical.from_codes(np.array(codes, dtype=np.int64), categories=[g + 0.5 for g in range(case["ng"] + case["unused"])])
    elif case.get("kclass") == "bool":
        keys = np.array([c == 1 for c in codes], dtype=bool)
    if case["index"] == "default":
        index = None
    elif case["index"] == "nonmono":
        index = pd.Index([(i * 7 + 3) % max(L, 1) + 100 * (i % 2) for i in range(L)])
    else:
        index = pd.Index([i // 2 for i in range(L)][::-1])
    v0 = np.arange(L, dtype=np.float64) * 10 + 1
    if case["ncols"] == 1:
        values = v0 if index is None else pd.Series(v0, index=index, name="v")
    else:
        values = pd.DataFrame({"a": v0, "b": -v0}, index=index if index is not None else None)
    if index is not None:
        keys_in = pd.Series(keys, index=index, name="k")
    else:
        keys_in = keys
    try:
        gb = GroupBy(keys_in, sort=case["sort"])
        out = getattr(gb, case["op"])(values, case["n"], keep_input_index=True)
    except Exception as e:  # noqa
        return bad("violation", f"error:{type(e).__name__}: {str(e)[:150]}")
    want = sorted(p for row in spec for p in row if p >= 0)
    idx_labels = list(range(L)) if index is None else list(index)
    if isinstance(out, pd.DataFrame):
        col0 = out.iloc[:, 0].to_numpy()
        if out.shape[1] == 2 and not np.array_equal(out.iloc[:, 1].to_numpy(), -col0):
            return bad("violation", "second column does not belong to the same rows")
    else:
        col0 = np.asarray(out)
    got_pos = [int(round((v - 1) / 10)) for v in col0]
    if any(abs(v - (p * 10 + 1)) > 1e-9 for v, p in zip(col0, got_pos)):
        return bad("violation", f"values modified: {list(col0)[:10]}")
    if sorted(got_pos) != want:
        return bad("violation", f"selected positions {sorted(got_pos)[:20]}... (n={len(got_pos)}) != expected {want[:20]}... (n={len(want)})")
    if list(out.index) != [idx_labels[p] for p in got_pos]:
        return bad("violation", f"index labels {list(out.index)[:10]} do not belong to the selected rows {got_pos[:10]}")
    for g in range(case["ng"]):
        sub = [p for p in got_pos if codes[p] == g]
        if sub != sorted(sub):
            return bad("violation", f"rows of group {g} not in original relative order: {sub[:10]}")
    res.update(verdict="ok", detail=None)
    return res


def shrink_candidates(case):
    codes = expand(case["codes"])
    if len(codes) > 200:
        return
    for i in range(len(codes)):
        yield {**case, "codes": codes[:i] + codes[i + 1:]}
    if case.get("ncols", 1) > 1:
        yield {**case, "ncols": 1}
    if case.get("index") not in (None, "default"):
        yield {**case, "index": "default"}
    if abs(case["n"]) > 1:
        yield {**case, "n": case["n"] - 1 if case["n"] > 0 else case["n"] + 1}


def main(tier, seed):
    return apirun.run_property(sys.modules[__name__], tier, seed)


def replay(path):
    return apirun.replay_property(sys.modules[__name__], path)
