"""C12 — Same data in any supported container or dtype gives the same answer."""
from __future__ import annotations

import sys

from .. import apirun, common
from ..containers import NUMPY_NULLABLE, VDT, wrap

PID = "C12"
MODULES = ["GroupbyVerif.Props.C12"]
RULE = ("seeded random logical datasets (1-2 keys of dtype i64 / f64 / str / bool / M8[ns] with nulls, <= 26 rows; values of 19 dtype classes: f64 f32, "
        "i8..i64, u8..u64, bool, datetime64 s/ms/us/ns, tz-aware ns/us, timedelta64 s/us/ns, with nulls where the dtype has them, integers up to 2**61) x "
        "operation (11 reductions, transform, cumulative, rolling, shift/diff, ema, head/tail/nth) x 3-4 random ARRANGEMENTS of the same data: key container "
        "in {ndarray, strided view, pd.Series (plain / indexed / arrow-backed), pd.Index, pd.Categorical, pl.Series, pa.Array, pa.ChunkedArray with arbitrary "
        "chunk boundaries, pa dictionary, list} x value container in {ndarray, strided view, pd.Series (plain / indexed / arrow-backed / arrow-chunked), "
        "pd.Index, pl.Series, pa.Array, pa.ChunkedArray (boundaries independent of the key chunks), DataFrame / polars frame column} x scaled chunk-wise "
        "factorization threshold x 1/3 threads; checked: every arrangement gives the same labels and numbers (exactly for integer / boolean / temporal "
        "results, 1e-9 for floats); min/max/first/last/cummin/cummax (and temporal shift / rolling min / max) equal the element computed from the logical "
        "data and keep the input's dtype class (width, unit, time zone) whenever the result has no null the dtype cannot hold; integer sums equal the exact "
        "Python integer sum; non-trivial = >= 2 groups and >= 2 arrangements that differ in container; distinct = distinct (dataset, op, arrangements)")
ASSUMPTIONS = ["integer dtypes holding nulls exist only in arrow / polars containers: such datasets are compared across those containers, without the dtype rule",
               "polars has no second resolution: datetime64[s] / timedelta64[s] values are not put into polars containers"]
MAX_WORKERS = 12

REDUCTIONS = ["size", "count", "sum", "mean", "min", "max", "first", "last", "var", "std", "median"]
SELECTION = {"min", "max", "first", "last", "cummin", "cummax"}
ROW_OPS = ["cumsum", "cummin", "cummax", "cumcount", "rolling_sum", "rolling_mean", "rolling_min", "rolling_max", "shift", "diff", "ema"]
SELECT_OPS = ["head", "tail", "nth"]
TRANSFORMS = ["T:sum", "T:min", "T:max", "T:first", "T:last", "T:count", "T:mean"]
ALL_OPS = REDUCTIONS + ROW_OPS + SELECT_OPS + TRANSFORMS
NUMERIC_ONLY = {"sum", "mean", "var", "std", "median", "cumsum", "rolling_sum", "rolling_mean", "ema", "T:sum", "T:mean"}
KEY_DTYPES = ["i64", "f64", "str", "bool", "M8ns"]
VAL_DTYPES = list(VDT)
KEY_CONTAINERS = ["ndarray", "ndarray_strided", "pd_series", "pd_series_indexed", "pd_series_arrow", "pd_index", "pd_index_arrow", "pd_categorical", "pl_series", "pa_array",
                  "pa_chunked", "pa_dictionary", "list"]
VAL_CONTAINERS = ["ndarray", "ndarray_strided", "pd_series", "pd_series_indexed", "pd_series_arrow", "pd_series_arrow_chunked", "pd_index", "pd_index_arrow", "pl_series",
                  "pa_array", "pa_chunked", "frame_col", "pl_frame_col"]
NULLABLE_ONLY = {"pd_index_arrow", "pd_series_arrow", "pd_series_arrow_chunked", "pl_series", "pa_array", "pa_chunked", "pl_frame_col"}
STR = ["ka", "kb", "kc", "kd", "ke"]
TEMPORAL = {k for k in VDT if k[0] in "Mm"}
INTS = {"i8", "i16", "i32", "i64", "u8", "u16", "u32", "u64"}


def setup_worker():
    from ..numba_env import import_lib
    import_lib()


def fix_case(c):
    return c


def shard_of(case):
    return f"{case['vdt']}|{case['op']}"


def _chunks(rng, n):
    k = rng.choice([1, 2, 3])
    cuts = sorted(rng.randint(0, n) for _ in range(k - 1))
    return [b - a for a, b in zip([0] + cuts, cuts + [n])]


def val_container_ok(vc, vdt, has_null):
    if has_null and vdt not in NUMPY_NULLABLE and vc not in NULLABLE_ONLY:
        return False
    if vdt in ("M8s", "m8s") and vc in ("pl_series", "pl_frame_col"):
        return False
    if vdt.endswith("_tz") and vc in ("ndarray", "ndarray_strided"):
        return False
    if vdt == "bool" and vc == "ndarray_strided":
        return True
    return True


def gen_cases(tier, rng):
    for c in common.load_corpus(PID):
        yield fix_case(c)
    total = 1500 if tier == "quick" else 30000
    for _ in range(total):
        n = rng.choice([1, 2, 3, 5, 8, 9, 12, 17, 26])
        nkeys = rng.choice([1, 1, 1, 2])
        kdts = [rng.choice(KEY_DTYPES) for _ in range(nkeys)]
        keys = []
        for kd in kdts:
            hi = 2 if kd == "bool" else rng.randint(1, 4)
            col = sorted(rng.randrange(hi) for _ in range(n)) if rng.random() < 0.2 else [rng.randrange(hi) for _ in range(n)]
            if kd in ("f64", "M8ns", "str") and rng.random() < 0.4:
                col = [None if rng.random() < 0.2 else v for v in col]
            keys.append(col)
        op = rng.choice(ALL_OPS)
        vdt = rng.choice(VAL_DTYPES)
        if op in NUMERIC_ONLY and (vdt in TEMPORAL or vdt == "bool"):
            vdt = rng.choice(["f64", "f32", "i64", "i32", "i8", "u8", "u32", "u64"])
        if op in ("var", "std", "median", "ema") and vdt not in ("f64",):
            vdt = "f64"
        if vdt == "bool":
            alpha = [0, 1]
        elif vdt in ("i8", "u8"):
            alpha = [1, 2, 3, 7, 100]
        elif vdt == "u64" and rng.random() < 0.25:
            alpha = [2 ** 63 + 5, 2 ** 64 - 2, 7, 2 ** 63]              # beyond the signed range
        elif vdt in ("i64", "u64") and rng.random() < 0.5:
            alpha = [2 ** 61 + 1, 2 ** 60 + 3, 5, 2 ** 53 + 1]          # exact only in integer arithmetic
        elif vdt in TEMPORAL:
            alpha = [1, 2, 3, 7, 1_000_003, 1_600_000_000_123_457]
        else:
            alpha = [1, 2, 3, 7, 25]
        if vdt[0] == "i" and rng.random() < 0.4 and alpha[0] < 2 ** 50:
            alpha = alpha + [-a for a in alpha]
        vals = [rng.choice(alpha) for _ in range(n)]
        if rng.random() < 0.5:
            vals = [None if rng.random() < 0.25 else v for v in vals]
        has_null = any(v is None for v in vals)
        arrangements = []
        ok_vals = [vc for vc in VAL_CONTAINERS if val_container_ok(vc, vdt, has_null)]
        for j in range(rng.choice([3, 3, 4])):
            kconts = []
            for kd in kdts:
                ok = [c for c in KEY_CONTAINERS if not (kd == "str" and c == "ndarray_strided") and not (kd == "bool" and c == "pa_dictionary")]
                kconts.append("ndarray" if (j == 0 and kd != "str") else rng.choice(ok))
            vc = ok_vals[0] if j == 0 else rng.choice(ok_vals)
            arrangements.append(dict(kconts=kconts, kchunks=[_chunks(rng, n) for _ in kdts], vcont=vc, vchunks=_chunks(rng, n),
                                     small_threshold=rng.random() < 0.3, threads=rng.choice([1, 1, 3])))
        mask = None
        if rng.random() < 0.3:
            mask = [rng.random() < 0.7 for _ in range(n)]
        yield dict(n=n, keys=keys, kdts=kdts, vals=vals, vdt=vdt, op=op, arrangements=arrangements, mask=mask, sort=rng.random() < 0.8, window=rng.choice([1, 2, 3]))


# ------------------------------------------------------------------------------------------------
def dtype_class(dt):
    """canonical dtype class of a numpy / pandas / arrow / polars dtype"""
    import numpy as np
    import pandas as pd
    import polars as pl
    import pyarrow as pa
    if isinstance(dt, pd.ArrowDtype):
        dt = dt.pyarrow_dtype
    if isinstance(dt, pa.DataType):
        if pa.types.is_timestamp(dt):
            return f"M8{dt.unit}" + ("_tz" if dt.tz else "")
        if pa.types.is_duration(dt):
            return f"m8{dt.unit}"
        if pa.types.is_boolean(dt):
            return "bool"
        m = {"double": "f64", "float": "f32", "int8": "i8", "int16": "i16", "int32": "i32", "int64": "i64", "uint8": "u8", "uint16": "u16", "uint32": "u32",
             "uint64": "u64"}
        return m.get(str(dt), str(dt))
    if isinstance(dt, pd.DatetimeTZDtype):
        return f"M8{dt.unit}_tz"
    if isinstance(dt, np.dtype):
        if dt.kind == "M":
            return "M8" + np.datetime_data(dt)[0]
        if dt.kind == "m":
            return "m8" + np.datetime_data(dt)[0]
        if dt.kind == "b":
            return "bool"
        if dt.kind in "iuf":
            return f"{dt.kind}{dt.itemsize * 8}"
        return str(dt)
    if isinstance(dt, pl.DataType) or (isinstance(dt, type) and issubclass(dt, pl.DataType)):
        if dt == pl.Boolean:
            return "bool"
        if isinstance(dt, pl.Datetime):
            return f"M8{dt.time_unit}" + ("_tz" if dt.time_zone else "")
        if isinstance(dt, pl.Duration):
            return f"m8{dt.time_unit}"
        m = {"Float64": "f64", "Float32": "f32", "Int8": "i8", "Int16": "i16", "Int32": "i32", "Int64": "i64", "UInt8": "u8", "UInt16": "u16", "UInt32": "u32",
             "UInt64": "u64"}
        return m.get(str(dt), str(dt))
    return str(dt)


def canon_column(res):
    """-> (python values with None for null, dtype class); temporal values as integers in the column's own unit"""
    import math

    import numpy as np
    import pandas as pd
    import polars as pl
    import pyarrow as pa
    if isinstance(res, pl.Series):
        cls = dtype_class(res.dtype)
        arr = res.to_arrow()
        if isinstance(arr, pa.ChunkedArray):
            arr = arr.combine_chunks()
        return _canon_arrow(arr), cls
    if isinstance(res, (pd.Series, pd.Index)):
        dt = res.dtype
        cls = dtype_class(dt)
        if isinstance(dt, pd.ArrowDtype):
            arr = res.array._pa_array
            if isinstance(arr, pa.ChunkedArray):
                arr = arr.combine_chunks()
            return _canon_arrow(arr), cls
        if isinstance(dt, pd.DatetimeTZDtype):
            raw = np.asarray(res.array.asi8)
            return [None if v == -(2 ** 63) else int(v) for v in raw], cls
        res = res.to_numpy()
    if isinstance(res, (pa.Array, pa.ChunkedArray)):
        arr = res.combine_chunks() if isinstance(res, pa.ChunkedArray) else res
        return _canon_arrow(arr), dtype_class(arr.type)
    res = np.asarray(res)
    cls = dtype_class(res.dtype)
    if res.dtype.kind in "mM":
        return [None if v == -(2 ** 63) else int(v) for v in res.view("int64")], cls
    if res.dtype.kind == "f":
        return [None if math.isnan(v) else (int(v) if float(v).is_integer() and abs(v) < 2 ** 63 else float(v)) for v in res.tolist()], cls
    if res.dtype.kind in "iub":
        return [int(v) for v in res.tolist()], cls
    return [None if (v is None or v is pd.NaT or (isinstance(v, float) and math.isnan(v))) else v for v in res.tolist()], cls


def _canon_arrow(arr):
    import math

    import pyarrow as pa
    t = arr.type
    if pa.types.is_timestamp(t) or pa.types.is_duration(t):
        return arr.cast(pa.int64()).to_pylist()
    out = arr.to_pylist()
    if pa.types.is_floating(t):
        return [None if (v is None or math.isnan(v)) else (int(v) if float(v).is_integer() and abs(v) < 2 ** 63 else v) for v in out]
    if pa.types.is_boolean(t):
        return [None if v is None else int(v) for v in out]
    return out


def same_number(a, b):
    if a is None or b is None:
        return a is None and b is None
    if isinstance(a, float) or isinstance(b, float):
        return abs(a - b) <= 1e-9 * max(1.0, abs(a), abs(b))
    return a == b


def evaluate(case, drv):
    import numpy as np
    import pandas as pd
    import polars as pl
    import pyarrow as pa
    from groupby_lib.groupby import core as core_mod
    from groupby_lib.groupby.core import GroupBy
    from .c19 import build_key

    n, op, vdt = case["n"], case["op"], case["vdt"]
    key = repr(sorted((k, str(v)) for k, v in case.items()))
    sel = [True] * n if case["mask"] is None else case["mask"]
    row_key = [None if any(col[i] is None for col in case["keys"]) else tuple(col[i] for col in case["keys"]) for i in range(n)]
    groups = {}
    for i in range(n):
        if sel[i] and row_key[i] is not None:
            groups.setdefault(row_key[i], []).append(i)
    conts = {(tuple(a["kconts"]), a["vcont"]) for a in case["arrangements"]}
    res = dict(tags=[f"op:{op}", f"vdt:{vdt}", "nulls" if any(v is None for v in case["vals"]) else "no-nulls", "mask" if case["mask"] else "nomask"]
               + [f"vcont:{a['vcont']}" for a in case["arrangements"]] + [f"kcont:{c}" for a in case["arrangements"] for c in a["kconts"]],
               size=n, key=key, nontrivial=len(groups) >= 2 and len(conts) >= 2, bucket=(op, vdt, case["arrangements"][1]["vcont"], case["arrangements"][1]["kconts"][0]))

    def bad(exp, act, **kw):
        res.update(verdict="violation", detail=dict(case=case, expected=str(exp)[:500], actual=str(act)[:500], **kw))
        return res

    def decode_labels(index, kdts):
        out = []
        for lab in index:
            if not isinstance(lab, tuple):
                lab = (lab,)
            dec = []
            for x, kd in zip(lab, kdts):
                if kd == "str":
                    dec.append(STR.index(x))
                elif kd == "bool":
                    dec.append(int(bool(x)))
                elif kd == "M8ns":
                    dec.append(int(pd.Timestamp(x).value))
                elif kd == "f64":
                    dec.append(int(round(float(x))))
                else:
                    dec.append(int(x))
            out.append(tuple(dec))
        return out

    def run(arr):
        index = pd.Index([f"r{(i * 7) % max(n, 1)}_{i}" for i in range(n)])
        any_indexed = any(c == "pd_series_indexed" for c in arr["kconts"]) or arr["vcont"] == "pd_series_indexed"
        key_objs = []
        for j, (col, kd, kc, ch) in enumerate(zip(case["keys"], case["kdts"], arr["kconts"], arr["kchunks"])):
            if any_indexed and kc in ("pd_series", "pd_series_arrow", "pd_categorical"):
                kc = "pd_series_indexed" if kc == "pd_series" else kc
            o, _ = build_key(col, kd, kc, ch, f"k{j}", index)
            if any_indexed and isinstance(o, pd.Series) and not o.index.equals(index):
                o = o.set_axis(index)
            key_objs.append(o)
        keys = key_objs[0] if len(key_objs) == 1 else key_objs
        vc = arr["vcont"]
        base_kind = {"frame_col": "pd_series", "pl_frame_col": "pl_series"}.get(vc, vc)
        if any_indexed and base_kind == "pd_series":
            base_kind = "pd_series_indexed"
        v, _ = wrap(case["vals"], vdt, base_kind, chunks=arr["vchunks"], name="v", index=index)
        if any_indexed and isinstance(v, pd.Series) and not v.index.equals(index):
            v = v.set_axis(index)
        if vc == "frame_col":
            values = pd.DataFrame({"v": v})
        elif vc == "pl_frame_col":
            values = pl.DataFrame({"v": v})
        else:
            values = v
        mask = None if case["mask"] is None else np.array(case["mask"], dtype=bool)
        if mask is not None and any_indexed and any(isinstance(k, pd.Series) for k in key_objs):
            mask = pd.Series(mask, index=index)
        old_thr = core_mod.THRESHOLD_FOR_CHUNKED_FACTORIZE
        old_threads = GroupBy.__dict__.get("_max_threads_for_numba")
        try:
            if arr["small_threshold"]:
                core_mod.THRESHOLD_FOR_CHUNKED_FACTORIZE = 8
            if arr["threads"] > 1:
                GroupBy._max_threads_for_numba = property(lambda self: arr["threads"])
            gb = GroupBy(keys, sort=case["sort"])
            if op == "size":
                r = gb.size(mask=mask)
            elif op == "cumcount":
                r = gb.cumcount(mask=mask)
            elif op.startswith("T:"):
                r = getattr(gb, op[2:])(values, mask=mask, transform=True)
            elif op in REDUCTIONS or op in ("cumsum", "cummin", "cummax"):
                r = getattr(gb, op)(values, mask=mask)
            elif op.startswith("rolling_"):
                r = getattr(gb, op)(values, window=case["window"], min_periods=1, mask=mask)
            elif op in ("shift", "diff"):
                r = getattr(gb, op)(values, window=case["window"], mask=mask)
            elif op == "ema":
                r = gb.ema(values, alpha=0.5, mask=mask)
            elif op in ("head", "tail"):
                r = getattr(gb, op)(values, 2, keep_input_index=True)
            elif op == "nth":
                r = gb.nth(values, 1, keep_input_index=True)
            else:
                raise ValueError(op)
        finally:
            core_mod.THRESHOLD_FOR_CHUNKED_FACTORIZE = old_thr
            if old_threads is not None:
                GroupBy._max_threads_for_numba = old_threads
        if isinstance(r, pd.DataFrame):
            if r.shape[1] != 1:
                raise AssertionError(f"one input column, {r.shape[1]} result columns")
            r = r.iloc[:, 0]
        elif isinstance(r, pl.DataFrame):
            r = r.to_series(0)
        vals_out, cls = canon_column(r)
        if op in REDUCTIONS:
            labels = decode_labels(r.index, case["kdts"])
            return ("labels", sorted(zip(labels, vals_out), key=lambda t: t[0]), cls)
        if op in SELECT_OPS:
            pos = [int(str(x).split("_")[-1]) if isinstance(x, str) else int(x) for x in r.index] if hasattr(r, "index") else list(range(len(vals_out)))
            return ("select", sorted(zip(pos, vals_out)), cls)
        return ("rows", vals_out, cls)

    observations = []
    for arr in case["arrangements"]:
        try:
            observations.append(run(arr))
        except Exception as e:  # noqa
            import traceback
            observations.append(("error", f"{type(e).__name__}: {str(e)[:160]}", traceback.format_exc()[-400:]))
    res["observed"] = [str(o)[:160] for o in observations]
    # ---- 1. every arrangement gives the same answer ----
    base = observations[0]
    for arr, o in zip(case["arrangements"], observations):
        if (o[0] == "error") != (base[0] == "error"):
            return bad(f"arrangement {case['arrangements'][0]['kconts']}/{case['arrangements'][0]['vcont']}: {str(base)[:200]}",
                       f"arrangement {arr['kconts']}/{arr['vcont']}: {str(o)[:300]}", arrangement=arr, note="one container is rejected, another is accepted")
    if base[0] == "error":
        res.update(verdict="ok", detail=None, tags=res["tags"] + ["all-rejected"])
        res["nontrivial"] = False
        return res
    for arr, o in zip(case["arrangements"][1:], observations[1:]):
        a, b = base[1], o[1]
        if base[0] in ("labels", "select"):
            okk = len(a) == len(b) and all(x[0] == y[0] and same_number(x[1], y[1]) for x, y in zip(a, b))
        else:
            okk = len(a) == len(b) and all(same_number(x, y) for x, y in zip(a, b))
        if not okk:
            return bad(f"{case['arrangements'][0]['kconts']}/{case['arrangements'][0]['vcont']}: {a}", f"{arr['kconts']}/{arr['vcont']}: {b}", arrangement=arr,
                       note="same data, different container: different labels / numbers", exp_list=[x[1] if base[0] != "rows" else x for x in a],
                       got_list=[x[1] if base[0] != "rows" else x for x in b], same_shape=len(a) == len(b) and (base[0] == "rows" or all(x[0] == y[0] for x, y in zip(a, b))))
    # ---- 2. exactness and dtype of selection-type results, exact integer sums ----
    vals = case["vals"]
    for arr, o in zip(case["arrangements"], observations):
        kind, data, cls = o
        has_null_out = any((x[1] if kind in ("labels", "select") else x) is None for x in data)
        bare = op[2:] if op.startswith("T:") else op
        if bare in ("min", "max", "first", "last") and kind == "labels":
            for lab, got in data:
                xs = [vals[i] for i in groups.get(lab, []) if vals[i] is not None]
                exp = None if not xs else (min(xs) if bare == "min" else max(xs) if bare == "max" else xs[0] if bare == "first" else xs[-1])
                if got != exp and not (exp is None and got is not None and vdt in INTS | {"bool"}):
                    return bad(f"{bare} of group {lab} = {exp} (an element of the input)", got, arrangement=arr, exp_num=exp, got_num=got)
        if op in ("cummin", "cummax") and kind == "rows":
            run_ = {}
            for i in range(n):
                if not sel[i] or row_key[i] is None:
                    continue
                cur = run_.get(row_key[i])
                if vals[i] is not None:
                    cur = vals[i] if cur is None else (min(cur, vals[i]) if op == "cummin" else max(cur, vals[i]))
                    run_[row_key[i]] = cur
                if data[i] != cur and not (cur is None and vdt in INTS | {"bool"}):
                    return bad(f"{op} at row {i} = {cur}", data[i], arrangement=arr, exp_num=cur, got_num=data[i])
        if op == "shift" and kind == "rows" and vdt in TEMPORAL:     # (integers are shifted into a float column, like pandas: not claimed exact)
            hist = {}
            for i in range(n):
                if not sel[i] or row_key[i] is None:
                    continue
                h = hist.setdefault(row_key[i], [])
                exp = h[-case["window"]] if len(h) >= case["window"] else None
                h.append(vals[i])
                if data[i] != exp:
                    return bad(f"shift at row {i} = {exp}", data[i], arrangement=arr, exp_num=exp, got_num=data[i])
        if op in ("rolling_min", "rolling_max") and kind == "rows" and vdt in TEMPORAL:
            hist = {}
            for i in range(n):
                if not sel[i] or row_key[i] is None:
                    continue
                h = hist.setdefault(row_key[i], [])
                h.append(vals[i])
                w = [x for x in h[-case["window"]:] if x is not None]
                exp = None if not w else (min(w) if op == "rolling_min" else max(w))
                if data[i] != exp:
                    return bad(f"{op} at row {i} = {exp}", data[i], arrangement=arr)
        if bare == "sum" and kind == "labels" and vdt in INTS and not any(v is None for v in vals):
            for lab, got in data:
                exp = sum(vals[i] for i in groups.get(lab, []))
                lim = 2 ** 64 if vdt[0] == "u" else 2 ** 63
                if abs(exp) < lim and got != exp:
                    return bad(f"integer sum of group {lab} = {exp} exactly", got, arrangement=arr, exp_num=exp, got_num=got)
        # dtype class: selection results keep it (when the result holds no null the dtype cannot represent)
        if bare in SELECTION or (op == "shift" and vdt in TEMPORAL) or (op in ("rolling_min", "rolling_max") and vdt in TEMPORAL) or op in SELECT_OPS:
            int_with_null = vdt in INTS | {"bool"} and (has_null_out or any(v is None for v in vals) or not data or op == "shift"
                                                           or bare in ("cummin", "cummax") or op.startswith("T:"))
            if not int_with_null and cls != vdt and not (not data):
                return bad(f"result of dtype class {vdt} (the input's)", cls, arrangement=arr, note="selection-type result does not keep the dtype")
    res.update(verdict="ok", detail=None)
    return res


def _known_nullable_int_as_float(v):
    """integers holding nulls reach the kernels as float64 (arrow / polars containers): values beyond 2**53 are rounded"""
    c = v.get("case", {})
    e, g = v.get("exp_num"), v.get("got_num")
    if c.get("vdt") not in INTS or not any(x is None for x in c.get("vals", [])):
        return False
    if v.get("exp_list") is not None:
        # two containers disagree only by that rounding (one path keeps the integers, e.g. head/tail/nth of an arrow-backed Series)
        el, gl = v["exp_list"], v.get("got_list") or []
        if not v.get("same_shape") or len(el) != len(gl):
            return False
        diff = [(x, y) for x, y in zip(el, gl) if x != y]
        # ... or by a few units in the last place of float64 when the rounded values are then ADDED in a different order
        # (sum / mean of such a column with another thread split): still the float64 detour of integers beyond 2**53
        return bool(diff) and all(isinstance(x, (int, float)) and isinstance(y, (int, float)) and max(abs(x), abs(y)) > 2 ** 53
                                  and (float(x) == float(y) or abs(x - y) <= max(abs(x), abs(y)) * 2.0 ** -49)
                                  for x, y in diff)
    if not isinstance(e, int) or not isinstance(g, (int, float)) or abs(e) <= 2 ** 53:
        return False
    return (v.get("arrangement") or {}).get("vcont") in NULLABLE_ONLY and float(e) == float(g)


KNOWN_MATCHERS = {"C12-nullable-int-rounded-through-float": _known_nullable_int_as_float}


def shrink_candidates(case):
    if len(case["arrangements"]) > 2:
        for i in range(1, len(case["arrangements"])):
            yield {**case, "arrangements": case["arrangements"][:i] + case["arrangements"][i + 1:]}
    if case["mask"] is not None:
        yield {**case, "mask": None}
    for j, a in enumerate(case["arrangements"]):
        if a["small_threshold"] or a["threads"] != 1:
            arrs = list(case["arrangements"])
            arrs[j] = {**a, "small_threshold": False, "threads": 1}
            yield {**case, "arrangements": arrs}
    if len(case["keys"]) > 1:
        yield {**case, "keys": case["keys"][:1], "kdts": case["kdts"][:1],
               "arrangements": [{**a, "kconts": a["kconts"][:1], "kchunks": a["kchunks"][:1]} for a in case["arrangements"]]}
    n = case["n"]
    if n > 1:
        for i in range(n):
            yield {**case, "n": n - 1, "keys": [col[:i] + col[i + 1:] for col in case["keys"]], "vals": case["vals"][:i] + case["vals"][i + 1:],
                   "mask": None if case["mask"] is None else case["mask"][:i] + case["mask"][i + 1:],
                   "arrangements": [{**a, "kchunks": [[n - 1] for _ in a["kchunks"]], "vchunks": [n - 1]} for a in case["arrangements"]]}


def main(tier, seed):
    return apirun.run_property(sys.modules[__name__], tier, seed)


def replay(path):
    return apirun.replay_property(sys.modules[__name__], path)
