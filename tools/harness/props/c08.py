"""C08 — Cumulative operations are per-group prefix reductions."""
from __future__ import annotations

import sys

from .. import apirun, common
from ..kernelcases import DTYPES, MIN_INT, canon_array, encode_values, mask_token

PID = "C08"
MODULES = ["GroupbyVerif.Props.C08", "GroupbyVerif.LoopBridge.Cumulative", "GroupbyVerif.LoopBridge.IsNull"]
RULE = ("seeded random interleavings of <= 3 groups (null codes/keys included) x value dtype classes f64 f32 i64 (incl. |v| > 2^53) i32 u8 u64 (incl. v > 2^53 and v >= 2^63) bool "
        "M8[ns] m8[s] with nulls x boolean masks x {cumsum, cummin, cummax, cumcount} x both skip_na, at the kernel level "
        "(numba.cum*) and through GroupBy.cum* (ndarray / indexed Series; keys with nulls); exhaustive <= 5 rows for f64 in the thorough tier; "
        "non-trivial = a group with >= 2 selected rows; distinct = distinct (protocol line, level, dtype)")
ASSUMPTIONS = ["codes < ngroups", "float values are small integers", "fewer than 2^32 accepted rows per group (the source's count is uint32)"]
OPS = ["sum", "min", "max", "count"]
BIG = 2 ** 53 + 1


def _wrap64(x):
    return (x + 2 ** 63) % 2 ** 64 - 2 ** 63


def _known_temporal_noskip(v):
    """open finding C08-temporal-cumsum-noskip-wraps: matched only if the case has the recorded shape AND the
    implementation still shows exactly the recorded defective behaviour (= the faithful model, wrapped to 64 bits)"""
    c = v.get("case", {})
    if not (c.get("op") == "sum" and c.get("skipna") is False and c.get("dt") in ("m8s",) and any(x is None for x in c.get("vals", []))):
        return False
    try:
        model = [None if t == "K" else _wrap64(int(t)) for t in v["model"].split(",")]
        import ast
        actual = ast.literal_eval(v["actual"])
        return all(m is None or m == a for m, a in zip(model, actual)) and len(model) == len(actual)
    except Exception:
        return False


KNOWN_MATCHERS = {"C08-temporal-cumsum-noskip-wraps": _known_temporal_noskip}


def setup_worker():
    from ..numba_env import import_lib
    import_lib()


def fix_case(c):
    if c.get("mask") is not None:
        c["mask"] = tuple(c["mask"])
    return c


def shard_of(case):
    return f"{case['dt']}|{case['op']}|{case['skipna']}"


def gen_cases(tier, rng):
    for c in common.load_corpus(PID):
        yield fix_case(c)
    n = 3000 if tier == "quick" else 60000
    for _ in range(n):
        L = rng.randint(0, 14)
        ng = rng.randint(1, 3)
        codes = [rng.choice([-1] + list(range(ng))) if rng.random() < 0.9 else -1 for _ in range(L)]
        dt = rng.choice(["f64", "f64", "f32", "i64", "i32", "u8", "u64", "bool", "M8ns", "m8s"])
        null_ok = DTYPES[dt][2] is not None and dt != "i64"
        if dt == "bool":
            alpha = [0, 1]
        elif dt == "i64":
            alpha = [-3, 1, 2, BIG, -BIG]
        elif dt in ("M8ns",):
            alpha = [1, 2, 7, 1_600_000_000_123_456_789]
        elif dt == "u8":
            alpha = [1, 2, 7]
        elif dt == "u64":
            # beyond 2^53 (a detour through float64 rounds) and beyond 2^63 (a detour through int64 wraps)
            alpha = [1, 2, 2 ** 53 + 1, 2 ** 60 + 3, 2 ** 63 + 5]
        else:
            alpha = [-3, 1, 2, 7]
        vals = [None if (null_ok and rng.random() < 0.25) else rng.choice(alpha) for _ in range(L)]
        mask = ("b", [rng.random() < rng.choice([0.3, 0.7, 1.0]) for _ in range(L)]) if (L and rng.random() < 0.4) else None
        op = rng.choice(OPS)
        skipna = rng.random() < 0.75
        level = rng.choice(["kernel", "public"])
        if op == "sum" and dt in ("M8ns",):
            op = "max"
        if op == "sum" and dt == "u64":
            vals = [v if v < 2 ** 61 else 2 ** 53 + 1 for v in vals]  # 14 rows stay inside 64 bits
        if op == "sum" and dt == "i64":
            vals = [v if abs(v) < 10 else 1 for v in vals]  # keep exact sums inside 64 bits trivially
        yield dict(level=level, op=op, dt=dt, skipna=skipna, codes=codes, vals=vals, mask=mask, ng=ng,
                   container=rng.choice(["ndarray", "series"]))
    if tier == "thorough":
        import itertools
        for L in range(1, 6):
            for codes in itertools.product([-1, 0, 1], repeat=L):
                for vals in itertools.product([None, 1, 2], repeat=L):
                    for op in OPS:
                        yield dict(level="kernel", op=op, dt="f64", skipna=True, codes=list(codes), vals=list(vals), mask=None, ng=2,
                                   container="ndarray")


def null_marker(op, result_kind):
    """what null-key rows must show: 0-1 for cumcount (count marker 0, minus one), the dtype's null otherwise"""
    return None


def evaluate(case, drv):
    import numpy as np
    import pandas as pd
    from groupby_lib.groupby import numba as nbk
    from groupby_lib.groupby.core import GroupBy

    dt, op = case["dt"], case["op"]
    npdt, kind, null = DTYPES[dt]
    codes, vals, L = case["codes"], case["vals"], len(case["codes"])
    line_vals = vals if op != "count" else codes  # cumcount passes the codes as values
    line_kind = kind if op != "count" else "i64"
    null_tok = "_" if line_kind == "f" else str(MIN_INT)
    vs = ",".join(null_tok if v is None else str(v) for v in line_vals)
    line = (f"cum op={op} kind={line_kind} skipna={1 if (case['skipna'] or op == 'count') else 0} codes={','.join(map(str, codes))} vals={vs} "
            f"mask={mask_token(case['mask'])}")
    ans = drv.ask(line)
    sel = [True] * L if case["mask"] is None else list(case["mask"][1])
    per_group_sel = {}
    for c, s in zip(codes, sel):
        if c >= 0 and s:
            per_group_sel[c] = per_group_sel.get(c, 0) + 1
    res = dict(tags=[f"level:{case['level']}", f"op:{op}", f"dt:{dt}", f"skipna:{case['skipna']}", "mask:" + ("none" if case["mask"] is None else "b"),
                     "has-null-key" if any(c < 0 for c in codes) else "no-null-key"],
               size=L, key=line + f"|{case['level']}|{dt}|{case.get('container')}", nontrivial=max(list(per_group_sel.values()) + [0]) >= 2,
               bucket=(case["level"], op, dt, case["skipna"], case["mask"] is not None, any(c < 0 for c in codes)))

    def bad(verdict, actual, **kw):
        res.update(verdict=verdict, detail=dict(case=case, expected=ans["spec"], actual=str(actual)[:400], model=ans["model"], **kw))
        return res

    values = encode_values(vals, dt)
    mask = None if case["mask"] is None else np.array(case["mask"][1], dtype=bool)
    try:
        if case["level"] == "kernel":
            key = np.array(codes, dtype=np.int64)
            if op == "count":
                out = nbk.cumcount(key, None, case["ng"], mask)
            else:
                out = getattr(nbk, "cum" + op)(key, values, case["ng"], mask, case["skipna"])
            out = np.asarray(out)
        else:
            keys = np.array([np.nan if c < 0 else c + 0.5 for c in codes])
            index = None
            if case["container"] == "series":
                index = pd.Index([f"r{(i * 5) % max(L, 1)}_{i}" for i in range(L)])
                keys = pd.Series(keys, index=index)
                values = pd.Series(values, index=index, name="v")
                if mask is not None:
                    mask = pd.Series(mask, index=index)
            gb = GroupBy(keys)
            if op == "count":
                out = gb.cumcount(mask=mask)
            else:
                out = getattr(gb, "cum" + op)(values, mask=mask, skip_na=case["skipna"])
            if op != "count" and index is not None and list(out.index) != list(index):
                return bad("violation", f"result index {list(out.index)[:5]} differs from the input's")
            out = out.to_numpy()
    except Exception as e:  # noqa
        return bad("violation", f"error:{type(e).__name__}: {str(e)[:200]}")
    got = canon_array(out)
    if len(got) != L:
        return bad("violation", f"result has {len(got)} rows, input {L}")

    def expected(tok):
        exp = []
        for cell in (tok.split(",") if tok else []):
            if cell == "K":
                exp.append("K")
            elif cell == "_":
                exp.append("_")
            else:
                exp.append(int(cell) - (1 if op == "count" else 0))
        return exp

    def matches(exp):
        if len(exp) != len(got):
            return False
        marker = None
        for e, g in zip(exp, got):
            if e == "K":
                # a constant null/neutral marker that depends on no other row
                if marker is None:
                    marker = g
                if g != marker:
                    return False
                if op == "count":
                    if g not in (-1, 0):
                        return False
                elif out.dtype.kind == "f":
                    if g != "_":
                        return False
                elif out.dtype.kind in "mM":
                    if g != MIN_INT:
                        return False
            elif e != g:
                return False
        return True

    # dtype facts the property states: ints and temporal values are accumulated exactly, no float detour
    if op != "count":
        if npdt.kind in "iub" and out.dtype.kind == "f":
            return bad("violation", f"integer input came back as {out.dtype}")
        if npdt.kind in "mM" and out.dtype != npdt:
            return bad("violation", f"temporal input {npdt} came back as {out.dtype}")
    if ans["spec"] != "na":
        if not matches(expected(ans["spec"])):
            return bad("violation", got)
    if not matches(expected(ans["model"])):
        return bad("disagreement" if ans["spec"] != "na" else "violation" if (op == "sum") else "disagreement", got)
    res.update(verdict="ok", detail=None)
    return res


def shrink_candidates(case):
    L = len(case["codes"])
    if case["mask"] is not None:
        yield {**case, "mask": None}
    if case.get("container") == "series":
        yield {**case, "container": "ndarray"}
    for i in range(L):
        c = dict(case)
        c["codes"] = case["codes"][:i] + case["codes"][i + 1:]
        c["vals"] = case["vals"][:i] + case["vals"][i + 1:]
        if case["mask"] is not None:
            c["mask"] = ("b", case["mask"][1][:i] + case["mask"][1][i + 1:])
        yield c
    if case["level"] == "public":
        yield {**case, "level": "kernel"}


def main(tier, seed):
    return apirun.run_property(sys.modules[__name__], tier, seed)


def replay(path):
    return apirun.replay_property(sys.modules[__name__], path)
