"""C13 — A GroupBy object can be reused: results are history-independent (stateful exploration)."""
from __future__ import annotations

import sys

from .. import apirun, common
from ..gbcases import gen_dataset
from ..kernelcases import encode_values
from ..publicops import REDUCTIONS, ROW_OPS, SELECT_OPS, approx_equal, run_op

PID = "C13"
MODULES = ["GroupbyVerif.Props.C13"]
RULE = ("a pairwise table {8 first steps that change or keep the key representation} x {4 reductions} x {no mask, boolean window, slice with positive / negative "
        "start, positions} on localized-group keys for both chunked representations, plus seeded random operation histories (length <= 12 quick / <= 40 thorough) on ONE GroupBy object for each initial key representation {contiguous, "
        "chunk-factorized with per-chunk dictionaries (threshold scaled to 8 rows), pre-chunked arrow, fully monotonic}; operations drawn from all public "
        "methods (11 reductions with and without transform, cumulative, rolling, shift/diff, EMA plain/timed, head/tail/nth, groups, copy-construction, "
        "class-level call) with fresh random values and masks (none / boolean / slice / positions) at every step; every output is compared with the same "
        "call on a freshly built object; in 40 % of the histories (and in a family of threshold scans: 2-4 consecutive masked reductions whose windows cut whole groups away) the reused object sees ONE mask buffer and ONE value buffer refilled in place; "
        " labels and ngroups are re-checked after every step; non-trivial = history with >= 2 steps incl. >= 1 "
        "representation-changing op; distinct = distinct (keys, history)")
ASSUMPTIONS = ["float results compared to 1e-9 relative"]
ALL_OPS = REDUCTIONS + ["T:" + r for r in ("size", "count", "sum", "mean", "min", "max", "first", "last", "median")] + ROW_OPS + SELECT_OPS + ["groups", "copy", "classlevel"]
REPR_CHANGING = {"groups", "median", "head", "tail", "nth", "cumsum", "cummin", "cummax", "cumcount", "rolling_sum", "rolling_mean", "rolling_min",
                 "rolling_max", "shift", "diff", "ema", "ema_timed"}
MAX_WORKERS = 8


def setup_worker():
    from ..numba_env import import_lib
    import_lib()


def fix_case(c):
    for st in c.get("history", []):
        if st.get("mask") is not None:
            st["mask"] = tuple(st["mask"])
    return c


def gen_cases(tier, rng):
    for c in common.load_corpus(PID):
        yield fix_case(c)
    # pairwise table: every representation-changing first step followed by every reduction x mask kind, on keys whose
    # groups sit in stretches of rows (so that windows cut whole groups away), for the two chunked representations
    first_steps = ["median", "groups", "T:sum", "cumsum", "head", "ema", "sum", "copy"]
    for rep in range(2 if tier == "quick" else 12):
        L = rng.randint(10, 24)
        nlab = rng.randint(3, 5)
        base = sorted(rng.randrange(nlab) for _ in range(L))
        base = base[L // 3:] + base[:L // 3]            # rotate: a label can sit at both ends
        if rng.random() < 0.3:
            base[rng.randrange(L)] = None
        for repr_ in ("small", "arrowchunks"):
            cls = rng.choice(["float", "str"]) if None in base else rng.choice(["int", "float", "str"])
            for a in first_steps:
                for b in ("sum", "min", "count", "last"):
                    for mk in ("none", "b", "s+", "s-", "p"):
                        def step(op, mk_):
                            vals = [None if rng.random() < 0.15 else rng.choice([-3, 1, 2, 7]) for _ in range(L)]
                            mask = None
                            if mk_ == "b":
                                lo = rng.randint(0, L - 2)
                                mask = ("b", [lo <= i < lo + L // 2 for i in range(L)])
                            elif mk_ == "s+":
                                st = rng.randint(1, L - 2)
                                mask = ("s", st, rng.choice([None, min(L, st + L // 2)]))
                            elif mk_ == "s-":
                                mask = ("s", -rng.randint(1, L - 1), rng.choice([None, -1]))
                            elif mk_ == "p":
                                mask = ("p", [rng.randrange(-L, L) for _ in range(rng.randint(1, L // 2))])
                            return dict(op=op, vals=vals, mask=mask, window=2, n=1)
                        yield dict(keys=[list(base)], key_classes=[cls], repr=repr_, sort=rng.random() < 0.8, chunks=[rng.randint(1, L - 1)],
                                   history=[step(a, "none"), step(b, mk)])
    # threshold scans: consecutive masked reductions through ONE boolean buffer refilled in place, each window cutting whole
    # groups away (so that the observed-label filter is consulted every time)
    for rep in range(24 if tier == "quick" else 300):
        L = rng.randint(10, 24)
        nlab = rng.randint(3, 5)
        base = sorted(rng.randrange(nlab) for _ in range(L))
        if rng.random() < 0.3:
            base[rng.randrange(L)] = None
        repr_ = rng.choice(["plain", "small", "arrowchunks"])
        cls = rng.choice(["float", "str"]) if None in base else rng.choice(["int", "float", "str"])
        hist = []
        for _ in range(rng.randint(2, 4)):
            lo = rng.randint(0, L - 2)
            w = rng.randint(2, max(2, L // 2))
            hist.append(dict(op=rng.choice(["sum", "min", "count", "last", "mean", "max", "first", "size"]),
                             vals=[None if rng.random() < 0.15 else rng.choice([-3, 1, 2, 7]) for _ in range(L)],
                             mask=("b", [lo <= i < lo + w for i in range(L)]), window=2, n=1))
        yield dict(keys=[list(base)], key_classes=[cls], repr=repr_, sort=rng.random() < 0.8, chunks=[rng.randint(1, L - 1)], history=hist, reuse_buffers=True)
    n = 450 if tier == "quick" else 8000
    maxlen = 12 if tier == "quick" else 40
    for _ in range(n):
        repr_ = rng.choice(["plain", "small", "small", "arrowchunks", "mono"])
        cls = rng.choice(["int", "float", "float", "str", "datetime"])
        ds = gen_dataset(rng, max_rows=30, max_labels=rng.choice([4, 6]), nkeys=1, key_classes=[cls], vdt="f64", mask_kinds=("none",), min_rows=9,
                         p_null_key=rng.choice([0.0, 0.15]))
        keys = ds["keys"][0]
        L = len(keys)
        if repr_ in ("small", "arrowchunks") and rng.random() < 0.4:
            # localized groups (each label in one stretch of rows): windows then cut whole groups away
            keys = sorted(keys, key=lambda k: (k is None, k if k is not None else 0)) if rng.random() < 0.5 else \
                sorted(keys, key=lambda k: (k is None, -(k if k is not None else 0)))
        if repr_ == "mono":
            keys = sorted(k for k in keys if k is not None)
            keys = keys + [keys[-1] if keys else 0] * (L - len(keys))
            keys.sort()
        history = []
        for _ in range(rng.randint(3, maxlen)):
            op = rng.choice(ALL_OPS)
            base = op[2:] if op.startswith("T:") else op
            vals = [None if rng.random() < 0.2 else rng.choice([-3, 1, 2, 7]) for _ in range(L)]
            if rng.random() < 0.1:
                vals = [rng.choice(["inf", "-inf"]) if (v is not None and rng.random() < 0.3) else v for v in vals]
            kinds = ["none", "b"]
            if base in REDUCTIONS and base != "median":
                kinds += ["s", "p"]
            mk = rng.choice(kinds)
            mask = None
            if mk == "b":
                mask = ("b", [rng.random() < 0.7 for _ in range(L)])
            elif mk == "s":
                mask = ("s", rng.choice([None, 1, 2, L // 3, L // 2, -5, -(L // 2)]), rng.choice([None, None, L - 2, -1, L // 2 + 2]))
            elif mk == "p":
                mask = ("p", [rng.randrange(-L, L) for _ in range(rng.randint(1, L))])
            history.append(dict(op=op, vals=vals, mask=mask, window=rng.randint(1, 3), n=rng.choice([-1, 0, 1, 2])))
        yield dict(keys=[keys], key_classes=[cls], repr=repr_, sort=rng.random() < 0.8, chunks=[rng.randint(1, L - 1)], history=history,
                   reuse_buffers=rng.random() < 0.4)


def evaluate(case, drv):
    import numpy as np
    import pandas as pd
    import pyarrow as pa
    from groupby_lib.groupby import core as core_mod
    from groupby_lib.groupby.core import GroupBy
    from ..gbcases import encode_key_column

    cls = case["key_classes"][0]
    L = len(case["keys"][0])
    key_arr = encode_key_column(case["keys"][0], cls)
    typ = {"int": pa.int64(), "float": pa.float64(), "str": pa.string(), "datetime": pa.timestamp("ns")}[cls]
    hist = case["history"]
    key = repr((case["keys"], cls, case["repr"], case["sort"], case["chunks"], [(h["op"], h["vals"], h["mask"], h["window"], h["n"]) for h in hist], case.get("reuse_buffers")))
    res = dict(tags=[f"repr:{case['repr']}", f"kc:{cls}", f"len:{len(hist)}", "buffers:reused-in-place" if case.get("reuse_buffers") else "buffers:fresh"]
               + [f"op:{h['op']}" for h in hist],
               size=len(hist), key=key,
               nontrivial=len(hist) >= 2 and any((h["op"][2:] if h["op"].startswith("T:") else h["op"]) in REPR_CHANGING or h["op"].startswith("T:") for h in hist),
               bucket=(case["repr"], cls))

    old_thr = core_mod.THRESHOLD_FOR_CHUNKED_FACTORIZE

    def build():
        core_mod.THRESHOLD_FOR_CHUNKED_FACTORIZE = 8 if case["repr"] in ("small", "mono") else 10 ** 9
        try:
            keys = key_arr
            if case["repr"] == "arrowchunks":
                whole = pa.array(key_arr, type=typ, from_pandas=True)
                c = case["chunks"][0]
                keys = pa.chunked_array([whole.slice(0, c), whole.slice(c)], type=typ)
            return GroupBy(keys, sort=case["sort"]), keys
        finally:
            core_mod.THRESHOLD_FOR_CHUNKED_FACTORIZE = old_thr

    # a caller that keeps one preallocated mask / value buffer and refills it in place between the calls on ONE GroupBy object
    # (threshold scans, streaming updates): the reused object sees the same array objects with new contents
    buffers = {}

    def call(gb, keys, h, shared=False):
        op = h["op"]
        transform = op.startswith("T:")
        base = op[2:] if transform else op
        values = encode_values(h["vals"], "f64")
        if shared and case.get("reuse_buffers"):
            vb = buffers.setdefault("v", np.zeros(L, dtype=np.float64))
            np.copyto(vb, values)
            values = vb
        m = h["mask"]
        mask = None
        if m is not None:
            mask = np.array(m[1], dtype=bool) if m[0] == "b" else (slice(m[1], m[2]) if m[0] == "s" else np.array(m[1], dtype=np.int64))
            if m[0] == "b" and shared and case.get("reuse_buffers"):
                mb = buffers.setdefault("m", np.zeros(L, dtype=bool))
                np.copyto(mb, mask)
                mask = mb
        times = np.array([1_600_000_000 + 2 * i for i in range(L)], dtype="int64").view("datetime64[s]") if base == "ema_timed" else None
        if base == "classlevel":
            core_mod.THRESHOLD_FOR_CHUNKED_FACTORIZE = 8 if case["repr"] in ("small", "mono") else 10 ** 9
            try:
                r = GroupBy.sum(keys, values, mask=mask)
            finally:
                core_mod.THRESHOLD_FOR_CHUNKED_FACTORIZE = old_thr
            from ..publicops import obs_labels
            return obs_labels(r)
        kw = dict(window=h["window"], min_periods=1)
        if base == "nth":
            kw["n"] = h["n"]
        elif base in ("head", "tail"):
            kw["n"] = abs(h["n"])
        if base in SELECT_OPS:
            values = np.arange(L, dtype=np.float64) * 10 + 1
        return run_op(gb, base, values, mask=mask, transform=transform, times=times, **kw)

    try:
        gb, keys = build()
        labels0 = list(gb.result_index)
        res["tags"].append("starts-chunked" if gb.key_is_chunked else "starts-flat")
    except Exception as e:  # noqa
        res.update(verdict="violation", detail=dict(case=case, expected="construction succeeds", actual=f"error:{type(e).__name__}: {str(e)[:200]}"))
        return res
    for i, h in enumerate(hist):
        if h["op"] == "copy":
            try:
                gb = GroupBy(gb)
                out = run_op(gb, "sum", encode_values(h["vals"], "f64"))
                fresh, fkeys = build()
                exp = run_op(fresh, "sum", encode_values(h["vals"], "f64"))
            except Exception as e:  # noqa
                out, exp = ("error", f"{type(e).__name__}: {str(e)[:150]}"), ("ok",)
        else:
            try:
                out = call(gb, keys, h, shared=True)
            except Exception as e:  # noqa
                out = ("error", f"{type(e).__name__}: {str(e)[:150]}")
            try:
                fresh, fkeys = build()
                exp = call(fresh, fkeys, h)
            except Exception as e:  # noqa
                exp = ("error", f"{type(e).__name__}: {str(e)[:150]}")
        same = (out[0] == exp[0] == "error") or (out[0] != "error" and exp[0] != "error" and out[0] == exp[0] and approx_equal(
            [list(t) if isinstance(t, tuple) else t for t in out[1]], [list(t) if isinstance(t, tuple) else t for t in exp[1]]))
        if not same:
            res.update(verdict="violation", detail=dict(case={**case, "history": hist[: i + 1]}, expected=f"step {i} ({h['op']}) on a fresh object: {str(exp)[:400]}",
                                                        actual=f"on the reused object after {[x['op'] for x in hist[:i]]}: {str(out)[:400]}"))
            return res
        try:
            if list(gb.result_index) != labels0 or gb.ngroups != len(labels0):
                res.update(verdict="violation", detail=dict(case={**case, "history": hist[: i + 1]}, expected=f"labels {labels0[:6]}",
                                                            actual=f"labels changed to {list(gb.result_index)[:6]} after step {i} ({h['op']})"))
                return res
        except Exception as e:  # noqa
            res.update(verdict="violation", detail=dict(case={**case, "history": hist[: i + 1]}, expected="labels readable", actual=f"error:{type(e).__name__}"))
            return res
    res.update(verdict="ok", detail=None)
    return res


def shrink_candidates(case):
    h = case["history"]
    # drop steps (keep the last one, which is where the failure shows)
    for i in range(len(h) - 1):
        yield {**case, "history": h[:i] + h[i + 1:]}
    for i in range(len(h)):
        if h[i]["mask"] is not None:
            yield {**case, "history": h[:i] + [{**h[i], "mask": None}] + h[i + 1:]}


def main(tier, seed):
    return apirun.run_property(sys.modules[__name__], tier, seed)


def replay(path):
    return apirun.replay_property(sys.modules[__name__], path)
