"""C16 — Variance, quantiles and composite statistics match their definitions."""
from __future__ import annotations

import math
import sys
from fractions import Fraction

from .. import apirun, common
from ..gbcases import build_keys, gen_dataset
from ..publicops import canon_label, cv

PID = "C16"
MODULES = ["GroupbyVerif.Props.C16"]
RULE = ("seeded random datasets (1-2 keys incl. null keys and unused categories, <= 16 rows, boolean/no mask) x {var, std (ddof 0..3) on small integers "
        "(exact rational oracle), on int32/int64 values up to 7e8 in magnitude (group sums whose square leaves int64) and on floats with arbitrary offsets 0..1e8 and scales 1e-3..1e3 (error bound 16*n*eps*max|x|^2), median, quantile lists, "
        "apply with user functions returning a scalar / a fixed-length vector / an input-aligned vector, agg with a list of functions and with a single one (four function sets incl. median / size, with observed_only on and off on keys with unused categories), ratio, subset_ratio, "
        "density (values and sizes, with and without margins)}; var / std / ratio / subset_ratio / density on integral values are also compared with the Lean model "
        "of the kernel combinations (driver op `composite`); oracles: two-pass Fraction arithmetic, NumPy median/quantile on each group's selected values "
        "in row order, the individual primitive calls; non-trivial = >= 2 groups, one with >= 3 values; distinct = distinct (dataset, op, parameters)")
ASSUMPTIONS = ["np.median / np.quantile are the reference for quantiles (library calls them per group)",
               "the rounding bound constant 16 is a stated allowance, not derived (partial)"]
OPS = ["var", "std", "var_float", "var_int", "median", "quantile", "apply_scalar", "apply_fixed", "apply_aligned", "agg_list", "ratio", "subset_ratio", "density", "density_size"]
EPS = 2.0 ** -52


def setup_worker():
    from ..numba_env import import_lib
    import_lib()


def fix_case(c):
    if c.get("mask") is not None:
        c["mask"] = tuple(c["mask"])
    return c


def gen_cases(tier, rng):
    for c in common.load_corpus(PID):
        yield fix_case(c)
    n = 1500 if tier == "quick" else 25000
    for _ in range(n):
        op = rng.choice(OPS)
        nkeys = 1 if op.startswith("density") else rng.choice([1, 1, 2])
        classes = [rng.choice(["int", "float", "str", "categorical"]) for _ in range(nkeys)]
        ds = gen_dataset(rng, max_rows=16, max_labels=3, nkeys=nkeys, key_classes=classes, vdt="f64", mask_kinds=("none", "b"), min_rows=1)
        ds["sort"] = True
        case = {**ds, "op": op, "ddof": rng.choice([0, 1, 1, 2, 3]), "q": rng.choice([[0.5], [0.25, 0.75], [0.0, 0.3, 1.0]]),
                "ncols": rng.choice([1, 1, 2]), "offset": rng.choice([0, 1, 1e3, 1e6, 1e8]), "scale": rng.choice([1e-3, 1, 1e3]),
                "noise": [rng.random() for _ in range(len(ds["vals"]))], "margins": rng.random() < 0.4}
        if op == "var_int":
            # integers whose per-group sums exceed 2**31.5 (their square leaves int64) while the sum of squares still fits
            sgn = rng.choice([1, -1])
            case["big"] = [sgn * (5 * 10 ** 8 + rng.randrange(0, 2 * 10 ** 8)) if rng.random() < 0.9 else rng.randrange(-1000, 1000) for _ in range(len(ds["vals"]))]
            case["idt"] = rng.choice(["int64", "int32"])
            if rng.random() < 0.4:
                # ordinary 64-bit data (ids, epoch seconds ...) whose SQUARES no longer fit 64 bits when added up: the variance must
                # still be right to rounding (the kernel accumulates squares in float64)
                case["big"] = [sgn * (2 * 10 ** 9 + rng.randrange(0, 2 * 10 ** 9)) if rng.random() < 0.9 else rng.randrange(-1000, 1000)
                               for _ in range(len(ds["vals"]))]
                case["idt"] = "int64"
        if op == "agg_list":
            case["funcs"] = rng.choice([["sum", "max", "count"], ["mean", "min", "first"], ["sum", "median", "size"], ["last", "var"]])
            case["observed_only"] = rng.random() < 0.5
        if op in ("ratio", "density"):
            case["vals"] = [None if v is None else abs(v) + 1 for v in case["vals"]]
        yield case


def groups_of(case):
    """label tuple -> list of selected row positions (row order), null keys dropped"""
    n = len(case["vals"])
    sel = [True] * n if case["mask"] is None else list(case["mask"][1])
    out = {}
    for i in range(n):
        if not sel[i] or any(col[i] is None for col in case["keys"]):
            continue
        out.setdefault(tuple(col[i] for col in case["keys"]), []).append(i)
    return out


def evaluate(case, drv):
    import numpy as np
    import pandas as pd
    from groupby_lib.groupby.core import GroupBy
    from ..gbcases import decode_label

    n = len(case["vals"])
    op = case["op"]
    groups = groups_of(case)
    key = repr(sorted((k, str(v)) for k, v in case.items()))
    res = dict(tags=[f"op:{op}", f"nkeys:{len(case['keys'])}", "mask:" + ("none" if case["mask"] is None else "b"), f"ncols:{case['ncols']}"],
               size=n, key=key, nontrivial=len(groups) >= 2 and max(map(len, groups.values())) >= 3, bucket=(op, len(case["keys"]), case["mask"] is not None, case["ncols"]))

    def bad(exp, act, **kw):
        res.update(verdict="violation", detail=dict(case=case, expected=str(exp)[:400], actual=str(act)[:400], **kw))
        return res

    keys = build_keys(case)
    if op == "var_float":
        vals = np.array([np.nan if v is None else case["offset"] + case["scale"] * (v + z) for v, z in zip(case["vals"], case["noise"])], dtype=np.float64)
    elif op == "var_int":
        vals = np.array(case["big"], dtype=case["idt"])
    else:
        vals = np.array([np.nan if v is None else v for v in case["vals"]], dtype=np.float64)
    mask = None if case["mask"] is None else np.array(case["mask"][1], dtype=bool)
    classes = case["key_classes"]

    def lab_of(idx_label):
        if not isinstance(idx_label, tuple):
            idx_label = (idx_label,)
        return tuple(decode_label(x, c) for x, c in zip(idx_label, classes))

    def as_map(series):
        return {lab_of(l): v for l, v in series.items()}

    # correspondence with the Lean model of the composite statistics (driver op `composite`): codes are the
    # positions of the rows' label tuples among the sorted distinct non-null tuples
    all_labs = sorted({tuple(col[i] for col in case["keys"]) for i in range(n) if not any(col[i] is None for col in case["keys"])})
    code_of = {lab: j for j, lab in enumerate(all_labs)}
    codes_tok = ",".join(str(code_of.get(tuple(col[i] for col in case["keys"]), -1)) if not any(col[i] is None for col in case["keys"]) else "-1"
                         for i in range(n))

    def vtok(arr):
        return ",".join("_" if (isinstance(x, float) and math.isnan(x)) else str(int(x)) for x in arr.tolist())

    def model_tie(line, got_map, post=lambda q: q, what=""):
        """ask the driver; every label of got_map must carry the model's value (null = non-finite)"""
        ans = drv.ask(line)["model"]
        if ans == "error":
            raise RuntimeError("model rejected " + line)
        mod = [] if ans == "-" else ans.split(",")
        res["tags"].append("model-tie")
        for lab, g in got_map.items():
            m = mod[code_of[lab]]
            gnull = isinstance(g, float) and (math.isnan(g) or math.isinf(g))
            if m == "_":
                if not gnull:
                    return dict(model=f"{lab}: null", actual=f"{lab}: {g}", line=line, note=f"{what}: value differs from the model")
                continue
            e = post(float(Fraction(m)))
            if gnull or abs(float(g) - e) > 1e-9 * max(1.0, abs(e)):
                return dict(model=f"{lab}: {e}", actual=f"{lab}: {g}", line=line, note=f"{what}: value differs from the model")
        return None

    def disagree(d):
        res.update(verdict="disagreement", detail=dict(case=case, **d))
        return res

    mtok = "-" if case["mask"] is None else "b:" + ",".join("1" if b else "0" for b in case["mask"][1])
    integral = all(v is None or float(v).is_integer() for v in case["vals"])

    try:
        gb = GroupBy(keys)
        if op in ("var", "std", "var_float", "var_int"):
            got = as_map(gb.var(vals, mask=mask, ddof=case["ddof"]) if op != "std" else gb.std(vals, mask=mask, ddof=case["ddof"]))
            if set(got) != set(groups):
                return bad(sorted(groups), sorted(got))
            for lab, rows in groups.items():
                xs = [Fraction(int(vals[i])) if op == "var_int" else Fraction(float(vals[i])) for i in rows if op == "var_int" or not math.isnan(vals[i])]
                m = len(xs)
                g = got[lab]
                if m - case["ddof"] <= 0:
                    if not (isinstance(g, float) and math.isnan(g)):
                        return bad(f"{lab}: null (too few values)", g)
                    continue
                mean = sum(xs) / m
                var = sum((x - mean) ** 2 for x in xs) / (m - case["ddof"])
                exp = float(var) if op != "std" else math.sqrt(var)
                if op in ("var_float", "var_int"):
                    bound = 16 * m * EPS * max(abs(float(x)) for x in xs) ** 2 / max(m - case["ddof"], 1)
                    if not abs(g - exp) <= bound + 1e-300:
                        return bad(f"{lab}: {exp} +- {bound:.3g}", g, error=abs(g - exp))
                elif not abs(g - exp) <= 1e-9 * max(1.0, abs(exp)):
                    return bad(f"{lab}: {exp}", g)
            if op in ("var", "std") and integral and n:
                d = model_tie(f"composite op=var kind=f codes={codes_tok} vals={vtok(vals)} mask={mtok} threads=1 ng={len(all_labs)} ddof={case['ddof']}",
                              got, post=(math.sqrt if op == "std" else (lambda q: q)), what=op)
                if d:
                    return disagree(d)
        elif op in ("median", "quantile"):
            if case["ncols"] == 2:
                values = {"a": vals, "b": vals * 2}
            else:
                values = vals
            r = gb.median(values, mask=mask) if op == "median" else gb.quantile(values, q=case["q"], mask=mask)
            r = r if isinstance(r, pd.DataFrame) else r.to_frame("a")
            for col, mult in zip(r.columns, (1, 2)):
                for lab, rows in groups.items():
                    xs = vals[rows] * mult
                    if op == "median":
                        exp = [np.median(xs)]
                        g = [r[col][[l for l in r.index if lab_of(l) == lab]].iloc[0]] if any(lab_of(l) == lab for l in r.index) else None
                    else:
                        exp = list(np.quantile(xs, case["q"]))
                        g = [v for l, v in r[col].items() if lab_of(l[:-1]) == lab]
                    if g is None or len(g) != len(exp) or not all((math.isnan(a) and math.isnan(b)) or abs(a - b) <= 1e-12 * max(1, abs(b)) for a, b in zip(g, exp)):
                        return bad(f"{lab}/{col}: {exp}", g)
                if op == "median" and len(r) != len(groups):
                    return bad(sorted(groups), list(r.index))
        elif op.startswith("apply"):
            if op == "apply_scalar":
                f = lambda a: float(np.nansum(a) * 3 - len(a))  # noqa
                r = gb.apply(vals, f, mask=mask)
                got = as_map(r)
                exp = {lab: f(vals[rows]) for lab, rows in groups.items()}
                if set(got) != set(exp) or any(abs(got[k] - exp[k]) > 1e-9 for k in exp):
                    return bad(exp, got)
            elif op == "apply_fixed":
                f = lambda a: np.array([np.nansum(a), float(len(a))])  # noqa
                r = gb.apply(vals, f, mask=mask)
                got = {}
                for l, v in r.items():
                    got.setdefault(lab_of(l[:-1]), []).append(v)
                exp = {lab: list(f(vals[rows])) for lab, rows in groups.items()}
                if set(got) != set(exp) or any(not np.allclose(got[k], exp[k], equal_nan=True) for k in exp):
                    return bad(exp, got)
            else:
                f = lambda a: np.nancumsum(a)  # noqa  (input-aligned; row order matters)
                r = gb.apply(vals, f, mask=mask)
                exp = []
                for lab in sorted(groups):
                    exp.extend(f(vals[groups[lab]]).tolist())
                if len(r) != len(exp) or not np.allclose(r.to_numpy(), exp, equal_nan=True):
                    return bad(exp, r.to_numpy().tolist())
                want_inner = [i for lab in sorted(groups) for i in groups[lab]]
                if [l[-1] for l in r.index] != want_inner:
                    return bad(f"inner index = original rows {want_inner}", [l[-1] for l in r.index])
        elif op == "agg_list":
            # a list of aggregations (and a single one) == the individual calls, under the same options
            funcs = case.get("funcs") or ["sum", "max", "count"]
            opts = dict(mask=mask)
            if case.get("observed_only") is False and not any(f in ("median", "size") for f in funcs):
                opts["observed_only"] = False
            r = gb.agg(vals, funcs, **opts)
            for fn in funcs:
                kw_single = {k: v for k, v in opts.items() if not (fn in ("median", "size") and k == "observed_only")}
                single = gb.size(**kw_single) if fn == "size" else getattr(gb, fn)(vals, **kw_single)
                a, b = as_map(r[fn]), as_map(single)
                if set(a) != set(b) or any(cv(a[k]) != cv(b[k]) for k in a):
                    return bad(f"{fn}: {b}", a, note="list of aggregations != individual call")
                one = gb.agg(vals, fn, **kw_single)
                c = as_map(one)
                if set(c) != set(b) or any(cv(c[k]) != cv(b[k]) for k in c):
                    return bad(f"{fn}: {b}", c, note="agg with a single function != the primitive")
        elif op in ("ratio", "subset_ratio"):
            if op == "ratio":
                v2 = vals * 2 + 1
                r = as_map(gb.ratio(vals, v2, mask=mask))
                num, den = as_map(gb.sum(vals, mask=mask)), as_map(gb.sum(v2, mask=mask))
            else:
                sub = np.array([i % 2 == 0 for i in range(n)])
                if mask is None:
                    # the documented default: no global mask
                    r = as_map(gb.subset_ratio(vals, sub))
                    num, den = as_map(gb.sum(vals, mask=sub)), as_map(gb.sum(vals))
                else:
                    gm = mask
                    r = as_map(gb.subset_ratio(vals, sub, global_mask=gm))
                    num, den = as_map(gb.sum(vals, mask=sub & gm)), as_map(gb.sum(vals, mask=gm))
            for lab in r:
                if lab not in den:
                    return bad("labels of the denominator", lab)
                e = (num.get(lab, float("nan")) / den[lab]) if den[lab] != 0 else float("nan")
                g = r[lab]
                if not ((math.isnan(e) and (math.isnan(g) or math.isinf(g))) or abs(g - e) <= 1e-12 * max(1, abs(e))):
                    return bad(f"{lab}: {e}", g)
            if integral and n:
                if op == "ratio":
                    line = f"composite op=ratio kind=f codes={codes_tok} vals={vtok(vals)} vals2={vtok(v2)} mask={mtok} threads=1 ng={len(all_labs)}"
                else:
                    gtok = "-" if mask is None else ",".join("1" if b else "0" for b in mask.tolist())
                    line = (f"composite op=subset_ratio kind=f codes={codes_tok} vals={vtok(vals)} subset={','.join('1' if b else '0' for b in sub.tolist())} "
                            f"global={gtok} threads=1 ng={len(all_labs)}")
                d = model_tie(line, r, what=op)
                if d:
                    return disagree(d)
        elif op in ("density", "density_size"):
            values = vals if op == "density" else None
            r = gb.density(values, mask=mask, margins=case["margins"])
            got = {("All",) if l == "All" else lab_of(l): v for l, v in r.items()}
            if op == "density":
                tot = {lab: float(np.nansum(vals[rows])) for lab, rows in groups.items()}
            else:
                tot = {lab: float(len(rows)) for lab, rows in groups.items()}
            total = sum(tot.values())
            body = {k: v for k, v in got.items() if k != ("All",)}
            if set(body) != set(tot):
                return bad(sorted(tot), sorted(body))
            if total != 0:
                for lab in tot:
                    if abs(body[lab] - 100 * tot[lab] / total) > 1e-9:
                        return bad(f"{lab}: {100 * tot[lab] / total}", body[lab])
                if abs(sum(body.values()) - 100) > 1e-9:
                    return bad("shares add up to 100", sum(body.values()))
            if case["margins"] and (("All",) not in got or abs(got[("All",)] - total) > 1e-9):
                return bad(f"All = {total}", got.get(("All",)))
            if op == "density" and integral and n and total != 0:
                d = model_tie(f"composite op=density kind=f codes={codes_tok} vals={vtok(vals)} mask={mtok} threads=1 ng={len(all_labs)}", body, what=op)
                if d:
                    return disagree(d)
    except Exception as e:  # noqa
        import traceback
        return bad("a result", f"error:{type(e).__name__}: {str(e)[:200]}", tb=traceback.format_exc()[-600:])
    res.update(verdict="ok", detail=None)
    return res


def _known_no_rows(v):
    c = v.get("case", {})
    if c.get("op") not in ("median", "quantile", "apply_scalar", "apply_fixed", "apply_aligned"):
        return False
    return not groups_of(c) and ("IndexError" in str(v.get("actual")) or "ValueError" in str(v.get("actual")))


KNOWN_MATCHERS = {"C16-apply-no-rows": _known_no_rows}


def shrink_candidates(case):
    n = len(case["vals"])
    if case["mask"] is not None:
        yield {**case, "mask": None}
    for i in range(n):
        if n <= 1:
            break
        c = {**case, "keys": [col[:i] + col[i + 1:] for col in case["keys"]], "vals": case["vals"][:i] + case["vals"][i + 1:],
             "noise": case["noise"][:i] + case["noise"][i + 1:]}
        if case.get("big") is not None:
            c["big"] = case["big"][:i] + case["big"][i + 1:]
        if case["mask"] is not None:
            c["mask"] = ("b", case["mask"][1][:i] + case["mask"][1][i + 1:])
        yield c
    if len(case["keys"]) > 1:
        yield {**case, "keys": case["keys"][:1], "key_classes": case["key_classes"][:1]}
    if case["ncols"] > 1:
        yield {**case, "ncols": 1}


def main(tier, seed):
    return apirun.run_property(sys.modules[__name__], tier, seed)


def replay(path):
    return apirun.replay_property(sys.modules[__name__], path)
