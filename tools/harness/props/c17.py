"""C17 — The pandas-style facade agrees with the core engine and with pandas."""
from __future__ import annotations

import math
import sys

from .. import apirun, common

PID = "C17"
MODULES = ["GroupbyVerif.Props.C17"]
RULE = ("seeded random Series / DataFrames (<= 14 rows, 1-3 value columns of float / int dtype with nulls, keys of int / str / float-with-null class) with an "
        "arbitrary index (default, shuffled integers, strings, duplicated labels, a 2-level MultiIndex whose levels can serve as keys) x keys given as column "
        "names, arrays / Series, index level names or numbers, a callable applied to the index labels, and mixtures x column selection (none, one column by [] or by attribute, a list) x every facade method "
        "(sum mean min max count size std var first last median, agg by name, cumsum cummin cummax cumcount, rolling sum / mean / min / max, nth / head / tail "
        "with the core's defaults, ema, iteration, groups, ngroups); in a quarter of the cases with a boolean mask passed to the facade method; three oracles: (1) the core engine GroupBy(resolved keys).<method>(selected value "
        "columns, same mask) - identical labels, columns, numbers; (2) pandas obj.groupby(...)[selection].<method>() for the null-skipping operations pandas offers - "
        "same labels and numbers (cumulative / rolling compared at rows holding a non-null value); (3) structural: key columns are not among the result "
        "columns, a selection limits the result to exactly those columns, cumcount == 0,1,2.. within each group in row order whatever the values, iteration "
        "yields every label once with exactly the group's rows (compared through a hidden row-id column); non-trivial = >= 2 groups, a non-default index "
        "or a selection; distinct = distinct (frame, keys, selection, method)")
ASSUMPTIONS = ["pandas 3 groupby semantics (dropna=True, sort=True, observed) are the reference for the compared methods",
               "float results compared to 1e-9 relative"]
MAX_WORKERS = 12

AGG = ["sum", "mean", "min", "max", "count", "size", "std", "var", "first", "last", "median"]
CUM = ["cumsum", "cummin", "cummax", "cumcount"]
ROLL = ["rolling_sum", "rolling_mean", "rolling_min", "rolling_max"]
OTHER = ["agg:sum", "agg:max", "iter", "groups", "ngroups", "ema", "head", "tail", "nth", "apply:nansum", "aggf:nanmax"]
METHODS = AGG + CUM + ROLL + OTHER
MASKABLE = set(AGG) | set(ROLL) | {"agg:sum", "agg:max", "apply:nansum", "aggf:nanmax"}
INDEX_KINDS = ["default", "shuffled_int", "str", "dup", "multi"]
KEY_SPECS = ["col", "col2", "array", "series", "level_name", "level_num", "col+array", "col+level", "index_name", "callable"]


def setup_worker():
    from ..numba_env import import_lib
    import_lib()
    import io
    import contextlib
    from groupby_lib.groupby import monkey_patch
    with contextlib.redirect_stdout(io.StringIO()):
        monkey_patch.install_groupby_fast()


def fix_case(c):
    return c


def gen_cases(tier, rng):
    for c in common.load_corpus(PID):
        yield fix_case(c)
    total = 2000 if tier == "quick" else 40000
    for _ in range(total):
        n = rng.choice([1, 2, 3, 5, 8, 11, 14])
        kind = rng.choice(["frame", "frame", "series"])
        index_kind = rng.choice(INDEX_KINDS)
        key_spec = rng.choice(KEY_SPECS)
        if key_spec in ("level_name", "level_num", "col+level") and index_kind != "multi":
            index_kind = "multi"
        if key_spec == "index_name" and index_kind == "multi":
            index_kind = "str"
        if key_spec == "callable":
            kind = "frame"
            if index_kind == "multi":
                index_kind = rng.choice(["default", "shuffled_int", "str", "dup"])
        if kind == "series" and key_spec in ("col", "col2", "col+array", "col+level"):
            key_spec = rng.choice(["array", "series", "level_name" if index_kind == "multi" else "array"])
        nvals = rng.choice([1, 2, 3])
        cols = []
        for j in range(nvals):
            dt = rng.choice(["f", "f", "i"])
            col = [rng.choice([1, 2, 3, 5, -4]) for _ in range(n)]
            if dt == "f" and rng.random() < 0.5:
                col = [None if rng.random() < 0.25 else v for v in col]
            cols.append(dict(dt=dt, vals=col))
        kclass = rng.choice(["int", "str", "float_null"])
        k1 = [rng.randrange(rng.randint(1, 3)) for _ in range(n)]
        k2 = [rng.randrange(rng.randint(1, 3)) for _ in range(n)]
        if kclass == "float_null":
            k1 = [None if rng.random() < 0.2 else v for v in k1]
        lvl0 = [rng.randrange(rng.randint(1, 3)) for _ in range(n)]
        selection = rng.choice([None, None, "one", "list", "attr"]) if kind == "frame" else None
        window = rng.choice([1, 2, 3])
        # the arguments the facade forwards: every boundary value (0 / None / negative) next to ordinary ones
        params = dict(min_periods=rng.choice([None, 0, 1, window]), ddof=rng.choice([1, 1, 0]), n=rng.choice([2, 0, 1, 3]),
                      nth=rng.choice([1, 0, 2, -1]), ema=rng.choice([["alpha", 0.5], ["alpha", 0.25], ["alpha", 1.0], ["halflife", 1.0], ["halflife", 2.5]]))
        yield dict(n=n, kind=kind, index_kind=index_kind, key_spec=key_spec, cols=cols, kclass=kclass, k1=k1, k2=k2, lvl0=lvl0, selection=selection,
                   method=rng.choice(METHODS), perm=rng.sample(range(n), n), window=window, params=params,
                   fmask=[rng.random() < 0.7 for _ in range(n)] if rng.random() < 0.25 else None)


def cv(x):
    import numpy as np
    import pandas as pd
    if x is None or x is pd.NA or x is pd.NaT:
        return None
    if isinstance(x, (float, np.floating)):
        if math.isnan(x):
            return None
        return float(x)
    if isinstance(x, (bool, np.bool_)):
        return int(x)
    if isinstance(x, (int, np.integer)):
        return int(x)
    return x


def same(a, b):
    if a is None or b is None:
        return a is None and b is None
    if isinstance(a, (int, float)) and isinstance(b, (int, float)):
        return abs(a - b) <= 1e-9 * max(1.0, abs(a), abs(b))
    return a == b


def table(res):
    """canonical (labels/rows, columns, cells) of a Series / DataFrame result"""
    import pandas as pd
    if isinstance(res, pd.Series):
        res = res.to_frame(name=res.name if res.name is not None else "<unnamed>")
    idx = [tuple(cv(x) for x in (l if isinstance(l, tuple) else (l,))) for l in res.index]
    cols = [str(c) for c in res.columns]
    cells = [[cv(v) for v in res.iloc[:, j].tolist()] for j in range(res.shape[1])]
    return idx, cols, cells


def evaluate(case, drv):
    import numpy as np
    import pandas as pd
    from groupby_lib.groupby.core import GroupBy

    n, method = case["n"], case["method"]
    key = repr(sorted((k, str(v)) for k, v in case.items()))
    res = dict(tags=[f"m:{method}", f"kind:{case['kind']}", f"index:{case['index_kind']}", f"keys:{case['key_spec']}", f"sel:{case['selection']}", f"kclass:{case['kclass']}"],
               size=n, key=key, nontrivial=False, bucket=(method, case["kind"], case["index_kind"], case["key_spec"], str(case["selection"])))

    def bad(exp, act, **kw):
        res.update(verdict="violation", detail=dict(case=case, expected=str(exp)[:500], actual=str(act)[:500], **kw))
        return res

    # ---------------- build the object ----------------
    ik = case["index_kind"]
    if ik == "default":
        index = pd.RangeIndex(n)
    elif ik == "shuffled_int":
        index = pd.Index(case["perm"], name=None)
    elif ik == "str":
        index = pd.Index([f"r{p}" for p in case["perm"]], name="idx")
    elif ik == "dup":
        index = pd.Index([p // 2 for p in case["perm"]], name="idx")
    else:
        index = pd.MultiIndex.from_arrays([np.array(case["lvl0"], dtype=np.int64) * 10, np.array([f"s{p}" for p in case["perm"]], dtype=object)], names=["L0", "L1"])

    def key_array(vals, kclass):
        if kclass == "str":
            return np.array([None if v is None else ["ka", "kb", "kc"][v] for v in vals], dtype=object)
        if kclass == "float_null":
            return np.array([np.nan if v is None else v + 0.5 for v in vals], dtype=np.float64)
        return np.array(vals, dtype=np.int64)

    k1 = key_array(case["k1"], case["kclass"])
    k2 = key_array(case["k2"], "int")
    data = {}
    for j, c in enumerate(case["cols"]):
        data[f"v{j}"] = np.array([np.nan if v is None else v for v in c["vals"]], dtype=np.float64 if c["dt"] == "f" else np.int64)
    value_cols = list(data)
    rowid = np.arange(n)
    if case["kind"] == "frame":
        uses_ka = case["key_spec"] in ("col", "col2", "col+array", "col+level")
        # a non-numeric column that is not a key is dropped by the engine (numeric_only) and rejected by pandas: keep it out of the frame
        cols_ = {**({"ka": k1} if (uses_ka or case["kclass"] != "str") else {}), **data, "kb": k2}
        frame = pd.DataFrame(cols_, index=index)
    else:
        frame = None
        series = pd.Series(data["v0"], index=index, name="v0")
        value_cols = ["v0"]
    ks = case["key_spec"]
    by, level, resolved, key_cols = None, None, [], []
    if ks == "col":
        by, resolved, key_cols = "ka", [k1], ["ka"]
    elif ks == "col2":
        by, resolved, key_cols = ["ka", "kb"], [k1, k2], ["ka", "kb"]
    elif ks == "array":
        by, resolved = k1.copy(), [k1]
    elif ks == "series":
        by, resolved = pd.Series(k1, index=index, name="sk"), [k1]
    elif ks == "level_name":
        level, resolved = "L0", [np.asarray(index.get_level_values(0))]
    elif ks == "level_num":
        level, resolved = 0, [np.asarray(index.get_level_values(0))]
    elif ks == "col+array":
        by, resolved, key_cols = ["ka", k2.copy()], [k1, k2], ["ka"]
    elif ks == "col+level":
        by, level, resolved, key_cols = "ka", "L0", [k1, np.asarray(index.get_level_values(0))], ["ka"]
    elif ks == "callable":
        def label_key(x):
            return (x if isinstance(x, (int, np.integer)) else int(str(x)[1:])) % 2
        by, resolved = label_key, [np.array([label_key(x) for x in index], dtype=np.int64)]
    elif ks == "index_name":
        if index.name is None:
            index = index.rename("idx")
            if frame is not None:
                frame.index = index
            else:
                series.index = index
        by, resolved = "idx", [np.asarray(index)]
    obj = frame if frame is not None else series
    expected_cols = [c for c in (frame.columns if frame is not None else ["v0"]) if c not in key_cols]
    sel = case["selection"]
    attr_access = sel == "attr"
    if attr_access:
        sel = "one"
    if sel == "one":
        sel_cols = [expected_cols[-1]] if expected_cols else None
        if sel_cols and sel_cols[0] in ("ka", "kb"):
            sel_cols = [c for c in expected_cols if c.startswith("v")][:1]
    elif sel == "list":
        sel_cols = [c for c in expected_cols if c.startswith("v")][-2:]
    else:
        sel_cols = None
    final_cols = sel_cols if sel_cols is not None else expected_cols
    null_key = [any((isinstance(r[i], float) and math.isnan(r[i])) or r[i] is None for r in resolved) for i in range(n)]
    group_of = [None if null_key[i] else tuple(cv(r[i]) for r in resolved) for i in range(n)]
    groups = {}
    for i, g in enumerate(group_of):
        if g is not None:
            groups.setdefault(g, []).append(i)
    res["nontrivial"] = len(groups) >= 2 and (ik != "default" or sel is not None)

    def facade():
        kw = {}
        if by is not None:
            kw["by"] = by
        if level is not None:
            kw["level"] = level
        g = obj.groupby_fast(**kw)
        if sel == "one" and sel_cols:
            g = getattr(g, sel_cols[0]) if attr_access else g[sel_cols[0]]
        elif sel == "list" and sel_cols is not None:
            g = g[sel_cols]
        return g

    def pandas_kw():
        if by is not None and level is not None:
            # pandas takes either by or level: the mixture is spelled with a Grouper
            return {"by": (list(by) if isinstance(by, list) else [by]) + [pd.Grouper(level=level)]}
        kw = {}
        if by is not None:
            kw["by"] = by
        if level is not None:
            kw["level"] = level
        return kw

    def pandas_gb():
        g = obj.groupby(**pandas_kw())
        if sel == "one" and sel_cols:
            g = g[sel_cols[0]]
        elif sel == "list" and sel_cols is not None:
            g = g[sel_cols]
        return g

    def core_values():
        if frame is None:
            return series
        if sel == "one" and sel_cols:
            return frame[sel_cols[0]]
        return frame[final_cols]

    fmask = None if case.get("fmask") is None else np.array(case["fmask"], dtype=bool)
    if fmask is not None and method not in MASKABLE:
        fmask = None
    res["tags"].append("fmask" if fmask is not None else "nofmask")

    P = {"min_periods": 1, "ddof": 1, "n": 2, "nth": 1, "ema": ["alpha", 0.5], **(case.get("params") or {})}
    res["tags"].append(f"params:{'default' if not case.get('params') else 'varied'}")

    def call(g, m, engine):
        w = case["window"]
        mk = {} if (fmask is None or engine == "pandas") else {"mask": fmask}
        if m in ("std", "var"):
            return getattr(g, m)(ddof=P["ddof"], **mk)
        if m in AGG:
            return getattr(g, m)(**mk)
        if m.startswith("agg:"):
            return g.agg(m[4:], **mk)
        if m in CUM:
            return getattr(g, m)()
        if m.startswith("rolling_"):
            r = g.rolling(w, min_periods=P["min_periods"])
            return getattr(r, m[8:])(**mk)
        if m == "ema":
            return g.ema(**{P["ema"][0]: P["ema"][1]})
        if m == "apply:nansum":
            return g.apply(np.nansum, **mk)
        if m == "aggf:nanmax":
            return g.agg(np.nanmax, **mk)
        if m in ("head", "tail"):
            return getattr(g, m)(P["n"])
        if m == "nth":
            return g.nth(P["nth"])
        raise ValueError(m)

    def core_call(m):
        gb = GroupBy([np.asarray(r) for r in resolved] if len(resolved) > 1 else np.asarray(resolved[0]))
        vals = core_values()
        w = case["window"]
        cm = {} if fmask is None else {"mask": fmask}
        if m == "size":
            return gb.size(**cm)
        if m == "cumcount":
            return gb.cumcount()
        if m in ("std", "var"):
            return getattr(gb, m)(vals, ddof=P["ddof"], **cm)
        if m in AGG:
            return getattr(gb, m)(vals, **cm)
        if m in ("cumsum", "cummin", "cummax"):
            return getattr(gb, m)(vals)
        if m.startswith("agg:"):
            return getattr(gb, m[4:])(vals, **cm)
        if m.startswith("rolling_"):
            # the facade documents: min_periods defaults to the window size
            return getattr(gb, m)(vals, window=w, min_periods=w if P["min_periods"] is None else P["min_periods"], **cm)
        if m == "ema":
            return gb.ema(vals, **{P["ema"][0]: P["ema"][1]})
        if m == "apply:nansum":
            return gb.apply(vals, np.nansum, **cm)
        if m == "aggf:nanmax":
            return gb.apply(vals, np.nanmax, **cm)
        if m in ("head", "tail"):
            return getattr(gb, m)(vals, P["n"], keep_input_index=True)
        if m == "nth":
            return gb.nth(vals, P["nth"], keep_input_index=True)
        raise ValueError(m)

    try:
        g = facade()
    except Exception as e:  # noqa
        return bad("a grouped object", f"groupby_fast raised {type(e).__name__}: {str(e)[:200]}")
    # ---------------- the Lean model of the by / level resolution (GV.Facade.resolve) ----------------
    if frame is not None and drv is not None:
        items = []
        for it in (by if isinstance(by, list) else ([] if by is None else [by])):
            items.append(f"l:{it}" if isinstance(it, str) else "a:0")
        lv = [] if level is None else [0]
        ans = drv.ask(f"resolve cols={','.join(map(str, frame.columns))} idx={','.join('' if x is None else str(x) for x in frame.index.names) if any(x is not None for x in frame.index.names) else ''} "
                      f"by={','.join(items)} levels={','.join(map(str, lv))}")["model"]
        base_g = obj.groupby_fast(**({"by": by} if by is not None else {}), **({"level": level} if level is not None else {}))
        impl = f"keys:{len(resolved)};values:{','.join(map(str, base_g.value_columns))}"
        if ans == "error":
            return dict(res, verdict="disagreement", detail=dict(case=case, expected="model resolves the keys", actual=ans))
        mkeys, mvals = ans.split(";")
        model = f"keys:{len([k for k in mkeys[5:].split('|') if k])};values:{mvals[7:]}"
        kinds_ok = all((k.startswith("col:") and k[4:] in key_cols) or not k.startswith("col:") for k in mkeys[5:].split("|") if k)
        if model != impl or not kinds_ok or base_g.ngroups != len(groups):
            res.update(verdict="disagreement", detail=dict(case=case, expected=f"model {ans}", actual=f"implementation {impl}, ngroups {base_g.ngroups} (rows give {len(groups)})"))
            return res
        res["tags"].append("resolve-model-compared")
    try:
        # ---------------- structural methods ----------------
        if method == "ngroups":
            if g.ngroups != len(groups):
                return bad(f"{len(groups)} groups", g.ngroups)
            res.update(verdict="ok", detail=None)
            return res
        if method in ("iter", "groups"):
            tagged = obj.copy()
            if method == "groups":
                got = {tuple(cv(x) for x in (k if isinstance(k, tuple) else (k,))): sorted(int(i) for i in v) for k, v in g.groups.items()}
                want = {k: v for k, v in groups.items()}
                if got != want:
                    return bad(f"label -> row positions {want}", got)
                res.update(verdict="ok", detail=None)
                return res
            seen = {}
            for lab, part in g:
                lab_c = tuple(cv(x) for x in (lab if isinstance(lab, tuple) else (lab,)))
                if lab_c in seen:
                    return bad("every label once", f"label {lab_c} twice")
                # identify rows through values + index labels at the expected positions
                exp_rows = groups.get(lab_c)
                if exp_rows is None:
                    return bad(f"labels {sorted(groups)}", f"unexpected label {lab_c}")
                exp_part = obj.iloc[exp_rows]
                if frame is not None and isinstance(part, pd.Series) and part.name in frame.columns:
                    exp_part = exp_part[part.name]          # a single selected column is iterated as a Series
                elif frame is not None and isinstance(part, pd.DataFrame):
                    exp_part = exp_part[list(part.columns)]
                ok = len(part) == len(exp_part) and list(map(str, part.index)) == list(map(str, exp_part.index)) and \
                    all(same(cv(a), cv(b)) for a, b in zip(np.asarray(part, dtype=object).ravel().tolist(), np.asarray(exp_part, dtype=object).ravel().tolist()))
                if not ok:
                    return bad(f"group {lab_c}: rows at positions {exp_rows}: index {list(exp_part.index)}", f"index {list(part.index)} ({len(part)} rows)")
                seen[lab_c] = True
            if set(seen) != set(groups):
                return bad(f"labels {sorted(groups)}", sorted(seen))
            res.update(verdict="ok", detail=None)
            return res
        got = call(g, method, "facade")
    except Exception as e:  # noqa
        import traceback
        return bad("a result", f"{method} raised {type(e).__name__}: {str(e)[:200]}", tb=traceback.format_exc()[-400:])
    gi, gc, gcells = table(got)
    # ---------------- (3) structure ----------------
    if method != "size" and method != "cumcount":
        want_cols = [str(c) for c in final_cols]
        series_result = (frame is None) or (sel == "one" and sel_cols)
        if not series_result and gc != want_cols:
            return bad(f"columns {want_cols} (keys {key_cols} not aggregated, selection honoured)", gc)
        if series_result and len(gc) != 1:
            return bad("a single column (Series)", gc)
    if method == "cumcount":
        cnt, want = {}, []
        for i in range(n):
            gk = group_of[i]
            if gk is None:
                want.append(None)
            else:
                want.append(cnt.get(gk, 0))
                cnt[gk] = cnt.get(gk, 0) + 1
        flat = gcells[0] if gcells else []
        okc = len(flat) == n and all((w is None) or same(a, w) for a, w in zip(flat, want))
        if not okc or len(gcells) != 1:
            return bad(f"cumcount {want} (0.. within each group, whatever the values)", f"{gcells}")
    # ---------------- (1) the core engine ----------------
    try:
        core = core_call(method)
        ci, cc, ccells = table(core)
    except Exception as e:  # noqa
        core = None
    res["tags"].append("core-compared" if core is not None else "core-failed")
    if core is not None:
        if gi != ci or len(gcells) != len(ccells) or any(not all(same(a, b) for a, b in zip(x, y)) or len(x) != len(y) for x, y in zip(gcells, ccells)):
            return bad(f"core engine: index {ci[:6]} columns {cc} cells {ccells}", f"facade: index {gi[:6]} columns {gc} cells {gcells}", note="facade != core engine")
    # ---------------- (2) pandas ----------------
    if fmask is None and ((method in AGG and method != "median") or method.startswith("agg:") or method in CUM or method.startswith("rolling_")
                          or method in ("head", "tail", "nth")):
        try:
            pg = pandas_gb()
            if method.startswith("rolling_"):
                pr = getattr(pg.rolling(case["window"], min_periods=P["min_periods"]), method[8:])()
                # pandas returns rows grouped by label: bring back to the original row order through the hidden position
                pos = pd.Series(np.arange(n), index=obj.index)
                order = getattr(pg.__class__, "__name__", "")
                pr_frame = pr.to_frame() if isinstance(pr, pd.Series) else pr
                # positions: recompute with a rolling over the position column
                helper = (frame if frame is not None else series.to_frame()).assign(__pos=np.arange(n, dtype=float))
                hp = helper.groupby(**pandas_kw())["__pos"].rolling(1, min_periods=1).max()
                positions = [int(x) for x in hp.tolist()]
                pcols = [str(c) for c in pr_frame.columns if str(c) in [str(x) for x in final_cols]]
                pcells = []
                for c in pcols:
                    colv = [None] * n
                    for p_, v in zip(positions, pr_frame[c].tolist() if c in pr_frame.columns else pr_frame[[x for x in pr_frame.columns if str(x) == c][0]].tolist()):
                        colv[p_] = cv(v)
                    pcells.append(colv)
                rows_cmp = True
            else:
                pr = call(pg, method, "pandas") if not method.startswith("agg:") else pg.agg(method[4:])
                if method in ("head", "tail", "nth"):
                    # same rows (index labels in row order) as pandas; pandas keeps the key columns in head/tail of a frame: compare the value columns
                    if isinstance(pr, pd.DataFrame):
                        pr = pr[[c for c in pr.columns if c in final_cols]]
                    if list(map(str, pr.index)) != list(map(str, got.index)):
                        return bad(f"pandas {method}: rows {list(pr.index)}", f"facade: rows {list(got.index)}", note="selected rows differ from pandas")
                pi, pc, pcells = table(pr)
                rows_cmp = method in CUM
                if method in AGG or method.startswith("agg:"):
                    if method == "size":
                        pass
                    if pi != gi:
                        return bad(f"pandas labels {pi}", f"facade labels {gi}", note="labels differ from pandas")
                pcols = pc
        except Exception as e:  # noqa
            pcells = None
            res["tags"].append("pandas-failed:" + type(e).__name__)
        if pcells is not None:
            res["tags"].append("pandas-compared")
            if method in ("size", "cumcount"):
                pairs = list(zip(gcells[:1], pcells[:1]))
            else:
                # compare by column name
                pairs = []
                for j, c in enumerate(gc):
                    if c in pcols:
                        pairs.append((gcells[j], pcells[pcols.index(c)]))
                if len(pairs) != len(gc):
                    return bad(f"pandas columns {pcols}", f"facade columns {gc}", note="columns differ from pandas")
            for j, (a, b) in enumerate(pairs):
                if len(a) != len(b):
                    return bad(f"pandas: {len(b)} rows", f"facade: {len(a)} rows")
                for i, (x, y) in enumerate(zip(a, b)):
                    if rows_cmp:
                        # cumulative / rolling: compared at rows holding a non-null value (null handling at null rows differs by design)
                        col_name = gc[j] if method not in ("cumcount",) else None
                        if col_name is not None:
                            src = frame[col_name] if (frame is not None and col_name in frame.columns) else (series if frame is None else None)
                            if src is not None and pd.isna(src.iloc[i]):
                                continue
                        if null_key[i]:
                            continue
                    if method in ("std", "var") and (x is None or y is None):
                        if x is None and y is None:
                            continue
                    if not same(x, y):
                        return bad(f"pandas {method}: column {j} row/label {i}: {y}   (all: {b})", f"facade: {x}   (all: {a})", note="numbers differ from pandas")
    res.update(verdict="ok", detail=None)
    return res


def shrink_candidates(case):
    n = case["n"]
    if case["selection"] is not None:
        yield {**case, "selection": None}
    if case["index_kind"] not in ("default", "multi"):
        yield {**case, "index_kind": "default"}
    if len(case["cols"]) > 1:
        yield {**case, "cols": case["cols"][:1]}
    if n > 1:
        for i in range(n):
            perm = [p for j, p in enumerate(case["perm"]) if j != i]
            rank = {p: r for r, p in enumerate(sorted(perm))}
            yield {**case, "n": n - 1, "k1": case["k1"][:i] + case["k1"][i + 1:], "k2": case["k2"][:i] + case["k2"][i + 1:],
                   "lvl0": case["lvl0"][:i] + case["lvl0"][i + 1:], "perm": [rank[p] for p in perm],
                   "cols": [dict(dt=c["dt"], vals=c["vals"][:i] + c["vals"][i + 1:]) for c in case["cols"]]}


def main(tier, seed):
    return apirun.run_property(sys.modules[__name__], tier, seed)


def replay(path):
    return apirun.replay_property(sys.modules[__name__], path)
