"""C10 — EMA is the normalised exponentially weighted mean, per group."""
from __future__ import annotations

import math
import sys
from fractions import Fraction

from .. import apirun, common

PID = "C10"
MODULES = ["GroupbyVerif.Props.C10", "GroupbyVerif.LoopBridge.Ema"]
RULE = ("seeded random interleavings of <= 3 groups (null keys included), null/mask placements incl. leading nulls, value dtypes f64 f32 i32 i64; "
        "untimed: alpha in {1, 1/2, 1/4, 3/4} exactly (dyadic: float arithmetic exact on small inputs is NOT assumed - comparison is to 1e-12 relative) and "
        "real halflives {0.5, 1, 2.5, 7} vs alpha = 1 - 2^(-1/h); timed: irregular timestamps in s/ms/us/ns units incl. pre-1970, halflife strings incl. halflives that are not a whole number of the timestamps' unit (0.75 s, 1.75 s, 2.5 s), tz-aware timestamps across DST changes; "
        "entry points ema / ema_grouped / GroupBy.ema (both layouts, ndarray and indexed Series); relations: closed form, invalid rows repeat, null until "
        "first valid, group independence, halflife == alpha, grouped == ungrouped from the first valid row; non-trivial = a group with >= 2 valid rows; "
        "distinct = distinct (case, entry point)")
ASSUMPTIONS = [
    "exp/log rounding: results are compared with the exact rational closed form (untimed, rational alpha) or with a float closed form to 1e-9 relative (halflife / timed)",
]
TOL = 1e-9


def setup_worker():
    from ..numba_env import import_lib
    import_lib()


def fix_case(c):
    return c


def gen_cases(tier, rng):
    for c in common.load_corpus(PID):
        yield c
    n = 2500 if tier == "quick" else 50000
    for _ in range(n):
        L = rng.randint(1, 16)
        ng = rng.randint(1, 3)
        codes = [rng.choice(list(range(ng))) if rng.random() < 0.9 else -1 for _ in range(L)]
        dt = rng.choice(["f64", "f64", "f32", "i32", "i64"])
        null_ok = dt in ("f64", "f32")
        vals = [None if (null_ok and rng.random() < 0.25) else rng.choice([-3, 1, 2, 7, 10]) for _ in range(L)]
        if null_ok and rng.random() < 0.3:
            for i in range(rng.randint(1, 3)):
                if i < L:
                    vals[i] = None  # leading nulls
        mask = [rng.random() < 0.7 for _ in range(L)] if rng.random() < 0.3 else None
        variant = rng.choice(["alpha", "alpha", "halflife", "timed", "timed"])
        case = dict(codes=codes, vals=vals, dt=dt, mask=mask, ng=ng, variant=variant,
                    entry=rng.choice(["ema_grouped", "GroupBy.ema", "GroupBy.ema", "ema"]),
                    by_groups=rng.random() < 0.25, container=rng.choice(["ndarray", "series"]))
        if variant == "alpha":
            case["alpha"] = rng.choice([[1, 1], [1, 2], [1, 4], [3, 4], [1, 10]])
        elif variant == "halflife":
            case["halflife"] = rng.choice([0.5, 1, 2.5, 7])
        else:
            unit = rng.choice(["s", "ms", "us", "ns"])
            t0 = rng.choice([0, -100_000, 1_600_000_000])  # seconds; pre-1970 included
            steps = [rng.choice([0, 1, 2, 3, 10]) for _ in range(L)]
            ts, t = [], 0
            for s in steps:
                t += s
                ts.append(t)
            # halflives that are not a whole number of the timestamps' unit (0.75 s, 2.5 s with second-resolution times) included
            case.update(unit=unit, t0=t0, times=ts, halflife_s=rng.choice([1, 2, 5, 0.75, 2.5, 1.75]))
            if rng.random() < 0.25:
                # timezone-aware timestamps in a zone with daylight saving, half-hour steps across a clock change (the elapsed
                # time is the difference of the instants, not of the wall-clock readings)
                zone, start = rng.choice([("US/Eastern", 1_710_050_400), ("Europe/London", 1_729_981_800), ("UTC", 1_710_050_400),
                                          ("Australia/Lord_Howe", 1_712_412_000)])
                ts, t = [], 0
                for _ in range(L):
                    t += rng.choice([0, 1800, 1800, 3600, 5400])
                    ts.append(t)
                case.update(unit=rng.choice(["s", "ns"]), t0=start, times=ts, halflife_s=rng.choice([1800, 3600, 7200]), tz=zone)
            elif rng.random() < 0.3:
                # nanosecond-resolution ticks far from the epoch with a sub-microsecond halflife: any float64 detour of the
                # timestamps (2^53 < t) changes the elapsed times visibly
                base = 1_700_000_000_123_456_789
                tns, t = [], base
                for _ in range(L):
                    t += rng.choice([0, 37, 100, 450, 900, 2000])
                    tns.append(t)
                case.update(unit="ns", fine=True, times_ns=tns, halflife_ns=rng.choice([250, 500, 1000]))
        if case["entry"] == "ema":
            case["codes"] = [0] * L  # ungrouped entry point: one series
            case["ng"] = 1
            case["mask"] = None
            case["by_groups"] = False
        yield case


def closed_form(case):
    """exact (Fraction) or float oracle per row: list of None (null) / number; `K` for null-key rows"""
    codes, vals = case["codes"], case["vals"]
    L = len(codes)
    valid = [vals[i] is not None and (case["mask"] is None or case["mask"][i]) for i in range(L)]
    out = []
    if case["variant"] == "alpha":
        beta = 1 - Fraction(*case["alpha"])
    elif case["variant"] == "halflife":
        beta = 2.0 ** (-1.0 / case["halflife"])
    for i in range(L):
        g = codes[i]
        if g < 0:
            out.append("K")
            continue
        rows = [j for j in range(i + 1) if codes[j] == g]
        # last valid row at or before i
        lv = [j for j in rows if valid[j]]
        if not lv:
            out.append(None)
            continue
        last = lv[-1]
        num = den = 0
        for j in lv:
            if case["variant"] == "timed" and case.get("fine"):
                w = 2.0 ** (-(case["times_ns"][last] - case["times_ns"][j]) / case["halflife_ns"])
            elif case["variant"] == "timed":
                w = 2.0 ** (-(case["times"][last] - case["times"][j]) / case["halflife_s"])
            else:
                elapsed = rows.index(last) - rows.index(j)
                w = beta ** elapsed
            num += w * vals[j]
            den += w
        out.append(num / den)
    return out


def run_impl(case):
    import numpy as np
    import pandas as pd
    import groupby_lib
    from groupby_lib.emas import ema, ema_grouped
    from groupby_lib.groupby.core import GroupBy

    codes, vals, L = case["codes"], case["vals"], len(case["codes"])
    npdt = {"f64": np.float64, "f32": np.float32, "i32": np.int32, "i64": np.int64}[case["dt"]]
    values = np.array([np.nan if v is None else v for v in vals], dtype=npdt) if case["dt"][0] == "f" else np.array(vals, dtype=npdt)
    mask = None if case["mask"] is None else np.array(case["mask"], dtype=bool)
    kw = {}
    if case["variant"] == "alpha":
        kw["alpha"] = case["alpha"][0] / case["alpha"][1]
    elif case["variant"] == "halflife":
        kw["halflife"] = case["halflife"]
    else:
        if case.get("fine"):
            ts = np.array(case["times_ns"], dtype="int64").view("datetime64[ns]")
            kw["times"] = ts
            kw["halflife"] = pd.Timedelta(case["halflife_ns"], unit="ns")
        else:
            mult = {"s": 1, "ms": 10 ** 3, "us": 10 ** 6, "ns": 10 ** 9}[case["unit"]]
            ts = np.array([(case["t0"] + t) * mult for t in case["times"]], dtype="int64").view(f"datetime64[{case['unit']}]")
            if case.get("tz"):
                ts = pd.DatetimeIndex(ts).tz_localize("UTC").tz_convert(case["tz"])
            kw["times"] = ts
            hs = case["halflife_s"]
            kw["halflife"] = f"{hs}s" if float(hs).is_integer() else f"{int(round(hs * 1000))}ms"
    index = None
    if case["container"] == "series":
        index = pd.Index([f"r{(i * 5) % max(L, 1)}_{i}" for i in range(L)])
        values = pd.Series(values, index=index, name="v")
        if mask is not None:
            mask = pd.Series(mask, index=index)
        if "times" in kw:
            kw["times"] = pd.Series(kw["times"], index=index)
    if case["entry"] == "ema":
        out = ema(values, **kw)
        return np.asarray(out, dtype=float), None
    if case["entry"] == "ema_grouped":
        key = np.array(codes, dtype=np.int64)
        if index is not None:
            key = pd.Series(key, index=index)
        out = ema_grouped(key, case["ng"], values, mask=mask, **kw)
        return np.asarray(out, dtype=float), None
    keys = np.array([np.nan if c < 0 else c + 0.5 for c in codes])
    if index is not None:
        keys = pd.Series(keys, index=index)
    gb = GroupBy(keys)
    r = gb.ema(values, mask=mask, index_by_groups=case["by_groups"], **kw)
    if case["by_groups"]:
        return r, "by_groups"
    if index is not None and list(r.index) != list(index):
        raise AssertionError(f"result index {list(r.index)[:4]} differs from the input's")
    return r.to_numpy(dtype=float), None


def close(a, b):
    if a is None or b is None:
        return a is None and b is None
    return abs(float(a) - float(b)) <= TOL * max(1.0, abs(float(b)))


def evaluate(case, drv):
    import numpy as np
    codes, L = case["codes"], len(case["codes"])
    want = closed_form(case)
    nvalid = {}
    for i, c in enumerate(codes):
        if c >= 0 and case["vals"][i] is not None and (case["mask"] is None or case["mask"][i]):
            nvalid[c] = nvalid.get(c, 0) + 1
    res = dict(tags=[f"variant:{case['variant']}", f"entry:{case['entry']}", f"dt:{case['dt']}", "mask:" + ("b" if case["mask"] else "none"),
                     "by-groups" if case["by_groups"] else "flat", "null-key" if any(c < 0 for c in codes) else "no-null-key",
                     f"unit:{case.get('unit', '-')}", f"tz:{case.get('tz', '-')}", "pre1970" if case.get("t0", 0) < 0 else "post1970"],
               size=L, key=repr(sorted(case.items())), nontrivial=max(list(nvalid.values()) + [0]) >= 2,
               bucket=(case["variant"], case["entry"], case["by_groups"], case.get("unit"), case.get("t0", 0) < 0, any(c < 0 for c in codes),
                       case["mask"] is not None))

    def bad(actual, expected=None):
        res.update(verdict="violation", detail=dict(case=case, expected=str([None if w is None else (w if w == "K" else float(w)) for w in want])[:400]
                                                    if expected is None else expected, actual=str(actual)[:400]))
        return res

    # Lean model correspondence for the exact (rational alpha, untimed) variant
    model = None
    if case["variant"] == "alpha":
        xs = []
        for i in range(L):
            ok = case["vals"][i] is not None and (case["mask"] is None or case["mask"][i])
            xs.append(str(case["vals"][i]) if ok else "_")
        ans = drv.ask(f"ema beta={case['alpha'][1] - case['alpha'][0]}/{case['alpha'][1]} codes={','.join(map(str, codes))} vals={','.join(xs)}")
        model = []
        for cell in ans["model"].split(","):
            if cell == "K":
                model.append("K")
            elif cell == "_":
                model.append(None)
            else:
                a, b = cell.split("/") if "/" in cell else (cell, "1")
                model.append(Fraction(int(a), int(b)))
        spec = ans["spec"]
        if ans["model"] != spec:
            res.update(verdict="disagreement", detail=dict(case=case, model=ans["model"], spec=spec, actual="model != spec inside the driver"))
            return res
        for m, w in zip(model, want):
            if (m == "K") != (w == "K") or (m != "K" and not close(m, w)):
                res.update(verdict="disagreement", detail=dict(case=case, model=ans["model"], spec=str(want), actual="lean model != python oracle"))
                return res
    try:
        out, layout = run_impl(case)
    except Exception as e:  # noqa
        return bad(f"error:{type(e).__name__}: {str(e)[:200]}")
    if layout == "by_groups":
        # same numbers arranged group by group
        flat_case = {**case, "by_groups": False}
        try:
            flat, _ = run_impl(flat_case)
        except Exception as e:  # noqa
            return bad(f"error in flat layout:{type(e).__name__}")
        order = [i for i in sorted(range(L), key=lambda i: (codes[i], i)) if codes[i] >= 0]
        got = list(out.to_numpy(dtype=float))
        exp = [flat[i] for i in order]
        if len(got) != len(exp) or any(not ((math.isnan(a) and math.isnan(b)) or abs(a - b) <= TOL * max(1, abs(b))) for a, b in zip(got, exp)):
            return bad(got[:8], expected=f"flat numbers re-arranged {exp[:8]}")
        res.update(verdict="ok", detail=None)
        return res
    got = [None if math.isnan(v) else float(v) for v in out]
    if len(got) != L:
        return bad(f"{len(got)} rows for {L} inputs")
    first_valid_seen = False
    for i, (g, w) in enumerate(zip(got, want)):
        if w == "K":
            if g is not None:
                return bad(got)  # null-key rows: constant null marker
            continue
        if case["entry"] == "ema":
            # ungrouped entry: the property only speaks from the first valid observation on
            if w is None and not first_valid_seen:
                continue
            first_valid_seen = True
        if not close(g, w):
            return bad(got)
    res.update(verdict="ok", detail=None)
    return res


def shrink_candidates(case):
    L = len(case["codes"])
    if case["mask"] is not None:
        yield {**case, "mask": None}
    if case["container"] == "series":
        yield {**case, "container": "ndarray"}
    if case["by_groups"]:
        yield {**case, "by_groups": False}
    for i in range(L):
        if L <= 1:
            break
        c = dict(case)
        for k in ("codes", "vals", "mask", "times", "times_ns"):
            if case.get(k) is not None:
                c[k] = case[k][:i] + case[k][i + 1:]
        yield c
    if case["entry"] == "GroupBy.ema":
        yield {**case, "entry": "ema_grouped"}


def main(tier, seed):
    return apirun.run_property(sys.modules[__name__], tier, seed)


def replay(path):
    return apirun.replay_property(sys.modules[__name__], path)
