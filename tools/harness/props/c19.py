"""C19 — Operations never modify their inputs and results do not alias them."""
from __future__ import annotations

import sys

from .. import apirun, common
from ..containers import NUMPY_NULLABLE, describe_diff, scribble, snapshot, wrap

PID = "C19"
MODULES = ["GroupbyVerif.Props.C19"]
RULE = ("STATIC: the effect table of every function of groupby_lib (local in-place writes, calls with per-parameter aliases) is re-extracted from the source "
        "and the Lean certificate check proves that no public entry point reaches a write through a parameter or into a state buffer. DYNAMIC: seeded random "
        "histories of 1-3 operations on one grouping (all GroupBy reductions incl. transform, var/std/median/quantile/apply/agg/ratio/subset_ratio/density, "
        "cumulative, rolling, shift/diff, ema plain and timed, head/tail/nth, groups, group_nearby_members; crosstab, top-level ema/ema_grouped, nanops, "
        "factorize_1d/2d, monotonic / chunked key routes with thresholds scaled) x key containers {ndarray, strided view, pd.Series (indexed, arrow-backed), "
        "pd.Index, Categorical, pl.Series, pa.Array/ChunkedArray/Dictionary, zero-copy arrow over numpy, list} x value containers {ndarray, strided view, "
        "read-only ndarray, pd.Series, arrow-backed and chunked Series, pd.Index, pl.Series, pa arrays, zero-copy arrow over numpy, DataFrame, list, dict} x "
        "value dtypes {f64 i64 i32 u8 bool M8[ns] m8[s] tz-aware} x masks {none, bool ndarray/Series/polars/arrow, slice, positions}; after every call: "
        "byte-level snapshots of all input objects and of the numpy buffers they are views of are unchanged; the grouping's labels and row->label decoding are "
        "unchanged; the result is then edited in place (ndarray stores, res.iloc[:] = v, writable .values) and the inputs are still unchanged and the same call "
        "on the same grouping and on a fresh grouping returns the first result again; non-trivial = >= 3 rows and an edit of the result succeeded; distinct = "
        "distinct (dataset, containers, history)")
ASSUMPTIONS = ["a result is edited through the public ways only (its own ndarray, res.iloc[:] = v, a writable .values / to_numpy()); pandas index objects "
               "shared between input and result are not edited",
               "values are small integers, so repeated calls are bit-identical whatever the thread schedule"]
MAX_WORKERS = 12

GB_OPS = ["size", "count", "sum", "mean", "min", "max", "first", "last", "var", "std", "median", "quantile", "apply", "agg", "ratio", "subset_ratio", "density",
          "T:sum", "T:min", "T:first", "T:mean", "T:count", "T:size", "cumsum", "cummin", "cummax", "cumcount", "rolling_sum", "rolling_mean", "rolling_min",
          "rolling_max", "shift", "diff", "ema", "ema_timed", "head", "tail", "nth", "groups", "nearby", "margins:sum", "unobserved:sum"]
TOP_OPS = ["crosstab", "top_ema", "top_ema_timed", "top_ema_grouped", "nan:nansum", "nan:nanmax", "nan:nanmean", "factorize_1d", "factorize_2d"]
NUMERIC_ONLY = {"sum", "mean", "var", "std", "median", "quantile", "apply", "agg", "ratio", "subset_ratio", "density", "T:sum", "T:mean", "cumsum", "rolling_sum",
                "rolling_mean", "ema", "ema_timed", "nearby", "margins:sum", "unobserved:sum", "crosstab", "top_ema", "top_ema_timed", "top_ema_grouped",
                "nan:nansum", "nan:nanmax", "nan:nanmean"}
FLOAT_ONLY = {"var", "std", "median", "quantile", "apply", "ema", "ema_timed", "top_ema", "top_ema_timed", "top_ema_grouped", "nearby", "density"}
BOOL_MASK_ONLY = {"median", "quantile", "apply", "cumsum", "cummin", "cummax", "cumcount", "rolling_sum", "rolling_mean", "rolling_min", "rolling_max",
                  "shift", "diff", "ema", "ema_timed", "subset_ratio", "top_ema_grouped"}
NO_MASK = {"head", "tail", "nth", "groups", "nearby", "top_ema", "top_ema_timed", "nan:nansum", "nan:nanmax", "nan:nanmean", "factorize_1d", "factorize_2d"}
KEY_DTYPES = ["i64", "f64", "M8ns", "bool", "str"]
VAL_DTYPES = ["f64", "f64", "i64", "i32", "u8", "bool", "M8ns", "m8s", "M8us_tz"]
KEY_CONTAINERS = ["ndarray", "ndarray_strided", "pd_series", "pd_series_indexed", "pd_series_arrow", "pd_index", "pd_index_arrow", "pd_categorical", "pl_series", "pa_array",
                  "pa_chunked", "pa_dictionary", "pa_from_numpy", "list"]
VAL_CONTAINERS = ["ndarray", "ndarray_strided", "ndarray_readonly", "pd_series", "pd_series_indexed", "pd_series_arrow", "pd_series_arrow_chunked", "pd_index",
                  "pl_series", "pa_array", "pa_chunked", "pa_from_numpy", "frame", "list2", "dict2"]
MASK_KINDS = ["none", "none", "b:ndarray", "b:pd_series", "b:pl_series", "b:pa_array", "slice", "pos"]
STR = ["ka", "kb", "kc", "kd", "ke"]


def setup_worker():
    from ..numba_env import import_lib
    import_lib()


def fix_case(c):
    return c


def shard_of(case):
    return f"{case['vdt']}|{case['history'][0]}"


def _chunks(rng, n):
    k = rng.choice([1, 2, 3])
    cuts = sorted(rng.randint(0, n) for _ in range(k - 1))
    return [b - a for a, b in zip([0] + cuts, cuts + [n])]


def gen_cases(tier, rng):
    for c in common.load_corpus(PID):
        yield fix_case(c)
    total = 1500 if tier == "quick" else 30000
    for _ in range(total):
        n = rng.choice([1, 2, 3, 5, 8, 12, 20, 33])
        nkeys = rng.choice([1, 1, 1, 2])
        kdts = [rng.choice(KEY_DTYPES) for _ in range(nkeys)]
        keys = []
        for kd in kdts:
            hi = 2 if kd == "bool" else rng.randint(1, 4)
            mono = rng.random() < 0.25
            col = sorted(rng.randrange(hi) for _ in range(n)) if mono else [rng.randrange(hi) for _ in range(n)]
            if kd in ("f64", "M8ns", "str") and rng.random() < 0.4:
                col = [None if rng.random() < 0.2 else v for v in col]
            keys.append(col)
        history = [rng.choice(GB_OPS + GB_OPS + TOP_OPS) for _ in range(rng.choice([1, 1, 2, 3]))]
        vdt = rng.choice(VAL_DTYPES)
        if any(op in FLOAT_ONLY for op in history):
            vdt = "f64"
        elif any(op in NUMERIC_ONLY for op in history) and vdt in ("M8ns", "m8s", "M8us_tz", "bool"):
            vdt = rng.choice(["f64", "i64", "i32"])
        alpha = [0, 1] if vdt == "bool" else [1, 2, 3, 7]
        vals = [rng.choice(alpha) for _ in range(n)]
        if vdt in NUMPY_NULLABLE and rng.random() < 0.5:
            vals = [None if rng.random() < 0.25 else v for v in vals]
        if vdt == "f64" and rng.random() < 0.15:
            vals = [rng.choice(["inf", "-inf"]) if (v is not None and rng.random() < 0.3) else v for v in vals]   # "sanitising" the caller's data in place
        kconts = []
        for kd in kdts:
            ok = [c for c in KEY_CONTAINERS if not (kd == "str" and c in ("ndarray_strided", "pa_from_numpy")) and not (kd == "bool" and c == "pa_dictionary")]
            kconts.append(rng.choice(ok))
        vcont = rng.choice(VAL_CONTAINERS)
        if vdt == "M8us_tz" and vcont not in ("pd_series", "pd_series_indexed", "pd_series_arrow", "pd_index", "pa_array", "pa_chunked", "pl_series", "frame"):
            vcont = "pd_series"
        mk = rng.choice(MASK_KINDS)
        mask = None
        if mk.startswith("b:"):
            mask = dict(kind=mk, bits=[rng.random() < 0.7 for _ in range(n)])
        elif mk == "slice":
            mask = dict(kind="slice", start=rng.choice([None, 0, 1, -2, n // 2]), stop=rng.choice([None, n, -1, n // 2 + 1]))
        elif mk == "pos":
            mask = dict(kind="pos", pos=[rng.randrange(-n, n) for _ in range(rng.randint(0, n + 1))])
        yield dict(n=n, keys=keys, kdts=kdts, kconts=kconts, kchunks=[_chunks(rng, n) for _ in kdts], vals=vals, vdt=vdt, vcont=vcont, vchunks=_chunks(rng, n),
                   mask=mask, history=history, sort=rng.random() < 0.8, small_threshold=rng.random() < 0.3, threads=rng.choice([1, 1, 3]),
                   indexed=rng.random() < 0.5)


def build_key(col, kd, cont, chunks, name, index):
    import numpy as np
    import pandas as pd
    import polars as pl
    import pyarrow as pa
    if kd == "str":
        py = [None if v is None else STR[v] for v in col]
        if cont in ("ndarray",):
            return np.array(py, dtype=object), []
        if cont in ("pd_series", "pd_series_indexed"):
            return pd.Series(np.array(py, dtype=object), name=name, index=index if cont == "pd_series_indexed" else None), []
        if cont == "pd_index":
            return pd.Index(np.array(py, dtype=object), name=name), []
        if cont == "pd_categorical":
            return pd.Series(pd.Categorical(py, categories=STR), name=name), []
        if cont == "list":
            return list(py), []
        arr = pa.array(py, type=pa.string())
        if cont == "pa_array":
            return arr, []
        if cont == "pa_dictionary":
            return arr.dictionary_encode(), []
        if cont == "pa_chunked":
            out, o = [], 0
            for c in chunks:
                out.append(arr.slice(o, c))
                o += c
            return pa.chunked_array(out, type=pa.string()), []
        if cont == "pd_series_arrow":
            return pd.Series(pd.arrays.ArrowExtensionArray(pa.chunked_array([arr])), name=name), []
        if cont == "pd_index_arrow":
            return pd.Index(pd.arrays.ArrowExtensionArray(pa.chunked_array([arr])), name=name), []
        if cont == "pl_series":
            return pl.Series(name or "", arr), []
        raise ValueError(cont)
    return build_col(col, kd, cont, chunks, name, index)


def build_col(col, dt, cont, chunks, name, index):
    import numpy as np
    import pyarrow as pa
    if cont == "pa_from_numpy":
        from ..containers import numpy_column
        if any(v is None for v in col) or dt in ("bool", "M8us_tz"):
            cont = "pa_array"
        else:
            base = numpy_column(col, dt)
            return pa.array(base), [base]
    return wrap(col, dt, cont, chunks=chunks, name=name, index=index if cont == "pd_series_indexed" else None)


def evaluate(case, drv):
    import numpy as np
    import pandas as pd
    import polars as pl
    import pyarrow as pa
    from groupby_lib import emas, nanops
    from groupby_lib.groupby import core as core_mod
    from groupby_lib.groupby import factorization as fz
    from groupby_lib.groupby.core import GroupBy, crosstab

    n = case["n"]
    key = repr(sorted((k, str(v)) for k, v in case.items()))
    res = dict(tags=[f"op:{o}" for o in case["history"]] + [f"vcont:{case['vcont']}", f"vdt:{case['vdt']}", f"hist:{len(case['history'])}",
                                                             "mask:" + ("none" if case["mask"] is None else case["mask"]["kind"])]
               + [f"kcont:{c}" for c in case["kconts"]] + [f"kdt:{d}" for d in case["kdts"]],
               size=n, key=key, nontrivial=False, bucket=(case["history"][0], case["vcont"], case["kconts"][0], case["vdt"]))

    def bad(msg, **kw):
        res.update(verdict="violation", detail=dict(case=case, expected="inputs unchanged, results independent", actual=msg, **kw))
        return res

    index = pd.Index([f"r{(i * 7) % max(n, 1)}_{i}" for i in range(n)]) if case["indexed"] else None
    owners = []
    try:
        key_objs = []
        for j, (col, kd, kc, ch) in enumerate(zip(case["keys"], case["kdts"], case["kconts"], case["kchunks"])):
            if index is not None and kc in ("pd_series", "pd_series_arrow", "pd_categorical"):
                kc2 = "pd_series_indexed" if kc == "pd_series" else kc
            else:
                kc2 = kc
            o, own = build_key(col, kd, kc2, ch, f"k{j}", index)
            if index is not None and isinstance(o, pd.Series) and not o.index.equals(index):
                o.index = index
            key_objs.append(o)
            owners += own
        keys = key_objs[0] if len(key_objs) == 1 else key_objs
        pandas_keys = any(isinstance(k, pd.Series) and index is not None for k in key_objs)
        vc = case["vcont"]

        def one_value(scale, name):
            vals = [v if (v is None or isinstance(v, str)) else (v * scale if case["vdt"] != "bool" else v) for v in case["vals"]]
            c = vc if vc not in ("frame", "list2", "dict2") else ("pd_series" if vc == "frame" else "ndarray")
            if c in ("pd_series", "pd_series_indexed") and index is not None:
                c = "pd_series_indexed"
            o, own = build_col(vals, case["vdt"], c, case["vchunks"], name, index)
            if isinstance(o, pd.Series) and index is not None and not o.index.equals(index):
                o = o.set_axis(index)
            return o, own
        v1, own = one_value(1, "v")
        owners += own
        if vc in ("frame", "list2", "dict2"):
            v2, own2 = one_value(2, "w")
            owners += own2
            values = pd.DataFrame({"v": v1, "w": v2}, copy=False) if vc == "frame" else ([v1, v2] if vc == "list2" else {"v": v1, "w": v2})
        else:
            values = v1
        m = case["mask"]
        mask = None
        if m is not None:
            if m["kind"].startswith("b:"):
                bits = np.array(m["bits"], dtype=bool)
                owners.append(bits)
                mk = m["kind"][2:]
                mask = bits if mk == "ndarray" else pd.Series(bits, index=index, copy=False) if mk == "pd_series" else pl.Series("m", bits) if mk == "pl_series" else pa.array(bits)
            elif m["kind"] == "slice":
                mask = slice(m["start"], m["stop"])
            else:
                mask = np.array(m["pos"], dtype=np.int64)
                owners.append(mask)
        times_base = np.array([1_600_000_000 + 2 * i for i in range(n)], dtype="int64").view("datetime64[s]")
        owners.append(times_base)
        times = pd.Series(times_base, index=index, copy=False) if index is not None else times_base
        second = np.array([(1 if (v is None or isinstance(v, str)) else v) + 1.0 for v in case["vals"]], dtype=np.float64)
        owners.append(second)
        second_obj = pd.Series(second, index=index, copy=False) if (index is not None and pandas_keys) else second
        global_mask_base = np.array([i % 4 != 1 for i in range(n)], dtype=bool)
        owners.append(global_mask_base)
        global_mask_series = pd.Series(global_mask_base, index=index, copy=False)
    except ValueError as e:
        res.update(verdict="ok", detail=None, tags=res["tags"] + ["unbuildable:" + str(e)[:30]])
        return res

    inputs = dict(keys=keys, values=values, mask=mask, times=times, second=second_obj, global_mask=global_mask_series, owners=owners)

    def snap_inputs():
        return {k: snapshot(v) for k, v in inputs.items()}

    def bool_mask():
        return mask if (m is not None and m["kind"].startswith("b:")) else None

    def mask_for(op):
        if op in NO_MASK:
            return None
        if op in BOOL_MASK_ONLY:
            return bool_mask()
        return mask

    first_values = v1

    def call(gb, op):
        mk = mask_for(op)
        if op == "crosstab":
            return crosstab(key_objs[0], key_objs[-1], values=first_values, aggfunc="sum", mask=bool_mask())
        if op == "top_ema":
            return emas.ema(first_values, alpha=0.5)
        if op == "top_ema_timed":
            return emas.ema(first_values, halflife="2s", times=times)
        if op == "top_ema_grouped":
            return emas.ema_grouped(np.array([0 if v is None else v for v in case["keys"][0]], dtype=np.int64), 5, first_values, alpha=0.5, mask=bool_mask())
        if op.startswith("nan:"):
            return getattr(nanops, op[4:])(first_values)
        if op == "factorize_1d":
            return fz.factorize_1d(key_objs[0], sort=case["sort"])
        if op == "factorize_2d":
            return fz.factorize_2d(*key_objs, key_objs[0])
        if op == "size":
            return gb.size(mask=mk)
        if op == "T:size":
            return gb.size(mask=mk, transform=True)
        if op == "cumcount":
            return gb.cumcount(mask=mk)
        if op == "groups":
            return gb.groups
        if op.startswith("T:"):
            return getattr(gb, op[2:])(values, mask=mk, transform=True)
        if op == "margins:sum":
            return gb.sum(values, mask=mk, margins=True)
        if op == "unobserved:sum":
            return gb.sum(values, mask=mk, observed_only=False)
        if op in ("count", "sum", "mean", "min", "max", "first", "last", "var", "std", "median", "cumsum", "cummin", "cummax"):
            return getattr(gb, op)(values, mask=mk)
        if op == "quantile":
            return gb.quantile(values, q=[0.5], mask=mk)
        if op == "apply":
            return gb.apply(values, np.nansum, mask=mk)
        if op == "agg":
            return gb.agg(values, ["sum", "max"], mask=mk)
        if op == "ratio":
            return gb.ratio(first_values, second_obj, mask=mk)
        if op == "subset_ratio":
            bm = bool_mask()
            if bm is None:
                bm = np.ones(n, dtype=bool) if not pandas_keys else pd.Series(np.ones(n, dtype=bool), index=index)
            gm = global_mask_series if isinstance(bm, pd.Series) else global_mask_base
            return gb.subset_ratio(values, bm, global_mask=gm)
        if op == "density":
            return gb.density(values, mask=mk)
        if op.startswith("rolling_"):
            return getattr(gb, op)(values, window=2, min_periods=1, mask=mk)
        if op in ("shift", "diff"):
            return getattr(gb, op)(values, window=1, mask=mk)
        if op == "ema":
            return gb.ema(values, alpha=0.5, mask=mk)
        if op == "ema_timed":
            return gb.ema(values, halflife="2s", times=times, mask=mk)
        if op in ("head", "tail"):
            return getattr(gb, op)(values, 2, keep_input_index=True)
        if op == "nth":
            return gb.nth(values, 1, keep_input_index=True)
        if op == "nearby":
            return gb.group_nearby_members(first_values, 1.5)
        raise ValueError(op)

    def grouping_state(gb):
        """labels and the row -> label decoding, read from the private representation without touching it"""
        try:
            ri = gb._result_index
            labels = [repr(x) for x in ri] if ri is not None else None
            ik = gb._group_ikey
            ptrs = gb._group_key_pointers if hasattr(gb, "_group_key_pointers") else None
            if isinstance(ik, pa.ChunkedArray):
                rows = []
                for ci, ch in enumerate(ik.chunks):
                    codes = np.asarray(ch)
                    if ptrs is not None:
                        p = np.asarray(ptrs[ci])
                        codes = np.where(codes >= 0, p[np.clip(codes, 0, max(len(p) - 1, 0))] if len(p) else -1, -1)
                    rows += [int(c) for c in codes]
            else:
                rows = [int(c) for c in np.asarray(ik)]
            decoded = [None if c < 0 else labels[c] for c in rows] if labels is not None else rows
            return (labels, decoded)
        except Exception as e:  # noqa
            return ("unreadable", type(e).__name__)

    old_thr = core_mod.THRESHOLD_FOR_CHUNKED_FACTORIZE
    old_threads = GroupBy.__dict__.get("_max_threads_for_numba")
    try:
        if case["small_threshold"]:
            core_mod.THRESHOLD_FOR_CHUNKED_FACTORIZE = 8
        if case["threads"] > 1:
            GroupBy._max_threads_for_numba = property(lambda self: case["threads"])
        before = snap_inputs()
        try:
            gb = GroupBy(keys, sort=case["sort"])
        except Exception as e:  # noqa
            d = describe_diff(before, snap_inputs())
            if d:
                return bad(f"GroupBy() raised {type(e).__name__} and left an input modified: {d}")
            res.update(verdict="ok", detail=None, tags=res["tags"] + ["ctor-rejected"])
            return res
        d = describe_diff(before, snap_inputs())
        if d:
            return bad(f"constructing the grouping modified an input: {d}")
        state0 = grouping_state(gb)
        res["tags"].append("chunked-keys" if gb.key_is_chunked else "flat-keys")
        edits = 0
        for step, op in enumerate(case["history"]):
            try:
                r1 = call(gb, op)
            except Exception as e:  # noqa
                d = describe_diff(before, snap_inputs())
                if d:
                    return bad(f"step {step} {op} raised {type(e).__name__} and left an input modified: {d}")
                res["tags"].append("rejected:" + op)
                continue
            d = describe_diff(before, snap_inputs())
            if d:
                return bad(f"step {step} {op} modified an input: {d}", step=step, op=op)
            st = grouping_state(gb)
            if st[0] != "unreadable" and state0[0] != "unreadable" and st != state0:
                return bad(f"step {step} {op} changed the grouping's labels / row decoding", step=step, op=op, before=str(state0)[:300], after=str(st)[:300])
            if op == "groups":
                r1 = {k: v for k, v in r1.items()}
            c1 = snapshot(r1)
            k = scribble(list(r1.values()) if isinstance(r1, dict) else r1)
            edits += k
            d = describe_diff(before, snap_inputs())
            if d:
                return bad(f"editing the result of step {step} {op} in place changed an input (the result aliases it): {d}", step=step, op=op)
            st = grouping_state(gb)
            if st[0] != "unreadable" and state0[0] != "unreadable" and st != state0:
                return bad(f"editing the result of step {step} {op} changed the grouping's labels / row decoding", step=step, op=op,
                           before=str(state0)[:300], after=str(st)[:300])
            try:
                r2 = call(gb, op)
                if op == "groups":
                    r2 = {k: v for k, v in r2.items()}
                c2 = snapshot(r2)
            except Exception as e:  # noqa
                return bad(f"step {step} {op}: the same call after editing its first result raised {type(e).__name__}: {str(e)[:120]}", step=step, op=op)
            if c2 != c1:
                # control: is it the edit, or does a second call differ anyway (history dependence: C13's subject, not aliasing)?
                try:
                    ctl = GroupBy(keys, sort=case["sort"])
                    for prev in case["history"][:step]:
                        try:
                            call(ctl, prev)
                        except Exception:  # noqa
                            pass
                    k1 = snapshot((lambda r: dict(r) if op == "groups" else r)(call(ctl, op)))
                    k2 = snapshot((lambda r: dict(r) if op == "groups" else r)(call(ctl, op)))
                    unedited_differs = k1 != k2
                except Exception:  # noqa
                    unedited_differs = False
                if unedited_differs:
                    res["tags"].append("second-call-differs-without-edit")
                else:
                    return bad(f"step {step} {op}: the same call after editing its first result returns something else: {describe_diff(c1, c2, 'result')}", step=step, op=op)
            try:
                c3 = snapshot((lambda r: {k: v for k, v in r.items()} if op == "groups" else r)(call(GroupBy(keys, sort=case["sort"]), op)))
            except Exception as e:  # noqa
                return bad(f"step {step} {op}: a fresh grouping after the history raised {type(e).__name__}: {str(e)[:120]}", step=step, op=op)
            if c3 != c1 and step == 0:
                return bad(f"step {step} {op}: a fresh grouping returns something else than the first call: {describe_diff(c1, c3, 'result')}", step=step, op=op)
        res["nontrivial"] = n >= 3 and edits > 0
        res["tags"].append("edited" if edits else "no-edit-possible")
    finally:
        core_mod.THRESHOLD_FOR_CHUNKED_FACTORIZE = old_thr
        if old_threads is not None:
            GroupBy._max_threads_for_numba = old_threads
    res.update(verdict="ok", detail=None)
    return res


def shrink_candidates(case):
    if len(case["history"]) > 1:
        for i in range(len(case["history"])):
            yield {**case, "history": case["history"][:i] + case["history"][i + 1:]}
    if case["mask"] is not None:
        yield {**case, "mask": None}
    if case["small_threshold"]:
        yield {**case, "small_threshold": False}
    if case["threads"] != 1:
        yield {**case, "threads": 1}
    if case["indexed"]:
        yield {**case, "indexed": False}
    if len(case["keys"]) > 1:
        yield {**case, "keys": case["keys"][:1], "kdts": case["kdts"][:1], "kconts": case["kconts"][:1], "kchunks": case["kchunks"][:1]}
    n = case["n"]
    if n > 1:
        for i in range(n):
            c = {**case, "n": n - 1, "keys": [col[:i] + col[i + 1:] for col in case["keys"]], "vals": case["vals"][:i] + case["vals"][i + 1:],
                 "kchunks": [[n - 1] for _ in case["kchunks"]], "vchunks": [n - 1]}
            if case["mask"] is not None:
                mk = dict(case["mask"])
                if "bits" in mk:
                    mk["bits"] = mk["bits"][:i] + mk["bits"][i + 1:]
                elif "pos" in mk:
                    mk["pos"] = [p for p in mk["pos"] if -(n - 1) <= p < n - 1]
                c["mask"] = mk
            yield c


def static_findings():
    """when the Lean obligations on the generated table fail: name the offending public entry points (for the replay file)"""
    sys.path.insert(0, str(common.VERIF / "tools"))
    import effects
    import effects_lean
    fns = effects.analyse(common.REPO / "groupby_lib")
    W = effects.propagate(fns)
    out = []
    for q, fn in fns.items():
        if not effects_lean.is_public(q, fn):
            continue
        params = [p for p in fn.params if p not in ("self", "cls")]
        for (root, depth, mode), why in W[q].items():
            if root in params or mode == "buf":
                chain, cur, w = [], q, (root, depth, mode)
                for _ in range(12):
                    info = W[cur][w]
                    if info[0] == "local":
                        chain.append(f"{cur} lines {list(info[1])}")
                        break
                    chain.append(f"{cur}:{info[2]} -> {info[1]}")
                    cur, w = info[1], info[3]
                out.append(dict(entry=q, root=root, depth=depth, mode=mode, chain=chain))
    return out


def main(tier, seed):
    return apirun.run_property(sys.modules[__name__], tier, seed)


def replay(path):
    return apirun.replay_property(sys.modules[__name__], path)
