"""C20 — Stand-alone array helpers agree with their NumPy definitions."""
from __future__ import annotations

import itertools
import math
import sys
import warnings
from fractions import Fraction

from .. import apirun, common

PID = "C20"
MODULES = ["GroupbyVerif.Props.C20", "GroupbyVerif.LoopBridge.NbReduce", "GroupbyVerif.LoopBridge.Dot", "GroupbyVerif.LoopBridge.IsNull"]
RULE = ("nanops: exhaustive null placements for float arrays of length 1..8 (quick) / 1..12 (thorough) x threads 1..8 x {nansum nanmean nanmin nanmax nanvar "
        "nanstd count} plus seeded random float/int64/int32 arrays up to length 40 and 2-D arrays (both axes, sum/min/max); oracle NumPy's nan-functions "
        "(exact rational arithmetic for mean/var on small integers) and the Lean model of reduce_1d for sum/min/max/count; nb_dot: random int/float matrices "
        "(float ones also with +-inf / NaN entries, coefficient vectors with zeros) as ndarray / pandas / polars frames vs the ordinary product; bools_to_categorical: ALL boolean frames up to 4 rows x 3 columns plus random wider "
        "ones vs 'label names exactly the true columns'; pretty_cut: integer and decimal edge grids incl. values equal to edges, unsorted edges, nulls vs "
        "'the printed bounds of the assigned bin contain the value'; non-trivial = array with >= 2 elements and >= 2 threads or >= 1 null; "
        "distinct = distinct (helper, input, threads)")
ASSUMPTIONS = ["float arrays hold small integers (sums exact); var/std compared to 1e-9 relative against exact rational arithmetic"]
MAX_WORKERS = 8


def setup_worker():
    from ..numba_env import import_lib
    import_lib()


def fix_case(c):
    return c


def shard_of(case):
    return f"{case['helper']}|{case.get('fn')}|{case.get('dt')}"


def gen_cases(tier, rng):
    for c in common.load_corpus(PID):
        yield c
    maxlen = 8 if tier == "quick" else 12
    fns = ["nansum", "nanmean", "nanmin", "nanmax", "nanvar", "nanstd", "count"]
    for L in range(1, maxlen + 1):
        for nulls in itertools.product([0, 1], repeat=L):
            if tier == "quick" and L > 6 and rng.random() > 0.25:
                continue
            arr = [None if z else rng.choice([-3, 1, 2, 7]) for z in nulls]
            for t in range(1, 9):
                fn = rng.choice(fns)
                yield dict(helper="nanop", fn=fn, dt="f64", arr=arr, threads=t, ddof=rng.choice([0, 1]))
    n = 1500 if tier == "quick" else 20000
    for _ in range(n):
        L = rng.randint(1, 40)
        dt = rng.choice(["f64", "f32", "i64", "i32"])
        arr = [None if (dt[0] == "f" and rng.random() < 0.3) else rng.randint(-20, 20) for _ in range(L)]
        yield dict(helper="nanop", fn=rng.choice(fns), dt=dt, arr=arr, threads=rng.randint(1, 8), ddof=rng.choice([0, 1]))
    # long float32 arrays (built from a few parameters so that the case stays small): NumPy sums float32 pairwise, so a
    # sequential float32 accumulation drifts from it by far more than the tolerance; 2**24 + 1000 ones stop growing at 2**24
    for _ in range(12 if tier == "quick" else 60):
        kind = rng.choice(["uniform", "uniform", "ones"])
        n = rng.choice([200_000, 400_000]) if kind == "uniform" else rng.choice([2 ** 24 + 1000, 2 ** 24 + 12345]) if rng.random() < 0.2 else rng.randint(10, 5000)
        yield dict(helper="nanop_long", fn=rng.choice(["nansum", "nanmean", "nanvar", "nanstd", "nansum2d"]), dt=rng.choice(["f32", "f32", "f64"]), kind=kind, n=n,
                   gseed=rng.randrange(1 << 30), nulls=rng.random() < 0.5, threads=rng.choice([1, 1, 2, 4, 8]), ddof=rng.choice([0, 1]))
    # non-finite values: inf - inf = NaN must come out the same for every thread count (NumPy on the same array is the oracle)
    for _ in range(600 if tier == "quick" else 8000):
        L = rng.randint(2, 12)
        arr = [rng.choice([None, "inf", "-inf", "inf", "-inf", 1, 2, -3, 7]) for _ in range(L)]
        yield dict(helper="nanop_inf", fn=rng.choice(["nansum", "nanmean", "nanmin", "nanmax"]), dt="f64", arr=arr, threads=rng.randint(1, 8))
    for _ in range(300 if tier == "quick" else 3000):
        r, c = rng.randint(1, 6), rng.randint(1, 5)
        mat = [[None if rng.random() < 0.25 else rng.randint(-9, 9) for _ in range(c)] for _ in range(r)]
        yield dict(helper="nanop2d", fn=rng.choice(["nansum", "nanmin", "nanmax"]), dt="f64", mat=mat, axis=rng.choice([0, 1]), threads=rng.choice([1, 2, 3]))
    for _ in range(300 if tier == "quick" else 3000):
        r, c = rng.randint(0, 6), rng.randint(1, 5)
        fl = rng.random() < 0.5
        mat = [[rng.randint(-9, 9) for _ in range(c)] for _ in range(r)]
        b = [rng.choice([0, 0, rng.randint(-5, 5)]) if rng.random() < 0.4 else rng.randint(-5, 5) for _ in range(c)]
        if fl and rng.random() < 0.5:
            # non-finite entries: inf * 0 and nan * 0 are nan in the ordinary product
            mat = [[rng.choice(["inf", "-inf", "nan"]) if rng.random() < 0.25 else v for v in row] for row in mat]
        yield dict(helper="dot", mat=mat, b=b, float=fl, container=rng.choice(["ndarray", "pandas", "polars"]))
    for nrows in range(1, 5):
        for ncols in range(1, 4):
            for bits in itertools.product([0, 1], repeat=nrows * ncols):
                if tier == "quick" and nrows * ncols > 8 and rng.random() > 0.2:
                    continue
                yield dict(helper="boolcat", rows=[list(bits[i * ncols:(i + 1) * ncols]) for i in range(nrows)])
    for _ in range(100 if tier == "quick" else 1000):
        nrows, ncols = rng.randint(1, 8), rng.randint(4, 9)
        yield dict(helper="boolcat", rows=[[rng.randint(0, 1) for _ in range(ncols)] for _ in range(nrows)])
    for _ in range(400 if tier == "quick" else 5000):
        kind = rng.choice(["int", "dec1", "dec2", "dec3"])
        nb = rng.randint(1, 4)
        if kind == "int":
            edges = rng.sample(range(-5, 12), nb)
            xs = [rng.choice(edges + list(range(-7, 14))) for _ in range(rng.randint(1, 8))]
        else:
            d = int(kind[-1])
            edges = [round(rng.randint(-300, 1200) / 10 ** d, d) for _ in range(nb)]
            xs = [rng.choice(edges + [round(rng.randint(-400, 1300) / 10 ** d + rng.choice([0, 10 ** -(d + 1)]), d + 1)]) for _ in range(rng.randint(1, 8))]
            xs = [None if rng.random() < 0.1 else x for x in xs]
        yield dict(helper="cut", kind=kind, edges=edges, xs=xs)


def np_oracle(fn, vals, ddof):
    nn = [v for v in vals if v is not None]
    n = len(nn)
    if fn == "count":
        return n
    if fn == "nansum":
        return sum(nn)
    if n == 0:
        return None
    if fn == "nanmin":
        return min(nn)
    if fn == "nanmax":
        return max(nn)
    mean = Fraction(sum(nn), n)
    if fn == "nanmean":
        return mean
    if n - ddof <= 0:
        return None
    var = sum((Fraction(v) - mean) ** 2 for v in nn) / (n - ddof)
    if fn == "nanvar":
        return var
    return math.sqrt(var)


def close(a, b):
    if a is None or b is None:
        return a is None and b is None
    return abs(float(a) - float(b)) <= 1e-9 * max(1.0, abs(float(b)))


def evaluate(case, drv):
    import numpy as np
    import pandas as pd
    import polars as pl
    import groupby_lib
    from groupby_lib import nanops
    from groupby_lib.util import bools_to_categorical, nb_dot, pretty_cut

    h = case["helper"]
    key = repr(sorted(case.items()))
    res = dict(tags=[f"helper:{h}", f"fn:{case.get('fn')}", f"dt:{case.get('dt')}", f"threads:{case.get('threads')}"], size=len(case.get("arr", case.get("rows", case.get("xs", case.get("mat", []))))),
               key=key, nontrivial=True, bucket=(h, case.get("fn"), case.get("dt")))

    def bad(exp, act, verdict="violation", **kw):
        res.update(verdict=verdict, detail=dict(case=case, expected=str(exp)[:300], actual=str(act)[:300], **kw))
        return res

    warnings.simplefilter("ignore")
    if h == "nanop":
        vals, dt, fn, t = case["arr"], case["dt"], case["fn"], case["threads"]
        npdt = {"f64": np.float64, "f32": np.float32, "i64": np.int64, "i32": np.int32}[dt]
        arr = np.array([np.nan if v is None else v for v in vals], dtype=npdt)
        res["nontrivial"] = len(vals) >= 2 and (t >= 2 or any(v is None for v in vals))
        if t > len(vals):
            res["tags"].append("threads>len")
        try:
            if fn == "count":
                got = nanops.count(arr)
            elif fn in ("nanvar", "nanstd"):
                got = getattr(nanops, fn)(arr, n_threads=t, ddof=case["ddof"])
            else:
                got = getattr(nanops, fn)(arr, n_threads=t)
            if not isinstance(got, (int, float, np.integer, np.floating)):
                got = np.asarray(got).item() if np.ndim(got) == 0 else got
            got = None if (isinstance(got, (float, np.floating)) and math.isnan(got)) else got
        except Exception as e:  # noqa
            return bad(np_oracle(fn, vals, case["ddof"]), f"error:{type(e).__name__}: {str(e)[:150]}")
        exp = np_oracle(fn, vals, case["ddof"])
        if dt[0] == "i" and exp is None and fn in ("nanmean", "nanvar", "nanstd", "nanmin", "nanmax"):
            pass
        if not close(got, exp):
            return bad(exp, got)
        # correspondence with the Lean model of reduce_1d (exact ops)
        if fn in ("nansum", "nanmin", "nanmax", "count") and dt == "f64":
            op = {"nansum": "sum", "nanmin": "min", "nanmax": "max", "count": "count"}[fn]
            ans = drv.ask(f"nanop fn={op} kind=f arr={','.join('_' if v is None else str(v) for v in vals)} threads={1 if fn == 'count' else t} skipna=1")
            if ans["model"] != "undefined":
                m = None if ans["model"] == "_" else int(ans["model"])
                if not close(got, m):
                    return bad(ans["model"], got, verdict="disagreement", spec=ans["spec"])
                if ans["model"] != ans["spec"]:
                    return bad(ans["spec"], ans["model"], verdict="disagreement", note="model != spec inside the driver")
            else:
                res["tags"].append("model-undefined(empty chunk)")
        res.update(verdict="ok", detail=None)
        return res
    if h == "nanop_long":
        g = np.random.default_rng(case["gseed"])
        n, fn, t = case["n"], case["fn"], case["threads"]
        npdt = np.float32 if case["dt"] == "f32" else np.float64
        arr = (np.ones(n, dtype=npdt) if case["kind"] == "ones" else (g.random(n) * 1000).astype(npdt))
        if case["nulls"] and case["kind"] != "ones":
            arr[g.random(n) < 0.05] = np.nan
        res["size"] = n
        ref = arr.astype(np.float64)
        try:
            if fn == "nansum2d":
                m = arr[: (n // 3) * 3].reshape(3, -1)
                got = np.asarray(nanops.nansum(m, axis=1, n_threads=t), dtype=np.float64)
                exp = np.nansum(ref[: (n // 3) * 3].reshape(3, -1), axis=1)
            elif fn in ("nanvar", "nanstd"):
                got = np.asarray(getattr(nanops, fn)(arr, n_threads=t, ddof=case["ddof"]), dtype=np.float64)
                exp = np.asarray(getattr(np, fn)(ref, ddof=case["ddof"]))
            else:
                got = np.asarray(getattr(nanops, fn)(arr, n_threads=t), dtype=np.float64)
                exp = np.asarray(getattr(np, fn)(ref))
        except Exception as e:  # noqa
            return bad("numpy " + fn, f"error:{type(e).__name__}: {str(e)[:150]}")
        # NumPy on the same float32 array is pairwise: relative error about 1e-7 * log2(n); allow 5e-6
        if not np.allclose(got, exp, rtol=5e-6, atol=0, equal_nan=True):
            return bad(exp.tolist(), got.tolist(), note="long float32/float64 array against NumPy on the float64 copy")
        res.update(verdict="ok", detail=None)
        return res
    if h == "nanop_inf":
        arr = np.array([np.nan if v is None else float(v) for v in case["arr"]], dtype=np.float64)
        fn, t = case["fn"], case["threads"]
        res["nontrivial"] = t >= 2
        with np.errstate(all="ignore"):
            exp = float(getattr(np, fn)(arr)) if not (np.isnan(arr).all() and fn in ("nanmin", "nanmax", "nanmean")) else float("nan")
        try:
            got = float(np.asarray(getattr(nanops, fn)(arr, n_threads=t)).item())
        except Exception as e:  # noqa
            return bad(exp, f"error:{type(e).__name__}: {str(e)[:150]}")
        same = (math.isnan(exp) and math.isnan(got)) or exp == got or (math.isfinite(exp) and math.isfinite(got) and abs(exp - got) <= 1e-9 * max(1.0, abs(exp)))
        if not same:
            return bad(exp, got, note="non-finite values")
        res.update(verdict="ok", detail=None)
        return res
    if h == "nanop2d":
        mat = np.array([[np.nan if v is None else v for v in row] for row in case["mat"]], dtype=np.float64)
        fn, axis = case["fn"], case["axis"]
        try:
            got = getattr(nanops, fn)(mat, axis=axis, n_threads=case["threads"])
        except Exception as e:  # noqa
            return bad("numpy " + fn, f"error:{type(e).__name__}: {str(e)[:150]}")
        exp = getattr(np, fn)(mat, axis=axis)
        if not np.allclose(np.asarray(got, dtype=float), exp, equal_nan=True, rtol=1e-12, atol=0):
            return bad(exp.tolist(), np.asarray(got).tolist())
        res.update(verdict="ok", detail=None)
        return res
    if h == "dot":
        a = np.array([[float(v) for v in row] for row in case["mat"]] if case["float"] else case["mat"],
                     dtype=np.float64 if case["float"] else np.int64).reshape(len(case["mat"]), len(case["b"]))
        if any(isinstance(v, str) for row in case["mat"] for v in row):
            res["tags"].append("non-finite")
        b = np.array(case["b"], dtype=np.float64 if case["float"] else np.int64)
        with np.errstate(all="ignore"):
            exp = a @ b
            # the ordinary product, term by term in column order (what `@` means; BLAS may reorder finite sums, not these small exact ones)
            exp2 = np.array([sum((a[i, j] * b[j] for j in range(a.shape[1])), start=b.dtype.type(0)) for i in range(a.shape[0])], dtype=exp.dtype)
        if not np.array_equal(exp, exp2, equal_nan=True):
            return bad(exp.tolist(), exp2.tolist(), verdict="harness", note="two oracles disagree")
        obj = a
        if case["container"] == "pandas":
            obj = pd.DataFrame(a, columns=[f"c{i}" for i in range(a.shape[1])], index=[f"r{i}" for i in range(a.shape[0])])
        elif case["container"] == "polars":
            obj = pl.DataFrame({f"c{i}": a[:, i] for i in range(a.shape[1])})
        try:
            got = nb_dot(obj, b)
        except Exception as e:  # noqa
            return bad(exp.tolist(), f"error:{type(e).__name__}: {str(e)[:150]}")
        g = np.asarray(got)
        if g.shape != exp.shape or not np.array_equal(g, exp, equal_nan=True):
            return bad(exp.tolist(), g.tolist())
        if case["container"] == "pandas" and list(got.index) != list(obj.index):
            return bad("index of the frame", list(got.index))
        res.update(verdict="ok", detail=None)
        return res
    if h == "boolcat":
        rows = case["rows"]
        ncols = len(rows[0])
        cols = [f"c{i}" for i in range(ncols)]
        df = pd.DataFrame(np.array(rows, dtype=bool).reshape(len(rows), ncols), columns=cols, index=[f"r{i}" for i in range(len(rows))])
        try:
            got = bools_to_categorical(df)
        except Exception as e:  # noqa
            return bad("labels", f"error:{type(e).__name__}: {str(e)[:150]}")
        for i, row in enumerate(rows):
            want = " & ".join(c for c, b in zip(cols, row) if b) or "None"
            if str(got.iloc[i]) != want:
                return bad(want, f"row {i}: {got.iloc[i]!r}")
        if list(got.index) != list(df.index):
            return bad("frame index", list(got.index))
        res.update(verdict="ok", detail=None)
        return res
    if h == "cut":
        edges, xs = case["edges"], case["xs"]
        is_int = case["kind"] == "int"
        x = np.array(xs, dtype=np.int64) if is_int else np.array([np.nan if v is None else v for v in xs], dtype=np.float64)
        try:
            got = pretty_cut(x, edges)
        except Exception as e:  # noqa
            return bad("bins", f"error:{type(e).__name__}: {str(e)[:150]}")
        labels = [None if pd.isna(v) else str(v) for v in got]
        for v, lab in zip(xs, labels):
            if v is None:
                if lab is not None:
                    return bad("null -> no bin", lab)
                continue
            if lab is None:
                return bad(f"a bin for {v}", None)
            fv = Fraction(str(v))
            try:
                if lab.startswith(" <= "):
                    ok = fv <= Fraction(lab[4:])
                elif lab.startswith(" > "):
                    ok = fv > Fraction(lab[3:])
                elif " - " in lab:
                    lo, hi = lab.split(" - ", 1) if not lab.startswith("-") else (lab.rsplit(" - ", 1))
                    lo, hi = Fraction(lo.strip()), Fraction(hi.strip())
                    ok = (lo <= fv <= hi) if is_int else (lo < fv <= hi or (lo == hi == fv))
                else:
                    ok = fv == Fraction(lab)
            except Exception as e:  # noqa
                return bad("parsable label", lab)
            if not ok:
                return bad(f"printed bounds contain {v}", f"label {lab!r} (all labels {list(got.categories) if hasattr(got, 'categories') else ''})")
        res.update(verdict="ok", detail=None)
        return res
    raise ValueError(h)


def shrink_candidates(case):
    if case["helper"] == "nanop":
        arr = case["arr"]
        for i in range(len(arr)):
            if len(arr) > 1:
                yield {**case, "arr": arr[:i] + arr[i + 1:]}
        if case["threads"] > 1:
            yield {**case, "threads": case["threads"] - 1}
    if case["helper"] == "cut":
        xs = case["xs"]
        for i in range(len(xs)):
            if len(xs) > 1:
                yield {**case, "xs": xs[:i] + xs[i + 1:]}
        e = case["edges"]
        for i in range(len(e)):
            if len(e) > 1:
                yield {**case, "edges": e[:i] + e[i + 1:]}


def main(tier, seed):
    return apirun.run_property(sys.modules[__name__], tier, seed)


def replay(path):
    return apirun.replay_property(sys.modules[__name__], path)
