"""C11 — Result labelling, order and shape are determined by the inputs."""
from __future__ import annotations

import sys

from .. import apirun, common
from ..gbcases import build_keys, decode_label, gen_dataset
from ..kernelcases import encode_values
from ..publicops import cv

PID = "C11"
MODULES = ["GroupbyVerif.Props.C11"]
RULE = ("seeded random keys (1-3 keys of int/float/str/bool/datetime/categorical-with-unused-categories class, any first-appearance order, nulls) x values given as "
        "ndarray / named or unnamed Series / list of arrays / dict / DataFrame / 2-D array x sort on/off x observed_only on/off x masks x 8 reductions; "
        "checked: one index level per key named after the keys; label order (ascending / lexicographic by default, category order for categoricals, "
        "first appearance with sort=False); only observed labels, or all labels with neutral values when observed_only=False; Series named like the input "
        "for a single 1-D input, otherwise a DataFrame with one column per input in input order (named like the inputs, _arr_<i> for unnamed), each column "
        "identical to the result for that input alone (further columns carry nulls of their own); two integer keys with more than 2^32 label combinations (label set, order under both sort settings, sizes); "
        " non-trivial = >= 2 labels not first appearing in sorted order; distinct = distinct (dataset, shape, flags)")
ASSUMPTIONS = ["ordering of heterogeneous label types is pandas'"]
FNS = ["size", "count", "sum", "mean", "min", "max", "first", "last"]
SHAPES = ["ndarray", "series_named", "series_unnamed", "series_named_0", "list", "dict", "frame", "frame_intcols", "array2d", "polars_series"]
REPRS = ["plain", "plain", "plain", "small", "arrowchunks"]


def setup_worker():
    from ..numba_env import import_lib
    import_lib()


def fix_case(c):
    if c.get("mask") is not None:
        c["mask"] = tuple(c["mask"])
    return c


def gen_cases(tier, rng):
    for c in common.load_corpus(PID):
        yield fix_case(c)
    # two keys whose label counts multiply beyond 2**32: label order and set on the typed-dict route of factorize_2d
    for j in range(2 if tier == "quick" else 6):
        yield dict(repr="bigcard", gseed=rng.randrange(1 << 30), n1=rng.choice([66000, 70000]), planted=40, sort=(j % 2 == 1), keys=[], key_classes=["int", "int"],
                   vals=[], mask=None, fn="size", shape="ndarray", ncols=1, observed_only=True, key_container="ndarray")
    n = 2000 if tier == "quick" else 30000
    for _ in range(n):
        repr_ = rng.choice(REPRS)
        if repr_ == "plain":
            ds = gen_dataset(rng, max_rows=12, max_labels=4, vdt="f64", mask_kinds=("none", "none", "b", "s"), min_rows=1)
        else:
            # chunk-wise factorization (threshold scaled to 8 rows) / pre-chunked arrow keys: single key, labels in any first-appearance order
            ds = gen_dataset(rng, max_rows=26, max_labels=5, nkeys=1, key_classes=[rng.choice(["float", "str", "datetime", "int"])], vdt="f64",
                             mask_kinds=("none", "none", "b", "s"), min_rows=9 if repr_ == "small" else 2)
            if repr_ == "arrowchunks":
                k = len(ds["vals"])
                cuts = sorted(rng.randint(0, k) for _ in range(rng.choice([1, 2])))
                ds["chunks"] = [b - a for a, b in zip([0] + cuts, cuts + [k])]
        yield {**ds, "fn": rng.choice(FNS), "shape": rng.choice(SHAPES), "ncols": rng.choice([1, 2, 3]), "observed_only": rng.random() < 0.7,
               "key_container": rng.choice(["ndarray", "series", "list"]) if repr_ == "plain" else "ndarray", "repr": repr_}


def evaluate_bigcard(case):
    import numpy as np
    from groupby_lib.groupby.core import GroupBy
    from ..gbcases import bigcard_keys
    k1, k2 = bigcard_keys(case["gseed"], case["n1"], case["planted"])
    res = dict(tags=["repr:bigcard", "nkeys:2", f"sort:{case['sort']}", "fn:size"], size=len(k1), key=repr(("bigcard", case["gseed"], case["n1"], case["sort"])),
               nontrivial=True, bucket=("bigcard", case["sort"]))
    try:
        gb = GroupBy([k1, k2], sort=case["sort"])
        r = gb.size()
        lab1, lab2 = r.index.get_level_values(0).to_numpy(), r.index.get_level_values(1).to_numpy()
        # independent oracle: distinct pairs with their first row and their number of rows
        pairs = k1.astype(np.int64) * (2 ** 31) + k2
        uniq, first, counts = np.unique(pairs, return_index=True, return_counts=True)
        order = np.arange(len(uniq)) if case["sort"] else np.argsort(first, kind="stable")
        got = np.asarray(lab1).astype(np.int64) * (2 ** 31) + np.asarray(lab2).astype(np.int64)
        err = None
        if len(got) != len(uniq):
            err = f"{len(got)} labels for {len(uniq)} distinct key pairs"
        elif (got != uniq[order]).any():
            g = int(np.nonzero(got != uniq[order])[0][0])
            want = int(uniq[order][g])
            err = (f"label {g} is ({int(lab1[g])}, {int(lab2[g])}), expected ({want >> 31}, {want & (2 ** 31 - 1)}) in "
                   + ("lexicographic" if case["sort"] else "first-appearance") + " order")
        elif (r.to_numpy() != counts[order]).any():
            g = int(np.nonzero(r.to_numpy() != counts[order])[0][0])
            err = f"size of label ({int(lab1[g])}, {int(lab2[g])}) is {int(r.to_numpy()[g])}, expected {int(counts[order][g])}"
    except Exception as e:  # noqa
        err = f"error:{type(e).__name__}: {str(e)[:200]}"
    if err:
        res.update(verdict="violation", detail=dict(case=case, expected="labels = the distinct key pairs, in first-appearance (sort=False) / lexicographic (sort=True) order",
                                                    actual=err))
    else:
        res.update(verdict="ok", detail=None)
    return res


def evaluate(case, drv):
    import numpy as np
    import pandas as pd
    import polars as pl
    from groupby_lib.groupby.core import GroupBy

    if case.get("repr") == "bigcard":
        return evaluate_bigcard(case)

    n = len(case["vals"])
    nk = len(case["keys"])
    classes = case["key_classes"]
    fn, shape = case["fn"], case["shape"]
    key = repr(sorted((k, str(v)) for k, v in case.items()))
    sel = [True] * n
    m = case["mask"]
    if m is not None:
        sel = list(m[1]) if m[0] == "b" else [i in set(range(n)[slice(m[1], m[2])]) for i in range(n)]
    row_keys = [None if any(col[i] is None for col in case["keys"]) else tuple(col[i] for col in case["keys"]) for i in range(n)]
    observed = []
    for i in range(n):
        if sel[i] and row_keys[i] is not None and row_keys[i] not in observed:
            observed.append(row_keys[i])
    first_app = []
    for k in row_keys:
        if k is not None and k not in first_app:
            first_app.append(k)
    res = dict(tags=[f"fn:{fn}", f"shape:{shape}", f"nkeys:{nk}", f"sort:{case['sort']}", f"observed_only:{case['observed_only']}", f"repr:{case.get('repr', 'plain')}"]
               + [f"kc:{c}" for c in classes],
               size=n, key=key, nontrivial=len(first_app) >= 2 and first_app != sorted(first_app), bucket=(fn, shape, nk, case["sort"], case["observed_only"], tuple(classes)))

    def bad(exp, act, **kw):
        res.update(verdict="violation", detail=dict(case=case, expected=str(exp)[:400], actual=str(act)[:400], **kw))
        return res

    index = pd.Index([f"r{(i * 7) % max(n, 1)}_{i}" for i in range(n)]) if case["key_container"] == "series" else None
    keys = build_keys(case, index=index, container="series" if case["key_container"] == "series" else "ndarray")
    key_names = [f"k{i}" for i in range(nk)] if case["key_container"] == "series" else [None] * nk
    base = encode_values(case["vals"], "f64")
    cols = [base * (j + 1) for j in range(case["ncols"])]
    for j in range(1, len(cols)):
        # further columns get nulls of their own (counts differ from column to column)
        cols[j] = cols[j].copy()
        cols[j][[i for i in range(n) if (i * 7 + j) % 4 == 0]] = np.nan
    names_in = None
    if shape == "ndarray":
        values, names_in, single = cols[0], [None], True
    elif shape == "series_named":
        values, names_in, single = pd.Series(cols[0], index=index, name="price"), ["price"], True
    elif shape == "series_named_0":
        values, names_in, single = pd.Series(cols[0], index=index, name=0), [0], True
    elif shape == "frame_intcols":
        values, names_in, single = pd.DataFrame(np.column_stack(cols) if n else np.empty((0, len(cols))), index=index), list(range(len(cols))), False
    elif shape == "series_unnamed":
        values, names_in, single = pd.Series(cols[0], index=index), [None], True
    elif shape == "polars_series":
        values, names_in, single = pl.Series("pv", cols[0]), ["pv"], True
    elif shape == "list":
        values, names_in, single = [pd.Series(c, index=index, name=(f"n{j}" if j % 2 == 0 else None)) for j, c in enumerate(cols)], \
            [(f"n{j}" if j % 2 == 0 else None) for j in range(len(cols))], False
    elif shape == "dict":
        values, names_in, single = {f"d{j}": c for j, c in enumerate(cols)}, [f"d{j}" for j in range(len(cols))], False
    elif shape == "frame":
        values, names_in, single = pd.DataFrame({f"f{j}": c for j, c in enumerate(cols)}, index=index), [f"f{j}" for j in range(len(cols))], False
    else:
        values, names_in, single = np.column_stack(cols) if n else np.empty((0, len(cols))), [None] * len(cols), False
    mask = None
    if m is not None:
        mask = np.array(m[1], dtype=bool) if m[0] == "b" else slice(m[1], m[2])
    from groupby_lib.groupby import core as core_mod
    old_thr = core_mod.THRESHOLD_FOR_CHUNKED_FACTORIZE
    try:
        if case.get("repr") == "small":
            core_mod.THRESHOLD_FOR_CHUNKED_FACTORIZE = 8
        elif case.get("repr") == "arrowchunks":
            import pyarrow as pa
            typ = {"int": pa.int64(), "float": pa.float64(), "str": pa.string(), "datetime": pa.timestamp("ns")}[classes[0]]
            whole = pa.array(np.asarray(keys), type=typ, from_pandas=True)
            offs = [sum(case["chunks"][:j]) for j in range(len(case["chunks"]))]
            keys = pa.chunked_array([whole.slice(o, l) for o, l in zip(offs, case["chunks"])], type=typ)
        gb = GroupBy(keys, sort=case["sort"])
        res["tags"].append("chunked-keys" if gb.key_is_chunked else "flat-keys")
        kw = dict(mask=mask, observed_only=case["observed_only"])
        r = gb.size(**kw) if fn == "size" else getattr(gb, fn)(values, **kw)
    except Exception as e:  # noqa
        return bad("a result", f"error:{type(e).__name__}: {str(e)[:200]}")
    finally:
        core_mod.THRESHOLD_FOR_CHUNKED_FACTORIZE = old_thr
    # ---- shape ----
    if fn == "size" or single:
        if not isinstance(r, pd.Series):
            return bad("a Series (single 1-D input)", type(r).__name__)
        if fn != "size":
            want_name = names_in[0]
            if r.name != want_name:
                return bad(f"Series named {want_name!r}", repr(r.name))
    else:
        if not isinstance(r, pd.DataFrame):
            return bad("a DataFrame (collection / frame / 2-D input)", type(r).__name__)
        want_cols = [nm if nm is not None else f"_arr_{j}" for j, nm in enumerate(names_in)]
        if list(r.columns) != want_cols:
            return bad(f"columns {want_cols}", list(r.columns))
    # ---- index levels / names ----
    if r.index.nlevels != nk:
        return bad(f"{nk} index level(s)", r.index.nlevels)
    if list(r.index.names) != key_names:
        return bad(f"index names {key_names}", list(r.index.names))
    # ---- labels: set and order ----
    try:
        labs = [tuple(decode_label(x, c) for x, c in zip(l if isinstance(l, tuple) else (l,), classes)) for l in r.index]
    except Exception as e:  # noqa
        return bad("decodable labels", f"{list(r.index)[:6]}: {type(e).__name__}")
    if len(set(labs)) != len(labs):
        return bad("distinct labels", labs)
    if case["observed_only"]:
        if set(labs) != set(observed):
            return bad(f"exactly the observed labels {sorted(observed)}", sorted(labs))
    else:
        if not set(observed) <= set(labs):
            return bad(f"all labels incl. {sorted(observed)}", sorted(labs))
        if nk == 1 and classes[0] not in ("categorical", "bool") and set(labs) != set(first_app):
            return bad(f"every label of the keys {sorted(first_app)}", sorted(labs))
    any_cat = any(c in ("categorical", "bool") for c in classes)
    if case["sort"] and not (nk == 1 and classes[0] == "categorical"):
        if labs != sorted(labs):
            return bad(f"ascending / lexicographic order {sorted(labs)}", labs)
    elif nk == 1 and classes[0] == "categorical":
        if labs != sorted(labs):  # category order == order of the logical ints
            return bad(f"category order {sorted(labs)}", labs)
    elif not case["sort"] and not any_cat:
        want = [k for k in first_app if k in set(labs)]
        if labs != want:
            return bad(f"first-appearance order {want}", labs)
    # ---- unobserved labels carry neutral values ----
    if not case["observed_only"]:
        frame = r.to_frame() if isinstance(r, pd.Series) else r
        for lab, (_, row) in zip(labs, frame.iterrows()):
            if lab not in observed:
                for v in row:
                    c = cv(v)
                    if fn in ("size", "count", "sum"):
                        if c != 0:
                            return bad(f"neutral 0 at unobserved {lab}", c)
                    elif c != "_":
                        return bad(f"null at unobserved {lab}", c)
    # ---- column independence ----
    if fn != "size" and not single:
        for j, col in enumerate(r.columns):
            alone = getattr(GroupBy(keys, sort=case["sort"]), fn)(cols[j], mask=mask, observed_only=case["observed_only"])
            a, b = [cv(x) for x in r[col].to_numpy()], [cv(x) for x in alone.to_numpy()]
            if a != b or list(r.index) != list(alone.index):
                return bad(f"column {col} == result for that input alone {b}", a)
    res.update(verdict="ok", detail=None)
    return res


def shrink_candidates(case):
    if case.get("repr") == "bigcard":
        return
    n = len(case["vals"])
    if case["mask"] is not None:
        yield {**case, "mask": None}
    if case["shape"] != "ndarray":
        yield {**case, "shape": "ndarray"}
    if case["key_container"] != "ndarray":
        yield {**case, "key_container": "ndarray"}
    for i in range(n):
        if n <= 1:
            break
        c = {**case, "keys": [col[:i] + col[i + 1:] for col in case["keys"]], "vals": case["vals"][:i] + case["vals"][i + 1:]}
        if case["mask"] is not None and case["mask"][0] == "b":
            c["mask"] = ("b", case["mask"][1][:i] + case["mask"][1][i + 1:])
        if case.get("chunks"):
            ch, acc = list(case["chunks"]), 0
            for j, l in enumerate(ch):
                if i < acc + l:
                    ch[j] -= 1
                    break
                acc += l
            c["chunks"] = ch
        yield c
    if len(case["keys"]) > 1:
        for j in range(len(case["keys"])):
            yield {**case, "keys": case["keys"][:j] + case["keys"][j + 1:], "key_classes": case["key_classes"][:j] + case["key_classes"][j + 1:]}


def main(tier, seed):
    return apirun.run_property(sys.modules[__name__], tier, seed)


def replay(path):
    return apirun.replay_property(sys.modules[__name__], path)
