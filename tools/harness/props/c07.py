"""C07 — transform=True broadcasts exactly the per-group result."""
from __future__ import annotations

import sys

from .. import apirun, common
from ..gbcases import build_keys, gen_dataset
from ..kernelcases import encode_values
from ..publicops import REDUCTIONS, approx_equal, canon_label, canon_values, cv

PID = "C07"
MODULES = ["GroupbyVerif.Props.C07"]
RULE = ("seeded random datasets (1-2 keys of float/str/datetime/categorical/int class, nulls in keys, <= 24 rows, value classes f64 i64 bool M8[ns]) x "
        "boolean / slice / no mask x all reductions supporting transform (size count sum mean min max first last var std median, apply with a user "
        "function) x key representations {contiguous, chunk-factorized with the threshold scaled to 8 rows, pre-chunked arrow} x containers "
        "{ndarray, indexed pd.Series, pl.Series}; relation: transform=True result == per-group result of the same call re-broadcast by the harness "
        "(neutral/null at null-key rows and rows of groups without a selected row), same length/order/index, container follows the input; "
        "non-trivial = >= 2 groups with >= 2 rows in one; distinct = distinct (dataset, op, representation, container)")
ASSUMPTIONS = ["float results compared to 1e-9 relative"]
OPS = REDUCTIONS + ["apply"]


def setup_worker():
    from ..numba_env import import_lib
    import_lib()


def fix_case(c):
    if c.get("mask") is not None:
        c["mask"] = tuple(c["mask"])
    return c


def shard_of(case):
    return f"{case['vdt']}|{case['op']}"


def gen_cases(tier, rng):
    for c in common.load_corpus(PID):
        yield fix_case(c)
    n = 2000 if tier == "quick" else 40000
    for _ in range(n):
        op = rng.choice(OPS)
        repr_ = rng.choice(["plain", "plain", "small", "arrowchunks"])
        nkeys = 1 if repr_ != "plain" else rng.choice([1, 1, 2])
        classes = [rng.choice(["float", "str", "datetime", "int"] if repr_ != "plain" else ["float", "str", "datetime", "categorical", "int"])
                   for _ in range(nkeys)]
        ds = gen_dataset(rng, max_rows=24 if repr_ != "plain" else 12, max_labels=4, nkeys=nkeys, key_classes=classes,
                         vdt=rng.choice(["f64", "f64", "i64", "bool", "M8ns"]), mask_kinds=("none", "b", "s"), min_rows=9 if repr_ == "small" else 1)
        if ds["vdt"] in ("M8ns", "bool") and op in ("sum", "mean", "var", "std", "median", "apply"):
            ds["vdt"] = "f64"
            ds["vals"] = [None if v is None else (v if v not in (0, 1) else v + 1) for v in ds["vals"]]
        if op in ("var", "std", "median", "apply") and ds["vdt"] != "f64":
            ds["vdt"] = "f64"
        if ds["vdt"] in ("i64", "bool"):
            ds["vals"] = [1 if v is None else v for v in ds["vals"]]
        if ds["vdt"] == "bool":
            ds["vals"] = [int(bool(v % 2)) for v in ds["vals"]]
        if op in ("median", "apply") and ds["mask"] is not None and ds["mask"][0] != "b":
            ds["mask"] = None
        ds["sort"] = rng.random() < 0.8
        cont = rng.choice(["ndarray", "series", "polars"])
        if repr_ == "arrowchunks":
            k = len(ds["vals"])
            cut = rng.randint(0, k)
            ds["chunks"] = [cut, k - cut]
        yield {**ds, "op": op, "repr": repr_, "container": cont}


def evaluate(case, drv):
    import numpy as np
    import pandas as pd
    import polars as pl
    import pyarrow as pa
    from groupby_lib.groupby import core as core_mod
    from groupby_lib.groupby.core import GroupBy

    n = len(case["vals"])
    op = case["op"]
    key = repr(sorted((k, str(v)) for k, v in case.items()))
    res = dict(tags=[f"op:{op}", f"repr:{case['repr']}", f"cont:{case['container']}", f"vdt:{case['vdt']}",
                     "mask:" + ("none" if case["mask"] is None else case["mask"][0])],
               size=n, key=key, nontrivial=n >= 3, bucket=(op, case["repr"], case["container"], case["vdt"], case["mask"] is not None))

    def bad(msg, **kw):
        res.update(verdict="violation", detail=dict(case=case, expected="transform == broadcast of the per-group result", actual=msg, **kw))
        return res

    index = None
    cont = case["container"]
    if cont == "series":
        index = pd.Index([f"r{(i * 7) % max(n, 1)}_{i}" for i in range(n)])
    keys = build_keys(case, index=index, container="series" if cont == "series" else "ndarray")
    values = encode_values(case["vals"], case["vdt"])
    if cont == "series":
        values = pd.Series(values, index=index, name="v")
    elif cont == "polars":
        values = pl.Series("v", values)
    mask = None
    m = case["mask"]
    if m is not None:
        mask = np.array(m[1], dtype=bool) if m[0] == "b" else slice(m[1], m[2])
        if cont == "series" and m[0] == "b":
            mask = pd.Series(mask, index=index)
    old = core_mod.THRESHOLD_FOR_CHUNKED_FACTORIZE
    try:
        if case["repr"] == "small":
            core_mod.THRESHOLD_FOR_CHUNKED_FACTORIZE = 8
        if case["repr"] == "arrowchunks":
            arr = np.asarray(keys)
            typ = {"int": pa.int64(), "float": pa.float64(), "str": pa.string(), "datetime": pa.timestamp("ns")}[case["key_classes"][0]]
            whole = pa.array(arr, type=typ, from_pandas=True)
            a, b = case["chunks"]
            keys = pa.chunked_array([whole.slice(0, a), whole.slice(a, b)], type=typ)

        def call(gb, transform):
            if op == "size":
                return gb.size(mask=mask, transform=transform)
            if op == "apply":
                return gb.apply(values, lambda a: float(np.nansum(a)) * 2 + 1, mask=mask, transform=transform)
            if op == "median":
                return gb.median(values, mask=mask, transform=transform)
            return getattr(gb, op)(values, mask=mask, transform=transform)

        try:
            gb = GroupBy(keys, sort=case["sort"])
            res["tags"].append("chunked-keys" if gb.key_is_chunked else "flat-keys")
            per_group = call(GroupBy(keys, sort=case["sort"]), False)
            tr = call(gb, True)
        except Exception as e:  # noqa
            return bad(f"error:{type(e).__name__}: {str(e)[:200]}")
    finally:
        core_mod.THRESHOLD_FOR_CHUNKED_FACTORIZE = old
    # container rule
    if op == "size":
        pass  # size() has no values input: there is no container / index for the result to follow
    elif cont == "polars" and op not in ("apply", "median", "var", "std"):
        if not isinstance(tr, (pl.Series, pl.DataFrame)):
            return bad(f"polars values in, {type(tr).__name__} out")
    elif cont != "polars":
        if not isinstance(tr, (pd.Series, pd.DataFrame)):
            return bad(f"pandas/numpy values in, {type(tr).__name__} out")
        if index is not None and list(tr.index) != list(index):
            return bad(f"index {list(tr.index)[:4]} is not the input's")
        if index is None and list(tr.index) != list(range(n)):
            return bad(f"index {list(tr.index)[:4]} is not 0..n-1")
    got = canon_values(tr.to_numpy())
    if len(got) != n:
        return bad(f"{len(got)} rows out for {n} rows in")
    if isinstance(tr, pl.Series) and tr.dtype.is_temporal():
        # numpy reads the int64 minimum as NaT whether or not polars holds it as a null: ask polars itself
        pl_null = tr.is_null().to_list()
        for i, g in enumerate(got):
            if g == "_" and not pl_null[i]:
                return bad(dict(row=i, note="polars result holds a non-null sentinel timestamp where the value is null"), transform=got)
    # expected: lookup of the per-group result through the row's key
    lut = {canon_label(l): v for l, v in zip(per_group.index, canon_values(per_group.to_numpy()))}
    row_keys = []
    key_arrays = [np.asarray(k) if not isinstance(k, pd.Series) else k.to_numpy() for k in (build_keys(case) if len(case["keys"]) > 1 else [build_keys(case)])]
    for i in range(n):
        lab = tuple(ka[i] for ka in key_arrays)
        isnull = any(case["keys"][j][i] is None for j in range(len(case["keys"])))
        row_keys.append(None if isnull else canon_label(tuple(x for x in lab)))
    neutral_num = 0 if op in ("size", "count", "sum") else "_"
    exp = []
    for i in range(n):
        rk = row_keys[i]
        if rk is not None and rk in lut:
            exp.append(lut[rk])
        else:
            exp.append(None)  # neutral/null: checked below
    for i, (g, e) in enumerate(zip(got, exp)):
        if e is None:
            # neutral result: 0 for size/count/sum; otherwise the null of the result dtype
            # (NaN/NaT; integer and boolean results have no NaN: the library's sentinel is the dtype minimum / False)
            if op in ("size", "count", "sum"):
                ok = g == 0
            elif op in ("min", "max", "first", "last") and case["vdt"] == "i64":
                ok = g in ("_", -(2 ** 63))
            elif op in ("min", "max", "first", "last") and case["vdt"] == "bool":
                ok = g in ("_", 0)
            else:
                ok = g == "_"
            if not ok:
                return bad(dict(row=i, got=g, note="null-key row / group without selected row must show the neutral or null result"),
                           transform=got, per_group={str(k): v for k, v in lut.items()})
        elif not approx_equal(g, e):
            return bad(dict(row=i, got=g, expected=e), transform=got, per_group={str(k): v for k, v in lut.items()})
    res.update(verdict="ok", detail=None)
    return res


def _known_apply_no_rows(v):
    c = v.get("case", {})
    if c.get("op") not in ("median", "apply") or (c.get("mask") is not None and c["mask"][0] != "b"):
        return False
    keys_null = [any(col[i] is None for col in c["keys"]) for i in range(len(c["vals"]))]
    sel = [True] * len(keys_null) if c.get("mask") is None else c["mask"][1]
    no_rows = not any(m and not kn for m, kn in zip(sel, keys_null))
    return no_rows and "IndexError" in str(v.get("actual"))


KNOWN_MATCHERS = {"C07-apply-no-rows": _known_apply_no_rows}


def shrink_candidates(case):
    n = len(case["vals"])
    if case["repr"] != "plain":
        return
    if case["mask"] is not None:
        yield {**case, "mask": None}
    if case["container"] != "ndarray":
        yield {**case, "container": "ndarray"}
    for i in range(n):
        if n <= 1:
            break
        c = {**case, "keys": [col[:i] + col[i + 1:] for col in case["keys"]], "vals": case["vals"][:i] + case["vals"][i + 1:]}
        if case["mask"] is not None and case["mask"][0] == "b":
            c["mask"] = ("b", case["mask"][1][:i] + case["mask"][1][i + 1:])
        yield c


def main(tier, seed):
    return apirun.run_property(sys.modules[__name__], tier, seed)


def replay(path):
    return apirun.replay_property(sys.modules[__name__], path)
