"""C04 — Block-wise reduction equals single-pass reduction (kernel contract).

Proof: lean/GroupbyVerif/Props/C04.lean (+ Bridge).  Correspondence: small-scope exhaustive
enumeration of `groupby_lib.groupby.numba.group_*` against the compiled Lean model (`model=`)
and the per-group definition (`spec=`).
"""
from __future__ import annotations

import itertools
import json

from .. import common, pool
from ..kernelcases import (DTYPES, KERNELS, call_impl, expected_observation, has_null, observation_matches,
                           parse_groups, proto_line, rgs_codes, value_strings)

PID = "C04"
MODULES = ["GroupbyVerif.Props.C04", "GroupbyVerif.LoopBridge.Reduce", "GroupbyVerif.LoopBridge.IsNull"]


def alphabet(dt):
    if dt == "bool":
        return [0, 1]
    base = [1, 2]
    if dt in ("i64", "i32", "i8", "m8s", "M8ns"):
        base = [-1, 2]  # a negative value so that min/max initial values matter
        if dt == "M8ns":
            base = [1, 2]
    if has_null(dt):
        return [None] + base
    return base


def applicable(fn, dt, vals, vchunks):
    if fn == "sum_squares" and dt in ("M8ns", "m8s"):
        return False
    if fn == "sum" and dt == "M8ns":
        return False
    if fn == "sum_squares" and dt == "i64" and any(v is None for v in vals):
        return False  # int64-min cast to float is an ordinary (huge) number: inexact arithmetic
    if fn == "sum" and dt == "i64" and vchunks is None and any(v is None for v in vals):
        return False  # int ndarray -> non-skipping sum; MIN_INT would be added and wrap
    if vchunks is not None and dt == "bool":
        return False  # arrow bool chunks are bit-packed: no zero-copy numpy view (container issue, C12)
    if vchunks is not None and dt in ("M8ns", "m8s") and any(v is None for v in vals):
        return False  # arrow turns NaT into a validity-bitmap null: conversion refuses (container issue, C12)
    return True


def masks_for(n, rng, exhaustive=False):
    """mask variants for a case of n rows"""
    out = [None]
    if n == 0:
        return out
    if exhaustive:
        for bits in itertools.product([0, 1], repeat=n):
            out.append(("b", list(bits)))
        for a in [None, 0, 1, -1, -n, n + 1]:
            for b in [None, 0, n - 1, -1, n + 2]:
                out.append(("s", a, b))
        return out
    out.append(("b", [rng.random() < 0.6 for _ in range(n)]))
    out.append(("s", rng.choice([None, 0, 1, -2, -n]), rng.choice([None, n - 1, -1, n + 1, 1])))
    k = rng.randint(0, n + 1)
    out.append(("p", [rng.randrange(-n, n) for _ in range(k)]))
    return out


def chunkings(n, rng, exhaustive=False):
    out = [None]
    if n < 2:
        return out
    if exhaustive:
        for k in range(1, n):
            out.append([k, n - k])
        if n >= 3:
            out.append([1, 1, n - 2])
            out.append([1, 0, n - 1]) if False else None
        return [o for o in out if o is not None or o is None]
    a = rng.randint(1, n - 1)
    out.append([a, n - a])
    if n >= 3:
        b = rng.randint(1, n - 2)
        c = rng.randint(1, n - 1 - b)
        out.append([b, c, n - b - c])
    return out


def gen_cases(tier, rng):
    """yield case dicts.  quick: exhaustive codes x values for length <= 4 on f64 without mask for every
    kernel and 1..3 blocks; masks, chunked values and the other dtype classes are sampled.
    thorough: length <= 5 exhaustive for f64 and i64 with sampled masks, <= 4 for every other class."""
    for c in common.load_corpus(PID):
        if c.get("mask") is not None:
            c["mask"] = tuple(c["mask"])
        if not c.get("nonfinite"):
            yield c
    if tier == "quick":
        plan = [("f64", 4, (1, 2, 3), 1.0, 0.15), ("i64", 3, (1, 2), 1.0, 0.1), ("i32", 3, (1, 2), 1.0, 0.1),
                ("u8", 3, (1, 2), 1.0, 0.1), ("bool", 3, (1, 2), 1.0, 0.1), ("M8ns", 3, (1, 2), 1.0, 0.1),
                ("m8s", 2, (1, 2), 1.0, 0.1), ("f32", 2, (1, 2), 1.0, 0.1), ("i8", 2, (2,), 1.0, 0.1), ("u64", 2, (2,), 1.0, 0.1)]
    else:
        plan = [("f64", 5, (1, 2, 3, 4), 1.0, 0.3), ("i64", 5, (1, 2, 3), 1.0, 0.2), ("i32", 4, (1, 2, 3), 1.0, 0.2),
                ("u8", 4, (1, 2, 3), 1.0, 0.2), ("bool", 4, (1, 2, 3), 1.0, 0.2), ("M8ns", 4, (1, 2, 3), 1.0, 0.2),
                ("m8s", 4, (1, 2, 3), 1.0, 0.2), ("f32", 4, (1, 2, 3), 1.0, 0.2), ("i8", 4, (1, 2, 3), 1.0, 0.2),
                ("u64", 4, (1, 2, 3), 1.0, 0.2)]
    for dt, maxlen, threads, p_plain, p_extra in plan:
        alpha = alphabet(dt)
        for L in range(0, maxlen + 1):
            for codes in rgs_codes(L):
                for vals in value_strings(L, alpha):
                    vals = list(vals)
                    extra = rng.random() < p_extra
                    for fn in KERNELS:
                        for t in threads:
                            if applicable(fn, dt, vals, None):
                                yield dict(fn=fn, dt=dt, ng=3, codes=codes, vals=vals, mask=None, threads=t, vchunks=None)
                        if extra:
                            for m in masks_for(L, rng)[1:]:
                                t = rng.choice(threads)
                                if applicable(fn, dt, vals, None):
                                    yield dict(fn=fn, dt=dt, ng=3, codes=codes, vals=vals, mask=m, threads=t, vchunks=None)
                            for ch in chunkings(L, rng)[1:]:
                                m = rng.choice(masks_for(L, rng))
                                if fn != "size" and applicable(fn, dt, vals, ch):
                                    yield dict(fn=fn, dt=dt, ng=3, codes=codes, vals=vals, mask=m, threads=rng.choice(threads), vchunks=ch)


def nontrivial(case) -> bool:
    """at least two rows carrying a non-null code (so that blocks / interleavings matter)"""
    return sum(1 for c in case["codes"] if c >= 0) >= 2


def tags_of(case, ans):
    t = [f"fn:{case['fn']}", f"dt:{case['dt']}", f"threads:{case['threads']}",
         "mask:" + ("none" if case["mask"] is None else case["mask"][0]),
         "vchunks:" + ("none" if case["vchunks"] is None else str(len(case["vchunks"])))]
    nb = int(ans.get("blocks", "0"))
    t.append(f"blocks:{nb}")
    return t


def evaluate(case, ans):
    """-> (verdict, detail) with verdict in ok / violation / disagreement / echo"""
    status, a, b = call_impl(case)
    model = parse_groups(ans["model"])
    spec = parse_groups(ans["spec"])
    if status == "error":
        if spec is None and model is None:
            return "ok", None  # rejected by all three (e.g. mask length mismatch)
        got = f"error:{a}: {b}"
        if spec is not None:
            return "violation", dict(case=case, expected=ans["spec"], actual=got)
        return "disagreement", dict(case=case, model=ans["model"], actual=got)
    got = dict(values=a, counts=b)
    exp_spec = expected_observation(case, spec)
    exp_model = expected_observation(case, model)
    ok_spec = observation_matches(exp_spec, a, b)
    ok_model = observation_matches(exp_model, a, b)
    if not ok_spec:
        return "violation", dict(case=case, expected=ans["spec"], actual=got, model=ans["model"])
    if not ok_model:
        return "disagreement", dict(case=case, model=ans["model"], spec=ans["spec"], actual=got)
    return "ok", None


def shrink_candidates(case):
    n = len(case["codes"])
    for i in range(n):  # delete a row (only without positional/bool masks tied to length)
        c = dict(case)
        c["codes"] = case["codes"][:i] + case["codes"][i + 1:]
        c["vals"] = case["vals"][:i] + case["vals"][i + 1:]
        m = case["mask"]
        if m is not None:
            if m[0] == "b":
                c["mask"] = ("b", m[1][:i] + m[1][i + 1:])
            elif m[0] == "p":
                continue
        if case["vchunks"] is not None:
            continue
        yield c
    if case["mask"] is not None:
        yield {**case, "mask": None}
    if case["vchunks"] is not None:
        yield {**case, "vchunks": None}
    if case["threads"] > 1:
        yield {**case, "threads": case["threads"] - 1}


def gen_nonfinite(tier, rng):
    """floats with +-inf next to nulls: a block's partial sum can be NaN (inf - inf) although it is data, not a null.
    The value model has no infinities, so this stream is metamorphic: block-wise == single pass == a sequential float oracle."""
    for _ in range(1500 if tier == "quick" else 20000):
        n = rng.randint(2, 10)
        codes = [rng.choice([-1, 0, 0, 1, 1, 2]) for _ in range(n)]
        vals = [rng.choice([None, 1, 2, "inf", "-inf", "inf", "-inf"]) for _ in range(n)]
        ch = None
        if rng.random() < 0.4:
            k = rng.randint(2, 4)
            cuts = sorted(rng.randint(0, n) for _ in range(k - 1))
            ch = [b - a for a, b in zip([0] + cuts, cuts + [n])]
        m = rng.choice([None, None, ("b", [rng.random() < 0.7 for _ in range(n)]), ("p", [rng.randrange(n) for _ in range(rng.randint(0, n + 2))])])
        yield dict(nonfinite=True, fn=rng.choice(["sum", "mean", "min", "max", "count", "sum_squares", "first", "last"]), dt="f64", ng=3, codes=codes,
                   vals=vals, mask=m, threads=rng.randint(2, 4) if ch is None else rng.randint(1, 3), vchunks=ch)


def eval_nonfinite(case):
    import math
    import numpy as np
    from ..kernelcases import mask_object
    from ..numba_env import import_lib
    import_lib()
    import pyarrow as pa
    from groupby_lib.groupby import numba as nbk
    codes = np.array(case["codes"], dtype=np.int64)
    values = np.array([np.nan if v is None else float(v) for v in case["vals"]], dtype=np.float64)
    mask = mask_object(case.get("mask"))
    fn = getattr(nbk, "group_" + case["fn"])

    def canon(a):
        return ["_" if math.isnan(x) else x for x in np.asarray(a, dtype=np.float64).tolist()]
    try:
        single, scount = fn(group_key=codes, values=values, ngroups=case["ng"], mask=mask, n_threads=1, return_count=True)
        vv = values
        if case.get("vchunks") is not None:
            offs = np.cumsum([0] + list(case["vchunks"]))
            vv = pa.chunked_array([pa.array(values[a:b]) for a, b in zip(offs[:-1], offs[1:])])
        block, bcount = fn(group_key=codes, values=vv, ngroups=case["ng"], mask=mask, n_threads=case["threads"], return_count=True)
    except Exception as e:  # noqa
        return "violation", dict(case=case, expected="a result", actual=f"error:{type(e).__name__}: {str(e)[:160]}")
    # sequential oracle in row (visiting) order
    n = len(codes)
    if mask is None:
        order = list(range(n))
    elif mask.dtype == bool:
        order = [i for i in range(n) if mask[i]]
    else:
        order = [int(i) for i in mask]
    exp = None
    if case["fn"] in ("sum", "min", "max", "count", "sum_squares"):
        exp = []
        for g in range(case["ng"]):
            xs = [values[i] for i in order if codes[i] == g and not math.isnan(values[i])]
            if case["fn"] == "count":
                exp.append(float(len(xs)))
            elif case["fn"] == "sum":
                acc = 0.0
                for x in xs:
                    acc += x
                exp.append(acc)
            elif case["fn"] == "sum_squares":
                exp.append(float(sum(x * x for x in xs)))
            else:
                exp.append((min(xs) if case["fn"] == "min" else max(xs)) if xs else float("nan"))
        exp = canon(exp)
    if canon(block) != canon(single) or list(map(int, bcount)) != list(map(int, scount)):
        return "violation", dict(case=case, expected=f"single pass: {canon(single)} counts {list(map(int, scount))}",
                                 actual=f"block-wise: {canon(block)} counts {list(map(int, bcount))}", note="block-wise != single pass (non-finite values)")
    if exp is not None and canon(single)[:case["ng"]] != exp:
        return "violation", dict(case=case, expected=f"sequential float oracle: {exp}", actual=f"single pass: {canon(single)}",
                                 note="single pass != definition (non-finite values)")
    return "ok", None


def shrink_nonfinite(case):
    n = len(case["codes"])
    if case.get("mask") is not None:
        yield {**case, "mask": None}
    if case.get("vchunks") is not None and n >= 2:
        yield {**case, "vchunks": [n // 2, n - n // 2], "threads": 1}
    for i in range(n):
        if n <= 2 or (case.get("mask") is not None and case["mask"][0] == "p"):
            break
        c = {**case, "codes": case["codes"][:i] + case["codes"][i + 1:], "vals": case["vals"][:i] + case["vals"][i + 1:]}
        if case.get("mask") is not None:
            c["mask"] = ("b", case["mask"][1][:i] + case["mask"][1][i + 1:])
        if case.get("vchunks") is not None:
            c["vchunks"] = [(n - 1) // 2, (n - 1) - (n - 1) // 2]
        yield c
    for i, v in enumerate(case["vals"]):
        if v in (2,):
            yield {**case, "vals": case["vals"][:i] + [1] + case["vals"][i + 1:]}


def run_case(drv, case):
    if case.get("nonfinite"):
        return eval_nonfinite(case), {"model": "n/a", "spec": "n/a"}
    ans = drv.ask(proto_line(case))
    return evaluate(case, ans), ans


def replay(path):
    data = json.loads(open(path).read())
    v = data.get("violation") or (data.get("correspondence_disagreements") or [None])[0]
    if v is None:
        print("replay file holds no concrete case (failed obligations only):")
        print(json.dumps(data.get("failed_obligations"), indent=1))
        return 1
    case = v["case"]
    if case.get("mask") is not None:
        case["mask"] = tuple(case["mask"])
    common.prepare_lean(MODULES)
    pool.install_inline()
    drv = common.Driver()
    (verdict, detail), ans = run_case(drv, case)
    drv.close()
    print(json.dumps(dict(case=case, driver=ans, verdict=verdict, detail=detail), indent=1, default=str))
    if verdict == "violation":
        print(f"VIOLATION property={PID} replay={path}")
        return 1
    return 0


def worker(args):
    """evaluate the cases of one shard (case index % nshards == shard); returns a summary"""
    shard, nshards, tier, seed = args
    import random
    rng = random.Random(seed)
    order = pool.Order("random", seed + shard)
    pool.install_inline(order)
    drv = common.Driver()
    out = dict(evals=0, distinct=set(), tags={}, sizes={}, samples=[], first_bad={}, echo=[], orders=0)
    batch, B = [], 500
    real_pool_every = 997
    n = 0

    def bump(d, k):
        d[k] = d.get(k, 0) + 1

    def flush():
        nonlocal n
        answers = drv.ask_many([proto_line(c) for c in batch])
        for case, ans in zip(batch, answers):
            n += 1
            if case["threads"] > 1 and n % real_pool_every == 0:
                with pool.real_pool():
                    verdict, detail = evaluate(case, ans)
                bump(out["tags"], "real-thread-pool")
            else:
                verdict, detail = evaluate(case, ans)
            out["evals"] += 1
            if nontrivial(case):
                out["distinct"].add(common.digest(proto_line(case) + "|" + case["fn"] + "|" + case["dt"]))
                if len(out["samples"]) < 2 and n % 1000 == 1:
                    out["samples"].append(dict(case=case, driver=ans))
            bump(out["sizes"], len(case["codes"]))
            for t in tags_of(case, ans):
                bump(out["tags"], t)
            if ans["model"] != ans["spec"] and len(out["echo"]) < 5:
                out["echo"].append(dict(case=case, model=ans["model"], spec=ans["spec"]))
            if verdict != "ok":
                key = (verdict, case["fn"], case["dt"], None if case["mask"] is None else case["mask"][0], case["vchunks"] is not None)
                if key not in out["first_bad"]:
                    out["first_bad"][key] = detail
        batch.clear()

    import zlib
    for idx, case in enumerate(gen_cases(tier, rng)):
        # shard by (dtype, kernel) so that each numba specialisation is compiled in one worker only
        if zlib.crc32(f"{case['dt']}|{case['fn']}".encode()) % nshards != shard:
            continue
        batch.append(case)
        if len(batch) >= B:
            flush()
    if batch:
        flush()
    drv.close()
    out["orders"] = order.nontrivial
    return out


def main(tier: str, seed: int) -> int:
    run = common.Run(PID, tier, seed, rule=(
        "exhaustive enumeration of code strings (restricted-growth over {null,0,1,2}) x value strings over a small "
        "alphabet containing null, per dtype class, x 9 kernels x 1..4 thread blocks; masks of every kind and arrow-chunked "
        "values sampled per case; plus a seeded stream of float arrays holding +-inf next to nulls (a block's partial sum can be NaN although "
        "it is data) x 8 kernels x masks x threads 1..4 x value chunkings: block-wise == single pass == a sequential float oracle; "
        "non-trivial = at least two rows with a non-null code; distinct = distinct protocol line"))
    run.assumptions = [
        "codes < ngroups, positions within [-n, n) (the kernels do no bounds check below -n)",
        "float values are small integers (no rounding, no inf-inf), int64 partial sums never equal the int64 minimum",
        "numba prange in reduce_array_pair writes out[i] only (no data race) — not modelled",
    ]
    run.lean = common.prepare_lean(MODULES, recheck=(tier == "thorough"))
    run.extra["leanchecker"] = run.lean.leanchecker
    if not run.lean.driver_ok:
        common.log("driver failed to build:\n" + run.lean.build_log[-3000:])
        run.lean.obligations.append({"name": "driver-build", "file": "lean/Driver.lean", "status": "failed", "axioms": None})
        return run.finish() or 2
    broken = bool(run.lean.failed)
    nshards = common.n_workers(tier)
    results = common.run_sharded(worker, [(i, nshards, tier, seed) for i in range(nshards)])
    first_bad = {}
    for r in results:
        run.evals += r["evals"]
        run.distinct |= r["distinct"]
        for k, v in r["tags"].items():
            run.tags[k] += v
        for k, v in r["sizes"].items():
            run.sizes[k] += v
        run.samples.extend(r["samples"][:1])
        run.echo_failures.extend(r["echo"])
        run.extra["completion_orders_permuted"] = run.extra.get("completion_orders_permuted", 0) + r["orders"]
        for k, v in r["first_bad"].items():
            first_bad.setdefault(k, v)

    # the non-finite stream (metamorphic, no model): corpus first
    import random as _random
    pool.install_inline()
    nf_rng = _random.Random(seed + 77)
    nf_seen = set()
    nf_cases = [c for c in common.load_corpus(PID) if c.get("nonfinite")]
    for c in nf_cases:
        if c.get("mask") is not None:
            c["mask"] = tuple(c["mask"])
    for case in itertools.chain(nf_cases, gen_nonfinite(tier, nf_rng)):
        verdict, detail = eval_nonfinite(case)
        run.evals += 1
        run.tags["stream:non-finite"] += 1
        run.tags[f"nf-fn:{case['fn']}"] += 1
        run.distinct.add(common.digest("nf|" + json.dumps(case, sort_keys=True, default=str)))
        if verdict != "ok":
            k = (case["fn"], detail.get("note"))
            if k not in nf_seen and len(nf_seen) < 6:
                nf_seen.add(k)
                small = common.greedy_shrink(case, shrink_nonfinite, lambda c, note=detail.get("note"): (lambda r: r[0] == "violation" and r[1].get("note") == note)(eval_nonfinite(c)), budget=80)
                run.violation(eval_nonfinite(small)[1] or detail)

    # shrink and record one representative per (verdict, kernel, dtype, mask kind, chunked)
    if first_bad:
        pool.install_inline()
        drv = common.Driver()
        for (verdict, *_), detail in list(first_bad.items())[:24]:
            def still(c, verdict=verdict):
                (v, _), _ = run_case(drv, c)
                return v == verdict
            small = common.greedy_shrink(detail["case"], shrink_candidates, still, budget=60)
            (v2, d2), _ = run_case(drv, small)
            d2 = d2 or detail
            if verdict == "violation":
                run.violation(d2)
            else:
                run.disagreement(d2)
        drv.close()
    run.extra["exhaustive"] = True
    run.extra["proof_obligations_broken"] = broken
    run.extra["worker_processes"] = nshards
    return run.finish()
