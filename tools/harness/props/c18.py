"""C18 — Misaligned inputs are rejected, never silently mis-grouped."""
from __future__ import annotations

import sys

from .. import apirun, common

PID = "C18"
MODULES = ["GroupbyVerif.Props.C18"]
RULE = ("the full table (public operation x array argument x perturbation) is enumerated in both tiers: ~45 operations (all GroupBy reductions, "
        "transform, var/std/median/quantile/apply/agg/ratio/subset_ratio/density, cumulative, rolling, shift/diff, ema with times, head/tail/nth, "
        "group_nearby_members, crosstab, and the top-level ema / ema_grouped) x each of their array arguments (values, second values, boolean mask - numpy bool, and for eleven operations also pandas nullable boolean and arrow-backed bool Series -, "
        "timestamps) x {length off by -3..+3, permuted / shifted / duplicated pandas index (all arguments pandas objects, or only the keys and the perturbed argument)}; rolling / ema also in the group-sorted output layout (index_by_groups=True); the operations accepting them also with datetime64 (naive and tz-aware), timedelta64, int32 and bool values, and values given as DataFrame / list of two inputs / polars, and a misaligned second key; expected outcome: an exception for every misaligned argument, "
        "a result for the aligned call; base data varies with the seed; non-trivial = every perturbed call; distinct = distinct (operation, argument, perturbation)")
ASSUMPTIONS = ["the untimed top-level ema(values) has a single array argument, so nothing to be misaligned with: only its aligned call is exercised",
               "integer-position masks and slices are exempt from the length rule by design",
               "'rejected' means any Python exception; a crash of the interpreter is a violation"]
MAX_WORKERS = 8

OPS = ["size", "count", "sum", "mean", "min", "max", "first", "last", "var", "std", "median", "quantile", "apply", "agg", "T:sum", "T:max",
       "ratio", "subset_ratio", "density", "cumsum", "cummin", "cummax", "cumcount", "rolling_sum", "rolling_mean", "rolling_min", "rolling_max",
       "shift", "diff", "ema", "ema_timed", "head", "tail", "nth", "nearby", "crosstab", "top_ema", "top_ema_timed", "top_ema_grouped", "top_ema_grouped_timed"]
ARGS = {"size": ["mask"], "cumcount": ["mask"], "ratio": ["values", "values2", "mask"], "subset_ratio": ["values", "mask", "mask2"],
        "ema_timed": ["values", "mask", "times"], "head": ["values"], "tail": ["values"], "nth": ["values"], "nearby": ["values"],
        "crosstab": ["values", "mask", "columns"], "top_ema": [], "top_ema_timed": ["values", "times"],
        "top_ema_grouped": ["values", "mask", "group_key"], "top_ema_grouped_timed": ["values", "mask", "times"], "quantile": ["values", "mask"]}
TEMPORAL_OK = ["count", "min", "max", "first", "last", "T:max", "cummin", "cummax", "rolling_min", "rolling_max", "shift", "diff", "head", "tail", "nth"]
VKINDS = ["datetime", "datetime_tz", "timedelta", "int", "bool"]
XOPS = ["sum", "mean", "min", "first", "count", "var", "agg", "T:sum", "cumsum", "cummax", "rolling_sum", "rolling_max", "shift", "diff", "ema", "head", "nth"]
XCONT = ["frame", "list2", "polars"]
BYGROUPS = ["rolling_sum", "rolling_mean", "rolling_min", "rolling_max", "ema", "ema_timed"]   # operations with index_by_groups=True
PERTURB = [("len", d) for d in (-3, -2, -1, 1, 2, 3)] + [("index", k) for k in ("permuted", "shifted", "duplicated")]


def setup_worker():
    from ..numba_env import import_lib
    import_lib()


def fix_case(c):
    return c


MASK_DTYPE_OPS = ["sum", "mean", "max", "size", "median", "cumsum", "cummax", "rolling_sum", "shift", "ema", "T:sum"]


def _same_index(p, n):
    """a 'perturbation' that leaves a one-row index unchanged is no misalignment"""
    return p[0] == "index" and n == 1 and p[1] in ("permuted", "duplicated")


def gen_cases(tier, rng):
    for c in common.load_corpus(PID):
        yield c
    sizes = [rng.randint(7, 11)] if tier == "quick" else [1, 2, 3, rng.randint(4, 9), rng.randint(10, 40), rng.randint(41, 90)]
    for n in sizes:
        keys = [rng.randrange(3) for _ in range(n)]
        vals = [rng.choice([1, 2, 3, 5]) for _ in range(n)]
        base = dict(n=n, keys=keys, vals=vals)
        for op in OPS:
            yield dict(op=op, arg=None, perturb=None, **base)   # aligned call must be accepted
            for arg in ARGS.get(op, ["values", "mask"]):
                for p in PERTURB:
                    if (p[0] == "len" and n + p[1] < 0) or _same_index(p, n):
                        continue
                    # "mixed": only the keys and the perturbed argument are pandas objects, every other argument is a bare array
                    # (the top-level functions have no keys: a single pandas argument has nothing to be misaligned with)
                    for container in ((["series"] if op.startswith("top_") else ["series", "mixed"]) if p[0] == "index" else ["ndarray", "series"]):
                        yield dict(op=op, arg=arg, perturb=list(p), container=container, **base)
        # the group-sorted output layout re-orders every argument by position before the kernels see it
        for op in BYGROUPS:
            yield dict(op=op, arg=None, perturb=None, by_groups=True, **base)
            for arg in ARGS.get(op, ["values", "mask"]):
                for p in PERTURB:
                    if (p[0] == "len" and n + p[1] < 0) or _same_index(p, n):
                        continue
                    for container in (["series", "mixed"] if p[0] == "index" else ["ndarray", "series"]):
                        yield dict(op=op, arg=arg, perturb=list(p), container=container, by_groups=True, **base)
        # other value dtypes (temporal values are converted before the kernels: the index must be validated before that)
        for op in TEMPORAL_OK:
            for vkind in VKINDS:
                yield dict(op=op, arg=None, perturb=None, vkind=vkind, **base)
                for arg in ARGS.get(op, ["values", "mask"]):
                    for p in PERTURB:
                        if (p[0] == "len" and (n + p[1] < 0 or abs(p[1]) > 1)) or _same_index(p, n):
                            continue
                        for container in (["series"] if p[0] == "index" else ["ndarray", "series"]):
                            yield dict(op=op, arg=arg, perturb=list(p), container=container, vkind=vkind, **base)
        # mask dtypes: pandas' nullable "boolean" and arrow-backed bool Series are boolean masks too and follow the same rules
        for op in MASK_DTYPE_OPS:
            for mkind in ("boolean", "arrow"):
                yield dict(op=op, arg=None, perturb=None, container="series", mkind=mkind, **base)
                for p in PERTURB:
                    if (p[0] == "len" and n + p[1] < 0) or _same_index(p, n):
                        continue
                    yield dict(op=op, arg="mask", perturb=list(p), container="series", mkind=mkind, **base)
        # richer value containers: DataFrame, list of two inputs (the second one misaligned), polars, and a second key
        for op in XOPS:
            for container in XCONT:
                yield dict(op=op, arg=None, perturb=None, container=container, **base)
                for p in PERTURB:
                    if (p[0] == "index" and container == "polars") or (p[0] == "len" and n + p[1] < 0) or _same_index(p, n):
                        continue
                    yield dict(op=op, arg="values", perturb=list(p), container=container, **base)
            for p in PERTURB:
                if (p[0] == "len" and n + p[1] < 0) or _same_index(p, n):
                    continue
                for container in (["series"] if p[0] == "index" else ["ndarray", "series"]):
                    yield dict(op=op, arg="key2", perturb=list(p), container=container, **base)


def evaluate(case, drv):
    import numpy as np
    import pandas as pd
    from groupby_lib import emas
    from groupby_lib.groupby.core import GroupBy, crosstab

    n, op = case["n"], case["op"]
    arg, perturb = case["arg"], case["perturb"]
    key = repr((op, arg, perturb, case.get("container"), n, case.get("vkind"), case.get("by_groups"), case.get("mkind")))
    bg = {"index_by_groups": True} if case.get("by_groups") else {}
    res = dict(tags=[f"op:{op}", f"arg:{arg}", f"perturb:{perturb[0] if perturb else 'aligned'}", f"cont:{case.get('container')}", f"vkind:{case.get('vkind', 'float')}", f"layout:{'by-groups' if case.get('by_groups') else 'rows'}", f"mask-dtype:{case.get('mkind', 'bool')}"],
               size=n, key=key, nontrivial=True, bucket=(op, arg, perturb[0] if perturb else "aligned", case.get("container"), case.get("vkind"), bool(case.get("by_groups"))))
    base_index = pd.Index([f"r{i}" for i in range(n)])
    cont = case.get("container", "series")

    def make(name, kind):
        """build one argument; perturbed if it is the chosen one"""
        length, index = n, base_index
        if name == arg and perturb:
            if perturb[0] == "len":
                length = n + perturb[1]
                index = pd.Index([f"r{i}" for i in range(length)])
            elif perturb[1] == "permuted":
                index = pd.Index([f"r{i}" for i in reversed(range(n))])
            elif perturb[1] == "shifted":
                index = pd.Index([f"r{i + 1}" for i in range(n)])
            else:
                index = pd.Index([f"r{i // 2}" for i in range(n)])
        if kind == "values":
            a = np.array([(case["vals"] * 5)[i] for i in range(length)], dtype=np.float64)
            vk = case.get("vkind", "float")
            if vk in ("datetime", "datetime_tz"):
                a = (a.astype("int64") * 86_400 + 1_600_000_000).view("datetime64[s]").astype("datetime64[ns]")
            elif vk == "timedelta":
                a = a.astype("int64").view("timedelta64[s]") if False else a.astype("int64").astype("timedelta64[s]")
            elif vk == "int":
                a = a.astype("int32")
            elif vk == "bool":
                a = a > 2
            if vk == "datetime_tz":
                use_series = cont == "series" or (name == arg and perturb and perturb[0] == "index")
                ser = pd.Series(a, index=index, name=name).dt.tz_localize("UTC").dt.tz_convert("Europe/Dublin")
                return ser if use_series else pd.DatetimeIndex(ser)
        elif kind == "mask":
            a = np.array([i % 3 != 0 for i in range(length)], dtype=bool)
            if case.get("mkind"):
                return pd.Series(a, index=index, name=name).astype("boolean" if case["mkind"] == "boolean" else "bool[pyarrow]")
        elif kind == "times":
            a = np.array([1_600_000_000 + 2 * i for i in range(length)], dtype="int64").view("datetime64[s]")
        elif kind == "key":
            a = np.array([(case["keys"] * 5)[i] for i in range(length)], dtype=np.int64)
        else:
            raise ValueError(kind)
        if name == "values" and cont in XCONT:
            good = np.array([(case["vals"] * 5)[i] for i in range(n)], dtype=np.float64)
            if cont == "frame":
                return pd.DataFrame({"a": a, "b": a * 2}, index=index)
            if cont == "polars":
                import polars as pl
                return pl.Series("v", a)
            if pandas_keys:
                return [pd.Series(good, index=base_index, name="a"), pd.Series(a, index=index, name="b")]
            return [good, a]
        use_series = cont == "series" or (name == arg and perturb and perturb[0] == "index")
        return pd.Series(a, index=index, name=name) if use_series else a

    pandas_keys = cont in ("series", "frame") or bool(perturb and perturb[0] == "index")
    keys = pd.Series(np.array(case["keys"], dtype=np.int64), index=base_index, name="k") if pandas_keys else np.array(case["keys"], dtype=np.int64)
    if arg == "key2":
        keys = [keys, make("key2", "key")]
    v = make("values", "values")
    m = make("mask", "mask")

    def call():
        if op.startswith("top_"):
            if op == "top_ema":
                return emas.ema(v, alpha=0.5)
            if op == "top_ema_timed":
                return emas.ema(v, halflife="2s", times=make("times", "times"))
            gk = make("group_key", "key")
            if op == "top_ema_grouped":
                return emas.ema_grouped(gk, 3, v, alpha=0.5, mask=m)
            return emas.ema_grouped(gk, 3, v, halflife="2s", times=make("times", "times"), mask=m)
        if op == "crosstab":
            return crosstab(keys, make("columns", "key"), values=v, aggfunc="sum", mask=m)
        gb = GroupBy(keys)
        if op == "size":
            return gb.size(mask=m)
        if op == "cumcount":
            return gb.cumcount(mask=m)
        if op.startswith("T:"):
            return getattr(gb, op[2:])(v, mask=m, transform=True)
        if op in ("count", "sum", "mean", "min", "max", "first", "last", "var", "std", "median", "cumsum", "cummin", "cummax"):
            return getattr(gb, op)(v, mask=m)
        if op == "quantile":
            return gb.quantile(v, q=[0.5], mask=m)
        if op == "apply":
            return gb.apply(v, np.nansum, mask=m)
        if op == "agg":
            return gb.agg(v, ["sum", "max"], mask=m)
        if op == "ratio":
            return gb.ratio(v, make("values2", "values"), mask=m)
        if op == "subset_ratio":
            return gb.subset_ratio(v, m, global_mask=make("mask2", "mask"))
        if op == "density":
            return gb.density(v, mask=m)
        if op.startswith("rolling_"):
            return getattr(gb, op)(v, window=2, min_periods=1, mask=m, **bg)
        if op in ("shift", "diff"):
            return getattr(gb, op)(v, window=1, mask=m)
        if op == "ema":
            return gb.ema(v, alpha=0.5, mask=m, **bg)
        if op == "ema_timed":
            return gb.ema(v, halflife="2s", times=make("times", "times"), mask=m, **bg)
        if op in ("head", "tail"):
            return getattr(gb, op)(v, 2, keep_input_index=True)
        if op == "nth":
            return gb.nth(v, 1, keep_input_index=True)
        if op == "nearby":
            return gb.group_nearby_members(v, 1.5)
        raise ValueError(op)

    # ---- the Lean model's verdict (GV.C18.accepts) on the abstraction of this call: lengths and index identities ----
    used = list(ARGS.get(op, ["values", "mask"])) or ["values"]
    if op in ("head", "nth", "tail"):
        used = ["values"]
    index_id = {"permuted": 2, "shifted": 3, "duplicated": 4}

    def absarg(name):
        length, idx = n, 1
        if name == arg and perturb:
            if perturb[0] == "len":
                length, idx = n + perturb[1], 5
            else:
                idx = index_id[perturb[1]]
        is_series = pandas_keys if (name == "values" and cont in ("frame", "list2")) else \
            (cont == "series" or bool(name == arg and perturb and perturb[0] == "index"))
        if name == "values" and cont == "polars":
            is_series = False
        return length, (idx if is_series else None)

    if op.startswith("top_"):
        if "group_key" in used:
            nkeys, kidx = absarg("group_key")
            used = [a for a in used if a != "group_key"]
        else:
            nkeys, kidx = absarg(used[0])
    else:
        nkeys, kidx = n, (1 if pandas_keys else None)
    abst = [absarg(a) for a in used]
    if cont == "list2":
        abst.insert(0, (n, 1 if pandas_keys else None))     # the aligned first member of the list
    if arg == "key2":
        abst.append(absarg("key2"))                         # a second key is one more array that has to line up
    ans = drv.ask(f"align nkeys={nkeys} keyidx={'_' if kidx is None else kidx} lens={','.join(str(l) for l, _ in abst)} "
                  f"idxs={','.join(str(i) for _, i in abst if i is not None)}")
    model_accepts = ans["model"] == "accept"
    if model_accepts != (perturb is None):
        res.update(verdict="disagreement", detail=dict(case=case, expected="model accepts iff the call is aligned", actual=ans))
        return res
    try:
        out = call()
        outcome = "returned"
    except Exception as e:  # noqa
        out = f"{type(e).__name__}: {str(e)[:120]}"
        outcome = "raised"
    res["observed"] = outcome
    res["model"] = "accept" if model_accepts else "reject"
    if model_accepts:
        if outcome != "returned":
            res.update(verdict="violation", detail=dict(case=case, expected="aligned inputs are accepted", actual=out))
            return res
    elif outcome != "raised":
        res.update(verdict="violation", detail=dict(case=case, expected=f"an error: argument {arg!r} is misaligned ({perturb})",
                                                    actual=f"returned {type(out).__name__} of length {len(out) if hasattr(out, '__len__') else '?'}"))
        return res
    res.update(verdict="ok", detail=None)
    return res


def main(tier, seed):
    return apirun.run_property(sys.modules[__name__], tier, seed, max_report=200)


def replay(path):
    return apirun.replay_property(sys.modules[__name__], path)
