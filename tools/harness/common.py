"""Shared machinery of the checks: regenerate + build the Lean side, talk to the driver,
collect obligations, decide PASS / KNOWN-FINDING / VIOLATION, write evidence.

Runs under /venv/bin/python (the interpreter the repository is installed in).
"""
from __future__ import annotations

import fcntl
import hashlib
import json
import os
import random
import re
import subprocess
import sys
import time
from collections import Counter
from pathlib import Path

VERIF = Path(__file__).resolve().parent.parent.parent
LEAN = VERIF / "lean"
REPO = Path(os.environ.get("VERIF_REPO", "/repo"))
DRIVER = LEAN / ".lake" / "build" / "bin" / "gbdriver"
EVIDENCE = VERIF / "evidence"
REPLAYS = VERIF / "replays"
CORPUS = VERIF / "corpus"
KNOWN = VERIF / "known_findings.json"

ALLOWED_AXIOMS = {"propext", "Classical.choice", "Quot.sound"}
FORBIDDEN = re.compile(r"\b(sorry|admit|native_decide|bv_decide|implemented_by|unsafe)\b|^\s*axiom\s|maxHeartbeats\s+0")

TRUSTED_BASE = [
    "Lean 4.33 kernel; axioms per theorem audited by #print axioms on every run, allowed: propext, Classical.choice, Quot.sound",
    "Lean compiler/runtime for the driver executable (executable model evaluation is not kernel-checked)",
    "tools/translate.py (Python ast -> Lean for ScalarFuncs/NumbaReductionOps + extracted constants); cross-checked by the scalar table correspondence",
    "tools/translate_loops.py (Python ast -> Lean for the loop kernels _group_by_reduce, reduce_array_pair, _find_nth, _find_first_or_last_n, "
    "_cumulative_reduce, _build_group_sorted_indexer_numba, _rolling_sum_or_mean_1d, _rolling_shift_or_diff_1d, _ema_grouped, _ema_grouped_timed: arrays as "
    "total functions with numba's negative-index wrap, narrow integer stores wrapped, prange treated as range, a raise / failed assert as an error flag; "
    "true division of an accumulated value and exp / ln 2 are uninterpreted functions); the generated loops are proved equal to the hand-written models "
    "in LoopBridge/*.lean, and the models are tied to the running code by the correspondence",
    "tools/harness (generators, canonicaliser, adapters calling the real code in-process)",
    "the remaining numba loops (rolling max/min, monotonic factorization, nanops), the dispatch code and the pandas/numpy/pyarrow glue are hand-modelled and tied by differential execution only",
    "IEEE arithmetic replaced by exact integer/rational arithmetic on exactly representable inputs",
]


def log(msg: str) -> None:
    print(msg, flush=True)


def sh(cmd, cwd=None, timeout=None, env=None):
    p = subprocess.run(cmd, cwd=cwd, capture_output=True, text=True, timeout=timeout, env=env)
    return p.returncode, p.stdout + p.stderr


# --------------------------------------------------------------------------------------
# Lean side
# --------------------------------------------------------------------------------------

class LeanStatus:
    def __init__(self):
        self.translate_ok = True
        self.translate_msg = ""
        self.leanchecker = None
        self.driver_ok = False
        self.build_log = ""
        self.obligations: list[dict] = []  # {name, file, status, axioms}
        self.forbidden_hits: list[str] = []

    @property
    def failed(self):
        return [o for o in self.obligations if o["status"] != "discharged"]


THEOREM_RE = re.compile(r"^(?:@\[[^\]]*\]\s*)?(?:private\s+|protected\s+)?theorem\s+([A-Za-z_][\w'.?!]*)", re.M)
NAMESPACE_RE = re.compile(r"^namespace\s+([\w.]+)", re.M)


def theorems_in(path: Path) -> list[tuple[str, int, int]]:
    """(qualified name, first line, last line) for each theorem of a Lean file; `namespace X` / `end X` lines are tracked"""
    lines = path.read_text().split("\n")
    stack: list[str] = []
    starts = []
    for n, line in enumerate(lines, 1):
        m = re.match(r"^namespace\s+([\w.]+)", line)
        if m:
            stack.append(m.group(1))
            continue
        m = re.match(r"^end\s+([\w.]+)\s*$", line)
        if m and stack and stack[-1] == m.group(1):
            stack.pop()
            continue
        m = re.match(r"^(?:@\[[^\]]*\]\s*)?(?:private\s+|protected\s+)?theorem\s+([\w.'?!]+)", line)
        if m:
            starts.append((".".join(stack + [m.group(1)]), n))
    out = []
    for i, (name, line) in enumerate(starts):
        end = starts[i + 1][1] - 1 if i + 1 < len(starts) else len(lines)
        out.append((name, line, end))
    return out


def scan_forbidden(paths: list[Path]) -> list[str]:
    hits = []
    for p in paths:
        in_block = 0
        for n, line in enumerate(p.read_text().split("\n"), 1):
            # strip comments (block comments tracked coarsely, line comments exactly)
            s = line
            if in_block:
                if "-/" in s:
                    s = s.split("-/", 1)[1]
                    in_block = 0
                else:
                    continue
            while "/-" in s:
                before, after = s.split("/-", 1)
                if "-/" in after:
                    s = before + after.split("-/", 1)[1]
                else:
                    s = before
                    in_block = 1
                    break
            s = s.split("--", 1)[0]
            if FORBIDDEN.search(s):
                hits.append(f"{p.relative_to(LEAN)}:{n}: {line.strip()}")
    return hits


def lean_sources() -> list[Path]:
    return sorted((LEAN / "GroupbyVerif").rglob("*.lean")) + [LEAN / "Driver.lean"]


def prepare_lean(prop_modules: list[str], bridge: bool = True, recheck: bool = False) -> LeanStatus:
    """regenerate Generated/*.lean from /repo, build the property modules and the driver,
    audit axioms.  Serialised across concurrent checks by a file lock."""
    st = LeanStatus()
    LEAN.mkdir(exist_ok=True)
    lock = open(LEAN / ".lock", "w")
    fcntl.flock(lock, fcntl.LOCK_EX)
    try:
        rc, out = sh([sys.executable, str(VERIF / "tools" / "translate.py")], env={**os.environ, "VERIF_REPO": str(REPO)})
        st.translate_ok = rc == 0
        st.translate_msg = out.strip().split("\n")[-1] if out.strip() else ""
        if any(m.endswith(".C19") for m in prop_modules):
            # C19's effect table: re-extracted from the source on every run
            rc2, out2 = sh([sys.executable, str(VERIF / "tools" / "effects.py"), "--pkg", str(REPO / "groupby_lib"), "--lean",
                            str(LEAN / "GroupbyVerif" / "Generated" / "Effects.lean")], cwd=VERIF / "tools")
            if rc2 != 0:
                st.translate_ok = False
                st.translate_msg = "effects.py: " + (out2.strip().split("\n")[-1] if out2.strip() else "failed")
        # driver first (it does not depend on the proofs)
        rc, out = sh(["lake", "build", "gbdriver"], cwd=LEAN, timeout=1800)
        st.driver_ok = rc == 0 and DRIVER.exists()
        st.build_log += out
        files = []
        mods = list(prop_modules) + (["GroupbyVerif.Bridge"] if bridge else [])
        for mod in mods:
            files.append((mod, LEAN / (mod.replace(".", "/") + ".lean")))
        rc, out = sh(["lake", "build", *mods], cwd=LEAN, timeout=3600)
        st.build_log += out
        # errors by file/line
        err_lines: dict[str, list[int]] = {}
        for m in re.finditer(r"error: ([\w/]+\.lean):(\d+):(\d+)", out):
            err_lines.setdefault(m.group(1), []).append(int(m.group(2)))
        failed_modules = set(re.findall(r"^- ([\w.]+)$", out, re.M))
        audit_names = []
        for mod, path in files:
            rel = str(path.relative_to(LEAN))
            built = (LEAN / ".lake/build/lib/lean" / (mod.replace(".", "/") + ".olean")).exists() and mod not in failed_modules
            for name, lo, hi in theorems_in(path):
                if built:
                    status = "discharged"
                elif rel in err_lines:
                    status = "failed" if any(lo <= e <= hi for e in err_lines[rel]) else "unchecked"
                else:
                    status = "unchecked"  # an imported module failed
                st.obligations.append({"name": name, "file": rel, "status": status, "axioms": None})
                if built:
                    audit_names.append((mod, name))
        # a module that failed because of an import: name the imported module's failure
        if not st.translate_ok:
            st.obligations.append({"name": "translator", "file": "tools/translate.py", "status": "failed", "axioms": None,
                                   "detail": st.translate_msg})
        # axiom audit
        if audit_names:
            imports = sorted({m for m, _ in audit_names})
            src = "\n".join(f"import {m}" for m in imports) + "\n" + "\n".join(f"#print axioms {n}" for _, n in audit_names) + "\n"
            audit = LEAN / ".lake" / f"audit_{os.getpid()}.lean"
            audit.write_text(src)
            rc, out = sh(["lake", "env", "lean", str(audit)], cwd=LEAN, timeout=1800)
            audit.unlink(missing_ok=True)
            axioms: dict[str, list[str]] = {}
            # names may end in primes (`foo'`): the name runs up to the quote that is followed by the verdict
            for m in re.finditer(r"'(\S+?)' depends on axioms: \[([^\]]*)\]", out.replace("\n", " ")):
                axioms[m.group(1)] = [a.strip() for a in m.group(2).split(",") if a.strip()]
            for m in re.finditer(r"'(\S+?)' does not depend on any axioms", out):
                axioms[m.group(1)] = []
            for o in st.obligations:
                if o["status"] == "discharged":
                    ax = axioms.get(o["name"])
                    o["axioms"] = ax
                    if ax is None:
                        o["status"] = "audit-missing"
                    elif not set(ax) <= ALLOWED_AXIOMS:
                        o["status"] = "bad-axioms"
        if recheck:
            # thorough tier: the toolchain's independent re-checker replays the compiled declarations of the property modules
            built_mods = [m for m, p_ in files if (LEAN / ".lake/build/lib/lean" / (m.replace(".", "/") + ".olean")).exists() and m not in failed_modules]
            if built_mods:
                rc3, out3 = sh(["lake", "env", "leanchecker", *built_mods], cwd=LEAN, timeout=3600)
                st.leanchecker = {"modules": built_mods, "ok": rc3 == 0, "tail": out3.strip()[-400:]}
                if rc3 != 0:
                    st.obligations.append({"name": "leanchecker", "file": "lean/", "status": "failed", "axioms": None, "detail": out3.strip()[-400:]})
        st.forbidden_hits = scan_forbidden(lean_sources())
        for h in st.forbidden_hits:
            st.obligations.append({"name": f"forbidden-token {h}", "file": h.split(":")[0], "status": "failed", "axioms": None})
    finally:
        fcntl.flock(lock, fcntl.LOCK_UN)
        lock.close()
    return st


class Driver:
    """pipe to the compiled model driver: one line in, one line out"""

    def __init__(self):
        self.p = subprocess.Popen([str(DRIVER)], stdin=subprocess.PIPE, stdout=subprocess.PIPE, text=True, bufsize=1)
        self.lines = 0

    def ask(self, line: str) -> dict:
        self.p.stdin.write(line + "\n")
        self.p.stdin.flush()
        out = self.p.stdout.readline()
        self.lines += 1
        if not out:
            raise RuntimeError("driver died on: " + line)
        out = out.strip()
        if out == "bad-op":
            raise RuntimeError("driver rejected: " + line)
        return dict(tok.split("=", 1) for tok in out.split(" ") if "=" in tok)

    def ask_many(self, lines: list[str]) -> list[dict]:
        """batched: write all, then read all (driver flushes per line; pipe buffers are large enough for batches of ~200)"""
        res = []
        B = 200
        for i in range(0, len(lines), B):
            chunk = lines[i:i + B]
            self.p.stdin.write("\n".join(chunk) + "\n")
            self.p.stdin.flush()
            for ln in chunk:
                out = self.p.stdout.readline().strip()
                if not out or out == "bad-op":
                    raise RuntimeError(f"driver rejected/died on: {ln} -> {out!r}")
                res.append(dict(tok.split("=", 1) for tok in out.split(" ") if "=" in tok))
        self.lines += len(lines)
        return res

    def close(self):
        try:
            self.p.stdin.close()
            self.p.wait(timeout=10)
        except Exception:
            self.p.kill()


# --------------------------------------------------------------------------------------
# run bookkeeping, decision rule, evidence
# --------------------------------------------------------------------------------------

def load_known(pid: str) -> list[dict]:
    if not KNOWN.exists():
        return []
    data = json.loads(KNOWN.read_text())
    return [e for e in data.get("findings", []) if e.get("property") == pid]


class Run:
    def __init__(self, pid: str, tier: str, seed: int, rule: str, level: str = "proof"):
        self.pid, self.tier, self.seed, self.rule, self.level = pid, tier, seed, rule, level
        self.t0 = time.time()
        self.rng = random.Random(seed)
        self.evals = 0
        self.distinct: set[str] = set()
        self.samples: list = []
        self.tags: Counter = Counter()
        self.sizes: Counter = Counter()
        self.violations: list[dict] = []      # impl != spec (property broken on a concrete input)
        self.disagreements: list[dict] = []   # impl != model (correspondence broken)
        self.echo_failures: list[dict] = []   # model != spec inside the driver (theorem contradicted)
        self.lean: LeanStatus | None = None
        self.assumptions: list[str] = []
        self.extra: dict = {}
        self.known_matchers = {}              # finding id -> predicate(violation) -> bool
        self.max_keep = 400

    # -- recording --
    def note_case(self, key: str, nontrivial: bool, sample=None, size=None, tags=()):
        self.evals += 1
        if nontrivial:
            self.distinct.add(digest(key))
        if sample is not None and len(self.samples) < 6 and nontrivial:
            self.samples.append(sample)
        if size is not None:
            self.sizes[size] += 1
        for t in tags:
            self.tags[t] += 1

    def violation(self, v: dict):
        if len(self.violations) < self.max_keep:
            self.violations.append(v)
        else:
            self.extra["violations_dropped"] = self.extra.get("violations_dropped", 0) + 1

    def disagreement(self, d: dict):
        if len(self.disagreements) < self.max_keep:
            self.disagreements.append(d)

    # -- finishing --
    def finish(self) -> int:
        known = load_known(self.pid)
        open_known = [e for e in known if e.get("status") == "open"]
        unlisted, matched = [], {}
        for v in self.violations:
            hit = None
            for e in open_known:
                pred = self.known_matchers.get(e["id"])
                if pred is not None and pred(v):
                    hit = e
                    break
            if hit is None:
                unlisted.append(v)
            else:
                matched.setdefault(hit["id"], []).append(v)
        lines = []
        rc = 0
        for e in open_known:
            if e["id"] in matched:
                lines.append(f"KNOWN-FINDING: property={self.pid} {e['id']}: {e['what_fails']}")
        failed_obl = self.lean.failed if self.lean else []
        REPLAYS.mkdir(exist_ok=True)
        if unlisted:
            v = unlisted[0]
            path = self._write_replay("violation", {"violation": v, "more": unlisted[1:10]})
            lines.append(f"VIOLATION property={self.pid} replay={path}")
            rc = 1
        elif failed_obl or self.disagreements or self.echo_failures:
            path = self._write_replay("unproved", {
                "failed_obligations": failed_obl[:40],
                "correspondence_disagreements": self.disagreements[:10],
                "model_vs_spec_failures": self.echo_failures[:10],
                "static_findings": self.extra.get("static_findings"),
                "note": "no concrete input violating the property was found by the search; the property is no longer shown to hold",
                "build_log_tail": (self.lean.build_log[-4000:] if self.lean else ""),
            })
            lines.append(f"VIOLATION property={self.pid} replay={path} no-failing-input-found")
            rc = 1
        self._write_evidence(len(unlisted), matched)
        for ln in lines:
            log(ln)
        log(f"[{self.pid}] tier={self.tier} seed={self.seed} evaluations={self.evals} distinct_nontrivial={len(self.distinct)} "
            f"obligations={len(self.lean.obligations) if self.lean else 0} failed={len(failed_obl)} "
            f"violations={len(self.violations)} (unlisted {len(unlisted)}) disagreements={len(self.disagreements)} "
            f"wall={time.time() - self.t0:.1f}s exit={rc}")
        return rc

    def _write_replay(self, kind: str, payload: dict) -> str:
        payload = {"property": self.pid, "kind": kind, "tier": self.tier, "seed": self.seed,
                   "replay_cmd": f"./check {self.pid} --replay <this file>", **payload}
        blob = json.dumps(payload, indent=1, default=str, sort_keys=True)
        h = hashlib.sha256(blob.encode()).hexdigest()[:12]
        path = REPLAYS / f"{self.pid}-{kind}-{h}.json"
        path.write_text(blob)
        return str(path.relative_to(VERIF))

    def _write_evidence(self, n_unlisted: int, matched: dict):
        EVIDENCE.mkdir(exist_ok=True)
        obl = self.lean.obligations if self.lean else []
        discharged = [o for o in obl if o["status"] == "discharged"]
        cov = {
            "obligations": len(obl),
            "discharged": len(discharged),
            "checker_cmd": f"cd lean && lake build (Props for {self.pid} + Bridge) && lake env lean <#print axioms audit>"
                           + ("; lake env leanchecker on the property modules" if self.extra.get("leanchecker") else ""),
            "trusted_base": TRUSTED_BASE,
            "evaluations": self.evals,
            "distinct_nontrivial": len(self.distinct),
            "rule": self.rule,
            "samples": (self.samples or [])[:6] + [{"obligation": o["name"], "axioms": o["axioms"]} for o in discharged[:6]],
            "traces_validated_against_impl": self.evals,
            "obligation_names": [o["name"] + ("" if o["status"] == "discharged" else f" [{o['status']}]") for o in obl],
            "branch_tags": dict(self.tags.most_common(60)),
            "input_sizes": {str(k): v for k, v in sorted(self.sizes.items(), key=lambda kv: str(kv[0]))[:40]},
            "correspondence_disagreements": len(self.disagreements),
            "known_findings_reproduced": {k: len(v) for k, v in matched.items()},
            "translator": self.lean.translate_msg if self.lean else "",
            **self.extra,
        }
        ev = {
            "property_id": self.pid,
            "tier": self.tier,
            "seed": self.seed,
            "level": self.level,
            "coverage": cov,
            "assumptions": self.assumptions,
            "wall_s": round(time.time() - self.t0, 2),
            "violations": n_unlisted,
        }
        tmp = EVIDENCE / f".{self.pid}.{os.getpid()}.tmp"
        tmp.write_text(json.dumps(ev, indent=1, default=str))
        os.replace(tmp, EVIDENCE / f"{self.pid}.json")


def load_corpus(pid: str) -> list[dict]:
    """minimised past failures, replayed first on every run"""
    d = CORPUS / pid
    out = []
    if d.is_dir():
        for f in sorted(d.glob("*.json")):
            out.append(json.loads(f.read_text()))
    return out


def digest(key: str) -> bytes:
    return hashlib.blake2b(key.encode(), digest_size=8).digest()


def n_workers(tier: str) -> int:
    n = os.cpu_count() or 2
    env = os.environ.get("VERIF_WORKERS")
    if env:
        return max(1, int(env))
    return max(1, min(n, 8 if tier == "quick" else 16))


PROGRESS = VERIF / ".cache" / "progress"


def progress_path(tag: str) -> Path:
    PROGRESS.mkdir(parents=True, exist_ok=True)
    return PROGRESS / f"{tag}.json"


def _shard_main(worker, args, conn):
    try:
        conn.send(("ok", worker(args)))
    except BaseException:  # noqa
        import traceback
        conn.send(("exc", traceback.format_exc()[-3000:]))
    finally:
        conn.close()


def run_sharded(worker, arg_list, progress_tags=None, timeout=None):
    """run `worker(args)` for every element of arg_list in separate forked processes (the parent must not
    have imported numba/groupby_lib yet).  A worker that dies (segfault, abort) does not hang the run:
    its slot yields dict(crashed=True, exitcode=..., last_case=<progress file content>)."""
    import multiprocessing as mp
    ctx = mp.get_context("fork")
    procs = []
    for k, a in enumerate(arg_list):
        parent, child = ctx.Pipe(duplex=False)
        p = ctx.Process(target=_shard_main, args=(worker, a, child))
        p.start()
        child.close()
        procs.append((p, parent))
    results = []
    for k, (p, conn) in enumerate(procs):
        res = None
        try:
            while True:
                if conn.poll(1.0):
                    res = conn.recv()
                    break
                if not p.is_alive():
                    if conn.poll(0.1):
                        res = conn.recv()
                    break
        except (EOFError, OSError):
            res = None
        p.join(timeout=30)
        if res is None or res[0] != "ok":
            last = None
            if progress_tags is not None:
                pp = progress_path(progress_tags[k])
                if pp.exists():
                    try:
                        last = json.loads(pp.read_text())
                    except Exception:
                        last = None
            results.append(dict(crashed=True, exitcode=p.exitcode, last_case=last, traceback=None if res is None else res[1]))
        else:
            results.append(res[1])
    return results


def greedy_shrink(case, candidates, still_fails, budget=400):
    """generic greedy shrinker: `candidates(case)` yields smaller cases; keep the first that still fails"""
    steps = 0
    improved = True
    while improved and steps < budget:
        improved = False
        for c in candidates(case):
            steps += 1
            if steps > budget:
                break
            try:
                if still_fails(c):
                    case = c
                    improved = True
                    break
            except Exception:
                continue
    return case
