"""Logical datasets for the public `GroupBy` API and their encoding into real containers.

A logical dataset is: key columns (lists of small ints or None), a key dtype class per column,
a value column (list of ints or None) with a value dtype class, an optional mask.  The
harness maps key ints to real key values *order-preservingly* and decodes result labels back,
so the Lean driver can work on abstract ordered atoms.
"""
from __future__ import annotations

import math
from fractions import Fraction

import numpy as np
import pandas as pd

from .kernelcases import DTYPES, MIN_INT, canon_scalar, encode_values, mask_token

KEY_CLASSES = ["int", "float", "str", "bool", "datetime", "categorical"]
STR_LABELS = ["ka", "kb", "kc", "kd", "ke", "kf"]
CATS = STR_LABELS + ["unused_z"]
T0 = pd.Timestamp("2020-01-01")


def encode_key_column(col, cls, name=None, container="ndarray", index=None):
    """col: list of int|None -> real key array of class `cls`"""
    if cls == "int":
        assert all(v is not None for v in col)
        arr = np.array([v * 10 + 5 for v in col], dtype=np.int64)
    elif cls == "float":
        arr = np.array([np.nan if v is None else v + 0.5 for v in col], dtype=np.float64)
    elif cls == "str":
        arr = np.array([None if v is None else STR_LABELS[v] for v in col], dtype=object)
    elif cls == "bool":
        assert all(v in (0, 1) for v in col)
        arr = np.array([bool(v) for v in col], dtype=bool)
    elif cls == "datetime":
        arr = np.array([np.datetime64("NaT") if v is None else (T0 + pd.Timedelta(days=v)).to_datetime64() for v in col],
                       dtype="datetime64[ns]")
    elif cls == "categorical":
        codes = np.array([-1 if v is None else v for v in col], dtype=np.int8)
        arr = pd.Categorical.from_codes(codes, categories=CATS)
    else:
        raise ValueError(cls)
    if container == "ndarray":
        if cls == "categorical":
            return pd.Series(arr, name=name, index=index) if name or index is not None else arr
        return arr
    if container == "series":
        return pd.Series(arr, name=name, index=index)
    raise ValueError(container)


def decode_label(x, cls):
    """real label -> logical int (or raises)"""
    if cls == "int":
        x = int(x)
        assert (x - 5) % 10 == 0, x
        return (x - 5) // 10
    if cls == "float":
        return int(round(float(x) - 0.5))
    if cls in ("str", "categorical"):
        return CATS.index(x)
    if cls == "bool":
        return int(bool(x))
    if cls == "datetime":
        return int((pd.Timestamp(x) - T0) / pd.Timedelta(days=1))
    raise ValueError(cls)


def null_allowed(cls):
    return cls in ("float", "str", "datetime", "categorical")


def gb_proto_line(ds, fn_kernel, kind, threads=1):
    keys = ";".join(",".join("_" if v is None else str(v) for v in col) for col in ds["keys"])
    null_tok = "_" if kind == "f" else str(MIN_INT)
    vals = ",".join(null_tok if v is None else str(v) for v in ds["vals"])
    return (f"gb fn={fn_kernel} kind={kind} keys={keys} vals={vals} mask={mask_token(ds.get('mask'))} "
            f"sort={1 if ds.get('sort', True) else 0} threads={threads}")


def parse_labelled(tok: str):
    """'1.0:v/c|2.1:v/c' -> list of (label tuple, value, count); '-' -> []"""
    if tok == "error":
        return None
    if tok == "-":
        return []
    out = []
    for cell in tok.split("|"):
        lab, pc = cell.split(":")
        v, c = pc.split("/")
        out.append((tuple(int(t) for t in lab.split(".")), "_" if v == "_" else int(v), int(c)))
    return out


def model_kernel_for_public(fn: str, vdt: str):
    """kernel/kind the public method reaches (values always go through `_val_to_numpy`; `group_sum`
    sees an ndarray only when the caller passed one)"""
    npdt, kind, _ = DTYPES[vdt]
    if fn == "size":
        return "size", "i64"
    if fn == "count":
        return "count", kind
    if fn in ("sum", "mean"):
        return "sum", kind
    if fn == "sum_squares":
        return "sum_squares", "f"
    return fn, kind


def expected_from_spec(fn, vdt, spec):
    """spec rows -> list of (label, expected value) as the public result must show"""
    npdt = DTYPES[vdt][0]
    out = []
    for lab, v, c in spec:
        if fn in ("size", "count"):
            out.append((lab, c))
        elif fn == "mean":
            if c == 0:
                out.append((lab, MIN_INT if npdt.kind in "mM" else "_"))
            elif npdt.kind in "mM":
                out.append((lab, ("approx", Fraction(v, c))))
            else:
                q = v / c
                out.append((lab, int(q) if float(q).is_integer() else q))
        else:
            out.append((lab, v))
    return out


def canon_result_series(res: pd.Series, key_classes):
    """public result -> list of (label tuple of ints, canonical value)"""
    out = []
    idx = res.index
    vals = res.to_numpy()
    if vals.dtype.kind in "mM":
        vals_c = [int(v) for v in vals.view("int64")]
    elif vals.dtype == object:
        vals_c = []
        for v in vals:
            if v is pd.NaT or v is None or (isinstance(v, float) and math.isnan(v)) or v is pd.NA:
                vals_c.append("_")
            elif isinstance(v, (pd.Timestamp, pd.Timedelta)):
                vals_c.append(int(v.value))
            else:
                vals_c.append(canon_scalar(v))
    else:
        vals_c = [canon_scalar(v) for v in vals]
    for lab, v in zip(idx, vals_c):
        if not isinstance(lab, tuple):
            lab = (lab,)
        out.append((tuple(decode_label(x, c) for x, c in zip(lab, key_classes)), v))
    return out


def values_match(exp, got) -> bool:
    if len(exp) != len(got):
        return False
    for (el, ev), (gl, gv) in zip(exp, got):
        if el != gl:
            return False
        if isinstance(ev, tuple) and ev[0] == "approx":
            if gv == "_" or abs(Fraction(gv) - ev[1]) >= 1:
                return False
        elif ev != gv:
            return False
    return True


def build_mask(ds, index=None, as_series=False):
    m = ds.get("mask")
    if m is None:
        return None
    if m[0] == "b":
        arr = np.array(m[1], dtype=bool)
        return pd.Series(arr, index=index) if as_series else arr
    if m[0] == "p":
        return np.array(m[1], dtype=np.int64)
    if m[0] == "s":
        return slice(m[1], m[2])
    raise ValueError(m)


def build_keys(ds, index=None, container="ndarray"):
    cols = [encode_key_column(col, cls, name=f"k{i}" if container == "series" else None, container=container, index=index)
            for i, (col, cls) in enumerate(zip(ds["keys"], ds["key_classes"]))]
    return cols[0] if len(cols) == 1 else cols


def build_values(ds, index=None, container="ndarray", name=None):
    arr = encode_values(ds["vals"], ds["vdt"])
    if container == "ndarray":
        return arr
    if container == "series":
        return pd.Series(arr, index=index, name=name)
    raise ValueError(container)


def gen_dataset(rng, max_rows=10, max_labels=4, nkeys=None, key_classes=None, vdt=None, p_null_key=0.15, p_null_val=0.25,
                mask_kinds=("none", "b", "s", "p"), min_rows=0):
    n = rng.randint(min_rows, max_rows)
    nkeys = nkeys or rng.choice([1, 1, 1, 2, 2, 3])
    key_classes = key_classes or [rng.choice(KEY_CLASSES) for _ in range(nkeys)]
    keys = []
    for cls in key_classes:
        hi = 2 if cls == "bool" else rng.randint(1, max_labels)
        col = []
        for _ in range(n):
            if null_allowed(cls) and rng.random() < p_null_key:
                col.append(None)
            else:
                col.append(rng.randrange(hi))
        keys.append(col)
    vdt = vdt or rng.choice(["f64", "f64", "f32", "i64", "i32", "u8", "bool", "M8ns", "m8s"])
    null_ok = DTYPES[vdt][2] is not None and vdt != "i64"
    alpha = [0, 1] if vdt == "bool" else ([1, 2, 3, 7] if vdt in ("u8", "M8ns") else [-3, 1, 2, 7])
    vals = [None if (null_ok and rng.random() < p_null_val) else rng.choice(alpha) for _ in range(n)]
    # force an all-null group now and then
    if null_ok and n and rng.random() < 0.3:
        g = keys[0][rng.randrange(n)]
        vals = [None if k == g else v for k, v in zip(keys[0], vals)]
    mk = rng.choice(mask_kinds)
    mask = None
    if n and mk == "b":
        p = rng.choice([0.0, 0.3, 0.7, 1.0])
        mask = ("b", [rng.random() < p for _ in range(n)])
    elif n and mk == "s":
        mask = ("s", rng.choice([None, 0, 1, -2, -n, n // 2]), rng.choice([None, n - 1, -1, n + 1, n // 2]))
    elif n and mk == "p":
        mask = ("p", [rng.randrange(-n, n) for _ in range(rng.randint(0, n + 2))])
    return dict(keys=keys, key_classes=key_classes, vals=vals, vdt=vdt, mask=mask, sort=rng.random() < 0.8)


def bigcard_keys(gseed: int, n1: int = 70000, planted: int = 40):
    """two integer key columns whose per-key label counts multiply beyond 2**32 (the typed-dict tracker of factorize_2d):
    the first n1 rows are (i, i), so that both keys' first-appearance codes equal their values; then `planted` pairs of rows
    (c1, c2), (c1 + q, c2 + r) with q * n1 + r = 2**32 - mixed-radix keys that differ by exactly 2**32 - and random repeats"""
    g = np.random.default_rng(gseed)
    q, r = divmod(2 ** 32, n1)
    k1 = [np.arange(n1), ]
    k2 = [np.arange(n1), ]
    c1 = g.integers(0, n1 - q - 1, planted)
    c2 = g.integers(0, n1 - r - 1, planted)
    c2 = np.where(c1 == c2, c2 + 1, c2)
    k1 += [np.stack([c1, c1 + q], axis=1).ravel()]
    k2 += [np.stack([c2, c2 + r], axis=1).ravel()]
    rep = g.integers(0, n1 + 2 * planted, 500)
    a, b = np.concatenate(k1), np.concatenate(k2)
    a, b = np.concatenate([a, a[rep]]), np.concatenate([b, b[rep]])
    return a.astype(np.int64), b.astype(np.int64)


def check_bigcard(codes, lab1, lab2, k1, k2, want_order: str | None):
    """partition relations on a large two-key factorization (vectorised); returns an error string or None"""
    codes = np.asarray(codes)
    if len(codes) != len(k1):
        return f"{len(codes)} codes for {len(k1)} rows"
    if (codes < 0).any() or (codes >= len(lab1)).any():
        return "code out of range (no key is null here)"
    bad = np.nonzero((np.asarray(lab1)[codes] != k1) | (np.asarray(lab2)[codes] != k2))[0]
    if len(bad):
        i = int(bad[0])
        return f"row {i} has key ({int(k1[i])}, {int(k2[i])}) but its code {int(codes[i])} is labelled ({int(np.asarray(lab1)[codes[i]])}, {int(np.asarray(lab2)[codes[i]])})"
    pairs = np.asarray(lab1).astype(np.int64) * (2 ** 31) + np.asarray(lab2).astype(np.int64)
    if len(np.unique(pairs)) != len(pairs):
        return "two labels are equal"
    distinct = len(np.unique(k1.astype(np.int64) * (2 ** 31) + k2))
    if distinct != len(lab1):
        return f"{len(lab1)} labels for {distinct} distinct key pairs"
    if want_order == "first":
        _, first = np.unique(codes, return_index=True)
        if (np.diff(first) <= 0).any():
            g = int(np.nonzero(np.diff(first) <= 0)[0][0])
            return f"labels are not in first-appearance order: label {g + 1} first appears at row {int(first[g + 1])}, label {g} at row {int(first[g])}"
    if want_order == "sorted":
        if (np.diff(pairs) <= 0).any():
            return "labels are not sorted"
    return None
