"""CLI:  ./check <Cxx> [--tier quick|thorough] [--replay FILE]"""
from __future__ import annotations

import argparse
import importlib
import os
import sys
import traceback


def main() -> int:
    ap = argparse.ArgumentParser()
    ap.add_argument("prop")
    ap.add_argument("--tier", default=os.environ.get("VERIF_TIER", "quick"), choices=["quick", "thorough"])
    ap.add_argument("--replay", default=None)
    ap.add_argument("--seed", type=int, default=int(os.environ.get("VERIF_SEED", "20260926")))
    args = ap.parse_args()
    os.environ.setdefault("GROUPBY_LIB_VERIF", "1")
    # the repository under test must be the one in /repo (editable install points there)
    mod = importlib.import_module(f"tools.harness.props.{args.prop.lower()}")
    if args.replay:
        return mod.replay(args.replay)
    return mod.main(args.tier, args.seed)


if __name__ == "__main__":
    try:
        sys.exit(main())
    except SystemExit:
        raise
    except BaseException:
        traceback.print_exc()
        sys.exit(2)
