#!/usr/bin/env python3
import json, sys
d = json.load(open(sys.argv[1]))
vs = ([d['violation']] + d.get('more', [])) if 'violation' in d else d.get('correspondence_disagreements', [])
for v in vs:
    c = v['case']
    print({k: c[k] for k in c}, '\n   exp', v.get('expected', v.get('spec')), '\n   got', str(v['actual'])[:300], '\n   model', v.get('model'))
if 'failed_obligations' in d:
    print('failed obligations:', [o['name'] for o in d['failed_obligations']])
