#!/usr/bin/env python3
"""Translator: regenerates lean/GroupbyVerif/Generated/*.lean from /repo's CURRENT source.

Scope (DESIGN.md §4.1): the scalar reducers `ScalarFuncs.*` (numba.py) and
`NumbaReductionOps.*` (util.py) are rendered as pure Lean `if/let` expressions; constants,
dtypes and syntactic facts the proofs depend on are extracted by AST pattern matching.
Anything outside the supported subset raises TranslateError (reported by the check as a
broken obligation, never ignored).

Only the standard library is used, so this runs under any python3.
"""
from __future__ import annotations

import ast
import hashlib
import os
import sys
from pathlib import Path

REPO = Path(os.environ.get("VERIF_REPO", "/repo"))
OUT = Path(__file__).resolve().parent.parent / "lean" / "GroupbyVerif" / "Generated"


class TranslateError(Exception):
    pass


# --------------------------------------------------------------------------------------
# expression / statement translation for the scalar subset
# --------------------------------------------------------------------------------------

VAL, INT, BOOL = "Val", "Int", "Bool"

LEAN_KEYWORDS = {"from", "at", "end", "then", "do", "fun", "in", "let", "have", "show", "open"}


def lname(name: str) -> str:
    return name + "'" if name in LEAN_KEYWORDS else name


class Scalar:
    def __init__(self, env: dict[str, str]):
        self.env = dict(env)

    def to_val(self, s, t):
        if t == VAL:
            return s
        if t == INT:
            return f"(Val.ofInt {s})"
        raise TranslateError(f"cannot coerce {t} to Val: {s}")

    def expr(self, e: ast.AST):
        """returns (lean_text, type)"""
        if isinstance(e, ast.Name):
            if e.id not in self.env:
                raise TranslateError(f"unknown name {e.id}")
            return lname(e.id), self.env[e.id]
        if isinstance(e, ast.Constant):
            if isinstance(e.value, bool):
                return ("true" if e.value else "false"), BOOL
            if isinstance(e.value, int):
                return f"({e.value} : Int)", INT
            raise TranslateError(f"unsupported constant {e.value!r}")
        if isinstance(e, ast.BinOp):
            if isinstance(e.op, ast.Pow):
                if isinstance(e.right, ast.Constant) and e.right.value == 2:
                    s, t = self.expr(e.left)
                    return f"(Val.sq {self.to_val(s, t)})", VAL
                raise TranslateError("only **2 is supported")
            ls, lt = self.expr(e.left)
            rs, rt = self.expr(e.right)
            if isinstance(e.op, ast.Add):
                if lt == INT and rt == INT:
                    return f"({ls} + {rs})", INT
                return f"(Val.add {self.to_val(ls, lt)} {self.to_val(rs, rt)})", VAL
            if isinstance(e.op, ast.Sub):
                if lt == INT and rt == INT:
                    return f"({ls} - {rs})", INT
                return f"(Val.sub {self.to_val(ls, lt)} {self.to_val(rs, rt)})", VAL
            raise TranslateError(f"unsupported operator {type(e.op).__name__}")
        if isinstance(e, ast.Compare):
            if len(e.ops) != 1:
                raise TranslateError("chained comparison")
            ls, lt = self.expr(e.left)
            rs, rt = self.expr(e.comparators[0])
            op = e.ops[0]
            if lt == INT and rt == INT:
                sym = {ast.Gt: ">", ast.Lt: "<", ast.GtE: "≥", ast.LtE: "≤", ast.Eq: "=", ast.NotEq: "≠"}.get(type(op))
                if sym is None:
                    raise TranslateError("unsupported int comparison")
                return f"(decide ({ls} {sym} {rs}))", BOOL
            fn = {ast.Gt: "Val.gt", ast.Lt: "Val.lt", ast.GtE: "Val.ge", ast.LtE: "Val.le"}.get(type(op))
            if fn is None:
                raise TranslateError(f"unsupported comparison {type(op).__name__}")
            return f"({fn} {self.to_val(ls, lt)} {self.to_val(rs, rt)})", BOOL
        if isinstance(e, ast.Call):
            if isinstance(e.func, ast.Name) and e.func.id == "is_null" and len(e.args) == 1 and not e.keywords:
                s, t = self.expr(e.args[0])
                return f"(isNull k {self.to_val(s, t)})", BOOL
            raise TranslateError(f"unsupported call {ast.dump(e.func)}")
        if isinstance(e, ast.IfExp):
            c = self.cond(e.test)
            a, at = self.expr(e.body)
            b, bt = self.expr(e.orelse)
            if at != bt:
                a, b, at = self.to_val(a, at), self.to_val(b, bt), VAL
            return f"(if {c} then {a} else {b})", at
        if isinstance(e, ast.UnaryOp) and isinstance(e.op, ast.Not):
            return f"(!{self.cond(e.operand)})", BOOL
        if isinstance(e, ast.BoolOp):
            parts = [self.cond(v) for v in e.values]
            sym = " && " if isinstance(e.op, ast.And) else " || "
            return "(" + sym.join(parts) + ")", BOOL
        raise TranslateError(f"unsupported expression {type(e).__name__}")

    def cond(self, e: ast.AST) -> str:
        s, t = self.expr(e)
        if t == BOOL:
            return s
        if t == INT:  # Python truthiness of an int
            return f"({s} != 0)"
        raise TranslateError("truthiness of a non-int value")

    def ret(self, e: ast.AST, n_out: int) -> str:
        if n_out == 2:
            if not (isinstance(e, ast.Tuple) and len(e.elts) == 2):
                raise TranslateError("expected `return a, b`")
            a, at = self.expr(e.elts[0])
            b, bt = self.expr(e.elts[1])
            if bt != INT:
                raise TranslateError("second component must be the count")
            return f"({self.to_val(a, at)}, {b})"
        a, at = self.expr(e)
        return self.to_val(a, at)

    def block(self, stmts: list[ast.stmt], n_out: int) -> str:
        """statements -> one expression (continuation style)"""
        if not stmts:
            raise TranslateError("control reaches end of function without return")
        s, rest = stmts[0], stmts[1:]
        if isinstance(s, ast.Expr) and isinstance(s.value, ast.Constant) and isinstance(s.value.value, str):
            return self.block(rest, n_out)  # docstring
        if isinstance(s, ast.Return):
            if s.value is None:
                raise TranslateError("bare return")
            return self.ret(s.value, n_out)
        if isinstance(s, ast.Assign):
            if len(s.targets) != 1 or not isinstance(s.targets[0], ast.Name):
                raise TranslateError("only `name = expr` assignments")
            v, t = self.expr(s.value)
            saved = dict(self.env)
            self.env[s.targets[0].id] = t
            body = self.block(rest, n_out)
            self.env = saved
            return f"(let {lname(s.targets[0].id)} : {t} := {v}; {body})"
        if isinstance(s, ast.If):
            c = self.cond(s.test)
            body_returns = self.always_returns(s.body)
            else_returns = bool(s.orelse) and self.always_returns(s.orelse)
            if body_returns and (else_returns or not s.orelse):
                a = self.block(s.body, n_out)
                b = self.block(s.orelse, n_out) if s.orelse else self.block(rest, n_out)
                return f"(if {c} then {a} else {b})"
            if not s.orelse and all(
                isinstance(x, ast.Assign) and len(x.targets) == 1 and isinstance(x.targets[0], ast.Name)
                for x in s.body
            ) and len(s.body) == 1:
                # `if c: v = e` followed by more statements  ->  let v := if c then e else v
                x = s.body[0]
                name = x.targets[0].id
                if name not in self.env:
                    raise TranslateError("conditional first assignment")
                v, t = self.expr(x.value)
                if t != self.env[name]:
                    raise TranslateError("conditional assignment changes type")
                body = self.block(rest, n_out)
                return f"(let {lname(name)} : {t} := if {c} then {v} else {lname(name)}; {body})"
            raise TranslateError("unsupported if-statement shape")
        raise TranslateError(f"unsupported statement {type(s).__name__}")

    def always_returns(self, stmts) -> bool:
        for s in stmts:
            if isinstance(s, ast.Return):
                return True
            if isinstance(s, ast.If) and s.orelse and self.always_returns(s.body) and self.always_returns(s.orelse):
                return True
        return False


def find_class(tree: ast.Module, name: str) -> ast.ClassDef:
    for n in tree.body:
        if isinstance(n, ast.ClassDef) and n.name == name:
            return n
    raise TranslateError(f"class {name} not found")


def find_func(tree: ast.AST, name: str) -> ast.FunctionDef:
    for n in ast.walk(tree):
        if isinstance(n, ast.FunctionDef) and n.name == name:
            return n
    raise TranslateError(f"function {name} not found")


def translate_scalar_class(cls: ast.ClassDef, n_args: int, n_out: int, expected: list[str]) -> tuple[str, list[str]]:
    out = []
    names = []
    for fn in cls.body:
        if not isinstance(fn, ast.FunctionDef):
            continue
        args = [a.arg for a in fn.args.args]
        if len(args) != n_args or fn.args.vararg or fn.args.kwarg or fn.args.kwonlyargs:
            raise TranslateError(f"{cls.name}.{fn.name}: unexpected signature {args}")
        env = {args[0]: VAL, args[1]: VAL}
        if n_args == 3:
            env[args[2]] = INT
        tr = Scalar(env)
        body = tr.block(fn.body, n_out)
        params = f"({lname(args[0])} {lname(args[1])} : Val)" + (f" ({lname(args[2])} : Int)" if n_args == 3 else "")
        rty = "Val × Int" if n_out == 2 else "Val"
        out.append(f"def {fn.name} (k : Kind) {params} : {rty} :=\n  {body}\n")
        names.append(fn.name)
    missing = [e for e in expected if e not in names]
    if missing:
        raise TranslateError(f"{cls.name}: expected functions missing: {missing}")
    return "\n".join(out), names


# --------------------------------------------------------------------------------------
# constants and syntactic facts
# --------------------------------------------------------------------------------------

DTYPE_BITS = {"int8": 8, "int16": 16, "int32": 32, "int64": 64, "uint8": 8, "uint16": 16, "uint32": 32, "uint64": 64}


def dtype_of_call(call: ast.Call):
    """dtype keyword of np.zeros/np.full/np.empty as (signed?, bits) ; None if absent (float64/int64 default)"""
    for kw in call.keywords:
        if kw.arg == "dtype":
            v = kw.value
            if isinstance(v, ast.Attribute):
                name = v.attr
            elif isinstance(v, ast.Constant) and isinstance(v.value, str):
                name = v.value
            elif isinstance(v, ast.Name):
                name = v.id
            else:
                raise TranslateError("dtype expression not understood")
            if name in DTYPE_BITS:
                return (not name.startswith("u"), DTYPE_BITS[name])
            if name in ("bool", "bool_"):
                return ("bool", 1)
            if name in ("float", "float64"):
                return ("float", 64)
            raise TranslateError(f"dtype {name} not understood")
    return None


def assigned_call(fn: ast.FunctionDef, var: str) -> ast.Call:
    for n in ast.walk(fn):
        if isinstance(n, ast.Assign) and len(n.targets) == 1 and isinstance(n.targets[0], ast.Name) and n.targets[0].id == var:
            if isinstance(n.value, ast.Call):
                return n.value
    raise TranslateError(f"{fn.name}: no `{var} = <call>` assignment")


def counter_width(fn: ast.FunctionDef, var: str) -> int:
    d = dtype_of_call(assigned_call(fn, var))
    if d is None:
        return 64  # numpy default int
    if d[0] in ("bool", "float"):
        raise TranslateError(f"{fn.name}.{var}: not an integer counter")
    return d[1]


def has_neg_key_guard(fn: ast.FunctionDef, keyvar: str) -> bool:
    """is there an `if <keyvar> < 0: continue` (possibly with extra statements before continue) in the loop"""
    for n in ast.walk(fn):
        if isinstance(n, ast.If) and isinstance(n.test, ast.Compare) and isinstance(n.test.left, ast.Name) \
                and n.test.left.id == keyvar and len(n.test.ops) == 1 and isinstance(n.test.ops[0], ast.Lt) \
                and isinstance(n.test.comparators[0], ast.Constant) and n.test.comparators[0].value == 0:
            if any(isinstance(x, ast.Continue) for x in n.body):
                return True
    return False


def module_int_constant(tree: ast.Module, name: str) -> int:
    for n in tree.body:
        if isinstance(n, ast.Assign) and len(n.targets) == 1 and isinstance(n.targets[0], ast.Name) and n.targets[0].id == name:
            if isinstance(n.value, ast.Constant) and isinstance(n.value.value, int):
                return n.value.value
    raise TranslateError(f"module constant {name} not found")


def lean_bool(b: bool) -> str:
    return "true" if b else "false"


class _FakeDtype:
    """stand-in for np.dtype when the accumulator-selection code of the library is executed on its whole (finite) domain"""

    def __init__(self, name):
        self.name = name
        self.kind = {"float": "f", "int": "i", "uint": "u", "bool": "b", "datetime64": "M", "timedelta64": "m"}[name.rstrip("0123456789")]
        self.itemsize = int("".join(c for c in name if c.isdigit()) or 8) // 8 if self.kind in "iuf" else (1 if self.kind == "b" else 8)

    def __eq__(self, other):
        return isinstance(other, _FakeDtype) and other.name == self.name or other == self.name

    def __hash__(self):
        return hash(self.name)

    def __str__(self):
        return self.name


class _FakeNumpy:
    nan = "nan"

    @staticmethod
    def dtype(x):
        return x if isinstance(x, _FakeDtype) else _FakeDtype("bool" if x is bool else str(x))

    @staticmethod
    def zeros(shape, dtype=None):
        return ("zeros", "0", str(_FakeNumpy.dtype(dtype)))

    @staticmethod
    def full(shape, value, dtype=None):
        return ("full", str(value), str(_FakeNumpy.dtype(dtype)))

    @staticmethod
    def empty(shape, dtype=None):
        return ("empty", "-", str(_FakeNumpy.dtype(dtype)))


# (datetime64 / timedelta64 values reach the kernels as int64 views: _cast_timestamps_to_ints)
DTYPE_NAMES = ["float64", "float32", "int64", "int32", "int16", "int8", "uint64", "uint32", "uint16", "uint8", "bool"]


def dtype_tables(numba_t, numba_src, util_t, util_src, scalar_names) -> str:
    """`_build_target_for_groupby` executed (its own source text, against a stub numpy) on every dtype x operation:
    the accumulator dtype and initial value the kernels start from"""
    fn = find_func(numba_t, "_build_target_for_groupby")
    src = ast.get_source_segment(numba_src, fn)
    ns = {"np": _FakeNumpy, "_null_value_for_numpy_type": lambda t: "null"}
    try:
        exec(compile(src, "<_build_target_for_groupby>", "exec"), ns)
    except Exception as e:  # noqa
        raise TranslateError(f"_build_target_for_groupby cannot be executed on stubs: {e!r}")
    ops = sorted(set(scalar_names) | {"count", "nancount", "sum_squares", "nansum_squares", "first", "last", "nanfirst", "nanlast"})
    rows = []
    for dn in DTYPE_NAMES:
        for op in ops:
            try:
                kind, init, target = ns["_build_target_for_groupby"](_FakeDtype(dn), op, 1)
            except Exception as e:  # noqa
                kind, init, target = "error", type(e).__name__, "-"
            rows.append(f'  ("{dn}", "{op}", "{target}", "{init}")')
    return ("\nnamespace GV.Generated.Dtypes\n\n/-- (value dtype, operation, accumulator dtype, initial value) -/\n"
            "def targetTable : List (String × String × String × String) := [\n" + ",\n".join(rows) + "\n]\n\nend GV.Generated.Dtypes\n")


def _self_attr(e, *chain):
    """is `e` the attribute chain self.<chain...> ?"""
    for name in reversed(chain):
        if not (isinstance(e, ast.Attribute) and e.attr == name):
            return False
        e = e.value
    return isinstance(e, ast.Name) and e.id == "self"


def facade_facts(api_t) -> str:
    """syntactic facts of groupby/api.py: what every facade method hands to the engine"""
    base = find_class(api_t, "BaseGroupBy")
    rows = []
    iter_indexer = "?"
    for fn in base.body:
        if not isinstance(fn, ast.FunctionDef):
            continue
        if fn.name == "__iter__":
            for node in ast.walk(fn):
                if isinstance(node, ast.Subscript) and isinstance(node.value, ast.Attribute) and node.value.attr in ("loc", "iloc") \
                        and _self_attr(node.value.value, "_obj"):
                    iter_indexer = node.value.attr
            continue
        for node in ast.walk(fn):
            if isinstance(node, ast.Call) and isinstance(node.func, ast.Attribute) and _self_attr(node.func.value, "_grouper"):
                if node.args:
                    a = node.args[0]
                    src = "values" if _self_attr(a, "_values_to_group") else "obj" if _self_attr(a, "_obj") else "other"
                else:
                    src = "none"
                for kw in node.keywords:
                    if kw.arg in ("values",):
                        src = "values" if _self_attr(kw.value, "_values_to_group") else "obj" if _self_attr(kw.value, "_obj") else "other"
                rows.append((fn.name, node.func.attr, src))
    roll = find_class(api_t, "BaseGroupByRolling")
    rolling_src = "?"
    for fn in roll.body:
        if isinstance(fn, ast.FunctionDef) and fn.name == "agg":
            for node in ast.walk(fn):
                if isinstance(node, ast.Call) and isinstance(node.func, ast.Name) and node.func.id == "method" and node.args:
                    a = node.args[0]
                    rolling_src = "values" if _self_attr(a, "_groupby_obj", "_values_to_group") else "obj" if _self_attr(a, "_groupby_obj", "_obj") else "other"
    dfg = find_class(api_t, "DataFrameGroupBy")
    excl = rec = sel_one = sel_list = False
    for fn in dfg.body:
        if isinstance(fn, ast.FunctionDef) and fn.name == "_from_by_keys":
            src = ast.unparse(fn)
            excl = "value_columns = [col for col in obj.columns if col not in columns_used_as_keys]" in src
            for node in ast.walk(fn):
                if isinstance(node, ast.If) and ast.unparse(node.test) == "key in obj.columns":
                    body = "\n".join(ast.unparse(b) for b in node.body)
                    rec = "columns_used_as_keys.add(key)" in body and "grouping_keys.append(obj[key])" in body
        if isinstance(fn, ast.FunctionDef) and fn.name == "__getitem__":
            src = ast.unparse(fn)
            sel_one = "subset = self._obj[key]" in src and "SeriesGroupBy(subset, grouper=self._grouper)" in src
            sel_list = "DataFrameGroupBy(self._obj, grouper=self._grouper, value_columns=key)" in src
        if isinstance(fn, ast.FunctionDef) and fn.name == "_values_to_group":
            vt = "{col: self._obj[col] for col in self.value_columns}" in ast.unparse(fn)
    body = ",\n".join(f'  ("{a}", "{b}", "{c}")' for a, b, c in rows)
    return ("\nnamespace GV.Generated.Facade\n\n/-- (facade method, engine method, what is passed as values) -/\n"
            f"def delegation : List (String × String × String) := [\n{body}\n]\n\n"
            f'def iterIndexer : String := "{iter_indexer}"\n'
            f'def rollingSource : String := "{rolling_src}"\n'
            f"def valueColumnsExcludeKeys : Bool := {lean_bool(excl)}\n"
            f"def keyColumnsRecorded : Bool := {lean_bool(rec)}\n"
            f"def selectionOneIsColumn : Bool := {lean_bool(sel_one)}\n"
            f"def selectionListIsValueColumns : Bool := {lean_bool(sel_list)}\n"
            f"def valuesToGroupIsValueColumns : Bool := {lean_bool(vt)}\n"
            "\nend GV.Generated.Facade\n")


def _simple_stmts(fn) -> list[str]:
    out = []
    for n in ast.walk(fn):
        if isinstance(n, (ast.Assign, ast.AugAssign)):
            out.append(ast.unparse(n))
        elif isinstance(n, ast.Expr) and not isinstance(n.value, ast.Constant):
            out.append(ast.unparse(n))
    return out


def loop_shape_facts(numba_t) -> list[tuple[str, str, str]]:
    """syntactic shape of the two accumulation loops the hand-written models `groupFold` / `cumGo` stand for:
    the reducer is applied to the row's own group slot only, rows are visited in array / indexer order, counts start at 0;
    the cumulative loop reads the group's previous output position and records the current one"""
    facts = {}
    red = find_func(numba_t, "_group_by_reduce")
    ss = _simple_stmts(red)
    upd = "target[key], count[key] = reduce_func(target[key], values[i], count[key])"
    calls = [x for x in ss if "reduce_func(" in x]
    facts["reduceUpdatesOwnSlot"] = bool(calls) and all(x == upd for x in calls)
    facts["reduceKeyFromRow"] = ss.count("key = group_key[i]") == len(calls)
    loops = [n for n in ast.walk(red) if isinstance(n, ast.For)]
    facts["reduceRowsInOrder"] = sorted(ast.unparse(l.iter) for l in loops) == ["indexer", "range(len(group_key))"] and \
        all(ast.unparse(l.target) == "i" for l in loops)
    facts["reduceCountStartsAtZero"] = any(x.startswith("count = np.full(len(target), 0") for x in ss)
    cum = find_func(numba_t, "_cumulative_reduce")
    cs = _simple_stmts(cum)
    facts["cumUpdatesFromLastSeen"] = "target[i], group_count[key] = reduce_func(target[last_seen], val, group_count[key])" in cs and \
        sum("reduce_func(" in x for x in cs) == 1
    facts["cumLastSeenTracked"] = "last_seen = group_last_seen[key]" in cs and "group_last_seen[key] = i" in cs and \
        any(x.startswith("group_last_seen = np.full(ngroups, -1") for x in cs)
    facts["cumMaskedPassThrough"] = "target[i] = target[last_seen]" in cs
    facts["cumRowCounter"] = "i += 1" in cs and "i = -1" in cs
    cloops = [ast.unparse(l.iter) for l in ast.walk(cum) if isinstance(l, ast.For)]
    facts["cumRowsInOrder"] = sorted(cloops) == ["arr", "values"]
    # the wrapper of the cumulative kernel: a target of one cell per row, the null marker written at the null-key rows iff the
    # kernel reports any (C06.source_cum_null_row_marker: the kernel leaves the initial value there)
    ac = find_func(numba_t, "_apply_cumulative")
    acs = _simple_stmts(ac)
    ifs = [n for n in ast.walk(ac) if isinstance(n, ast.If) and ast.unparse(n.test) == "has_null_keys"]
    facts["cumTargetOneCellPerRow"] = any(x.startswith("target = _build_target_for_groupby(") and x.endswith("len(group_key))") for x in acs)
    facts["cumNullKeyRowsGetNullMarker"] = len(ifs) == 1 and ast.unparse(ifs[0].body[-1]) == "result[np.asarray(group_key) < 0] = na_rep" and \
        "na_rep = _null_value_for_numpy_type(result.dtype)" in acs and "na_rep = 0" in acs
    # the Python fold that merges the per-block partials (mirrored by `C03.srcCombine`)
    comb = find_func(numba_t, "combine_chunk_results_for_factorized_key")
    bs = _simple_stmts(comb)
    cl = [n for n in ast.walk(comb) if isinstance(n, ast.For)]
    facts["combineStartsWithFirstBlock"] = "combined = chunks[0]" in bs and "combined_count = counts[0]" in bs
    facts["combineFoldsRemainingBlocksInOrder"] = len(cl) == 1 and ast.unparse(cl[0].iter) == "zip(chunks[1:], counts[1:])" and \
        ast.unparse(cl[0].target) == "(chunk, count)"
    merge = ("combined = reduce_array_pair(combined, chunk, getattr(ScalarFuncs, reduce_func_name), "
             "counts=combined_count if counts_given else None, y_counts=count if counts_given else None)")
    facts["combineMergesWithBothCounts"] = len(cl) == 1 and [ast.unparse(x) for x in cl[0].body] == [merge, "combined_count = combined_count + count"]
    facts["combineReturnsBoth"] = any(isinstance(n, ast.Return) and ast.unparse(n.value) == "(combined, combined_count)" for n in ast.walk(comb))
    return [(k, "Bool", lean_bool(v)) for k, v in facts.items()]


def transform_shape_facts(core_t) -> list[tuple[str, str, str]]:
    """the Python around the kernels that C07's `transformRows` / `source_transform_eq_lookup` stand for: every kernel call gets
    one slot more than there are groups (the null group), the per-chunk results drop that slot before they are merged into a
    target that has it again, and transform=True fancy-indexes the per-group arrays with the row codes"""
    facts = {}
    cls = find_class(core_t, "GroupBy")
    fn = {n.name: n for n in cls.body if isinstance(n, ast.FunctionDef)}
    ba = _simple_stmts(fn["_build_arg_dict_for_function"])
    facts["kernelCallHasNullSlot"] = any(x.startswith("shared_kwargs = dict(") and "ngroups=self.ngroups + 1" in x for x in ba)
    ch = fn["_apply_gb_func_across_chunked_group_keys"]
    cs = _simple_stmts(ch)
    facts["chunkedKernelCallHasNullSlot"] = any("ngroups=len(pointer) + 1 if pointer is not None else self.ngroups + 1" in x for x in cs)
    tgt = [n for n in ast.walk(ch) if isinstance(n, ast.Assign) and ast.unparse(n.targets[0]) == "combined"
           and isinstance(n.value, ast.Call) and ast.unparse(n.value.func).endswith("_build_target_for_groupby")]
    facts["chunkedTargetHasNullSlot"] = len(tgt) == 1 and len(tgt[0].value.args) == 3 and \
        ast.unparse(tgt[0].value.args[2]) == "len(self._result_index) + 1"
    facts["chunkResultsDropNullSlot"] = "result = result[:-1]" in cs and any("y_counts=counts_one_value[j][:-1]" in x for x in cs) and \
        "count[pointer] += counts_one_value[j][:-1]" in cs
    # the lazy unification of chunk-local codes (C03.chunk_route_eq_global / C13.unify_preserves_abs model it): every chunk is
    # mapped through its pointer table at the non-null positions only, the null code is kept - unconditionally
    un = fn["_unify_group_key_chunks"]
    loops = [n for n in ast.walk(un) if isinstance(n, ast.For)]
    body = [ast.unparse(x) for x in loops[0].body] if len(loops) == 1 else []
    facts["unifyKeepsNullCode"] = len(loops) == 1 and ast.unparse(loops[0].iter) == "zip(self._group_key_pointers, self._group_ikey.chunks)" and \
        body == ["k = np.asarray(k)", "not_null = k >= 0", "global_codes = np.full(len(k), -1, dtype=np.int64)",
                 "global_codes[not_null] = p[k[not_null]]", "chunks.append(global_codes)"]
    # GroupBy.var (C16: `varFrom` / `group_var_eq_two_pass` model it): one-pass formula from three reductions, null when the
    # group has no more values than ddof
    vs = _simple_stmts(fn["var"])
    rets = [ast.unparse(n.value) for n in ast.walk(fn["var"]) if isinstance(n, ast.Return)]
    facts["varOnePassFormula"] = rets == ["(sq_sum - sum_sq / count) / denominator"] and \
        any(x.startswith("sq_sum = self._apply_gb_reduction('sum_squares'") for x in vs) and \
        any(x.startswith("sum_sq = self.sum(") and x.endswith("** 2") for x in vs) and \
        any(x.startswith("count = self.count(") for x in vs)
    facts["varNullWhenCountLeDdof"] = "denominator = np.where(n_values > ddof, n_values - ddof, np.nan)" in vs and \
        "n_values = np.asarray(count.to_numpy(), dtype=np.float64)" in vs
    rd = _simple_stmts(fn["_apply_gb_reduction"])
    facts["transformBroadcastsByCodes"] = "result_columns = [result[self.group_ikey] for result in result_columns]" in rd
    return [(k, "Bool", lean_bool(v)) for k, v in facts.items()]


LOOP_ERRORS: dict = {}


def generate() -> dict[str, str]:
    numba_src = (REPO / "groupby_lib/groupby/numba.py").read_text()
    util_src = (REPO / "groupby_lib/util.py").read_text()
    core_src = (REPO / "groupby_lib/groupby/core.py").read_text()
    emas_src = (REPO / "groupby_lib/emas.py").read_text()
    numba_t, util_t, core_t, emas_t = map(ast.parse, (numba_src, util_src, core_src, emas_src))

    files = {}
    head = "-- GENERATED by tools/translate.py from /repo — do not edit; rewritten on every check run\n"
    sf, sf_names = translate_scalar_class(
        find_class(numba_t, "ScalarFuncs"), 3, 2,
        ["sum", "nansum", "nansum_squares", "max", "nanmax", "min", "nanmin", "nancount", "count", "first", "last"],
    )
    ro, ro_names = translate_scalar_class(
        find_class(util_t, "NumbaReductionOps"), 2, 1,
        ["count", "min", "max", "sum", "first", "first_skipna", "last", "last_skipna", "sum_square"],
    )
    files["ScalarFuncs.lean"] = (
        head + "import GroupbyVerif.Model.Val\n\nset_option linter.unusedVariables false\n\nnamespace GV.Generated.ScalarFuncs\nopen GV\n\n" + sf
        + "\nend GV.Generated.ScalarFuncs\n\nnamespace GV.Generated.ReductionOps\nopen GV\n\n" + ro
        + "\nend GV.Generated.ReductionOps\n"
    )

    # ---- constants / syntactic facts ----
    consts = []
    find_nth = find_func(numba_t, "_find_nth")
    find_fl = find_func(numba_t, "_find_first_or_last_n")
    consts.append(("seenWidthNth", "Nat", str(counter_width(find_nth, "seen"))))
    consts.append(("seenWidthFirstLast", "Nat", str(counter_width(find_fl, "seen"))))
    rs = find_func(numba_t, "_rolling_sum_or_mean_1d")
    rm = find_func(numba_t, "_rolling_max_or_min_1d")
    rd = find_func(numba_t, "_rolling_shift_or_diff_1d")
    consts.append(("rollSumPosWidth", "Nat", str(counter_width(rs, "group_positions"))))
    consts.append(("rollSumNonNullWidth", "Nat", str(counter_width(rs, "group_non_null"))))
    consts.append(("rollSumSeenWidth", "Nat", str(counter_width(rs, "group_n_seen"))))
    consts.append(("rollMaxPosWidth", "Nat", str(counter_width(rm, "group_buffer_pos"))))
    consts.append(("rollMaxNonNullWidth", "Nat", str(counter_width(rm, "group_non_null"))))
    consts.append(("rollMaxSeenWidth", "Nat", str(counter_width(rm, "group_n_seen"))))
    consts.append(("rollShiftPosWidth", "Nat", str(counter_width(rd, "group_buffer_pos"))))
    consts.append(("rollShiftCountWidth", "Nat", str(counter_width(rd, "group_counts"))))
    cum = find_func(numba_t, "_cumulative_reduce")
    consts.append(("cumCountWidth", "Nat", str(counter_width(cum, "group_count"))))
    for nm, fn, kv in [
        ("guardReduce", find_func(numba_t, "_group_by_reduce"), "key"),
        ("guardFindNth", find_nth, "k"),
        ("guardFirstLast", find_fl, "k"),
        ("guardRollSum", rs, "key"),
        ("guardRollMax", rm, "key"),
        ("guardRollShift", rd, "key"),
        ("guardCumulative", cum, "key"),
        ("guardEmaGrouped", find_func(emas_t, "_ema_grouped"), "k"),
        ("guardEmaGroupedTimed", find_func(emas_t, "_ema_grouped_timed"), "k"),
        ("guardNearbyMembers", find_func(numba_t, "group_nearby_members"), "key"),
    ]:
        consts.append((nm, "Bool", lean_bool(has_neg_key_guard(fn, kv))))
    consts.extend(loop_shape_facts(numba_t))
    consts.extend(transform_shape_facts(core_t))
    consts.append(("chunkedFactorizeThreshold", "Nat", str(module_int_constant(core_t, "THRESHOLD_FOR_CHUNKED_FACTORIZE"))))
    api_t = ast.parse((REPO / "groupby_lib/groupby/api.py").read_text())
    files["Facade.lean"] = head + facade_facts(api_t)
    files["Dtypes.lean"] = head + dtype_tables(numba_t, numba_src, util_t, util_src, sf_names)
    # ---- the loop kernels themselves (tools/translate_loops.py) ----
    import translate_loops
    fact_t = ast.parse((REPO / "groupby_lib/groupby/factorization.py").read_text())
    nanops_t = ast.parse((REPO / "groupby_lib/nanops.py").read_text())
    loops_txt, loop_errors = translate_loops.generate_loops(
        {"numba": numba_t, "core": core_t, "emas": emas_t, "fact": fact_t, "nanops": nanops_t, "util": util_t})
    files["Loops.lean"] = head + loops_txt
    global LOOP_ERRORS
    LOOP_ERRORS = loop_errors
    body = "\n".join(f"def {n} : {t} := {v}" for n, t, v in consts)
    files["Constants.lean"] = head + "\nnamespace GV.Generated.Constants\n\n" + body + "\n\nend GV.Generated.Constants\n"
    return files


def main() -> int:
    try:
        files = generate()
    except (TranslateError, SyntaxError, OSError) as e:
        print(f"TRANSLATE-ERROR: {e}")
        return 3
    OUT.mkdir(parents=True, exist_ok=True)
    changed = []
    for name, text in files.items():
        p = OUT / name
        if not p.exists() or p.read_text() != text:
            tmp = p.with_suffix(".tmp")
            tmp.write_text(text)
            os.replace(tmp, p)
            changed.append(name)
    digest = hashlib.sha256("".join(files[k] for k in sorted(files)).encode()).hexdigest()[:16]
    loops = f" loop-errors={';'.join(k + ': ' + v for k, v in LOOP_ERRORS.items())}" if LOOP_ERRORS else ""
    print(f"translate: ok digest={digest} changed={','.join(changed) or '-'}{loops}")
    return 0


if __name__ == "__main__":
    sys.exit(main())
