import random, collections, sys, itertools, importlib
mod = importlib.import_module("tools.harness.props." + sys.argv[1])
from tools.harness import pool, common
mod.setup_worker(); pool.install_inline()
N = int(sys.argv[2]) if len(sys.argv) > 2 else 400
seed = int(sys.argv[3]) if len(sys.argv) > 3 else 1
bad = collections.defaultdict(list)
cnt = collections.Counter()
try:
    drv = common.Driver()
except Exception:
    drv = None
for case in itertools.islice(mod.gen_cases("quick", random.Random(seed)), N):
    try:
        r = mod.evaluate(case, drv)
    except Exception as e:
        import traceback
        bad[("HARNESS", type(e).__name__, str(e)[:80])].append(traceback.format_exc()[-600:]); continue
    cnt[r['verdict']] += 1
    for t in r['tags']:
        if t.startswith(('all-rej', 'rejected', 'ctor', 'core-', 'pandas-', 'model-tie')): cnt[t] += 1
    if r['verdict'] != 'ok':
        d = r['detail']
        bad[(r['verdict'],) + tuple(str(x) for x in r.get('bucket', ()))].append((str(d.get('expected'))[:230], str(d.get('actual'))[:230], str(d.get('note', ''))[:80], str(d.get('arrangement', ''))[:200]))
print(cnt)
for k, v in sorted(bad.items(), key=lambda kv: -len(kv[1]))[:int(sys.argv[4]) if len(sys.argv) > 4 else 40]:
    print(len(v), k)
    for x in v[:2]: print("     ", x)
