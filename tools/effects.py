#!/usr/bin/env python3
"""Effect extraction for C19: which function parameters / object state can be written through, and what is passed at those positions.

Every function / method of groupby_lib is abstractly interpreted over its AST (flow-sensitive, joins at branches, loops to a fixpoint).
The abstract value of an expression is a set of ALIASES  (root, kind):
    root : a parameter name of the function, or "self.<attr>" (object state)          - nothing at all = locally fresh
    kind : o  the very object (or a sub-object shared with it: .index, .values ...)
           v  another object that may share the root's buffer (view, zero-copy conversion, unknown call on it)
           e  an element / row read from it (x[i], loop variable) - a scalar or a row view
           h  held inside a locally created container (list / tuple / dict / zip ...): the container itself is fresh
Recorded per function:
    writes  : (root, depth, mode)   depth s = the root itself, d = an element of it (root is a container of arrays)
                                    mode buf = a buffer store (x[..] = , x op= , out=x, np.copyto(x..), x.sort() ...),
                                         obj = an object mutation (x.attr = , inplace=True, list/dict mutators, del x[k])
    calls   : callee (resolved by name inside the library) and per callee parameter the aliases of the argument
    returns : (param, kind) aliases that may flow into the return value
    stores  : self.<attr> = <aliases>  (retention of caller objects in the grouping's state)

`python3 effects.py` prints the facts;  `effects.py --lean <file>` writes the Lean table consumed by GroupbyVerif/Props/C19.lean.

Deliberate approximations (may-alias / may-write direction; see DESIGN.md §C19):
  * unknown callables (function-valued variables, third-party calls outside the allow-lists) return something aliasing all their
    arguments (kind v) and are assumed not to write their arguments;
  * arithmetic, comparisons and allow-listed numpy/pandas constructors and methods return fresh objects;
  * x op= v on a name is a buffer write only for kinds o/v (for kind e the name is taken to be a scalar);
  * func = getattr(<module>, <name expr>) stands for every public top-level function of that module (matching a constant f-string prefix);
    a call through it binds every parameter of every candidate to all arguments.
"""
from __future__ import annotations

import ast
import sys
from pathlib import Path

REPO = Path("/repo")
PKG = REPO / "groupby_lib"

LIBS = {"np", "pd", "pl", "pa", "pc", "nb", "numba", "math", "os", "re", "operator", "functools", "itertools", "inspect", "warnings", "typing", "numpy", "pandas"}
# library functions whose result may share memory with their (first) arguments
ALIAS_FUNCS = {
    "asarray", "asanyarray", "ascontiguousarray", "atleast_1d", "atleast_2d", "ravel", "reshape", "squeeze", "transpose", "broadcast_to",
    "split", "array_split", "swapaxes", "moveaxis", "expand_dims", "diagonal", "real", "imag", "frombuffer", "from_dlpack", "broadcast_arrays",
    "Series", "DataFrame", "Index", "Categorical", "from_codes", "MultiIndex", "from_arrays", "DatetimeIndex", "TimedeltaIndex", "chunked_array",
    "from_numpy", "from_pandas", "from_arrow", "from_product", "List", "to_datetime", "to_timedelta", "Table", "from_pydict", "array" if False else "__x__",
    "from_buffers", "ExtensionArray", "ArrowExtensionArray", "NumpyExtensionArray",
}
MAYBE_COPY_FUNCS = {"array"}   # np.array(x) copies unless copy=False is passed; pa.array(x) may be zero-copy
FRESH_METHODS = {
    "copy", "sum", "mean", "min", "max", "any", "all", "argsort", "argmax", "argmin", "cumsum", "cumprod", "nonzero", "tolist", "item",
    "fillna", "isna", "isnull", "notna", "notnull", "unique", "factorize", "map", "apply", "round", "clip", "take", "repeat", "searchsorted",
    "keys", "get_indexer", "get_indexer_for", "equals", "join", "format", "startswith", "endswith", "lower", "upper", "strip",
    "is_null", "is_not_null", "null_count", "cast", "fill_null", "drop_nulls", "combine_chunks", "dictionary_encode", "to_pylist",
    "total_seconds", "count", "diff", "std", "var", "prod", "dot", "flatten", "nunique", "value_counts", "groupby", "reindex", "sort_values",
    "sort_index", "droplevel", "rename", "rename_axis", "set_axis", "to_frame", "reset_index", "unstack", "stack", "isin", "duplicated", "drop",
    "drop_duplicates", "dropna", "where", "mask", "replace", "between", "mul", "div", "floordiv", "truediv",
    "get_loc", "union", "intersection", "difference", "concat", "tz_localize", "tz_convert", "as_unit", "isoformat", "set_index", "set_levels",
    "cumcount", "rank", "quantile", "median", "agg", "transform", "select", "with_columns", "to_list", "rechunk", "to_physical", "len",
    "is_empty", "alias", "set_names", "remove_unused_categories", "remove_categories", "add_categories", "reorder_categories", "set_categories",
    "as_ordered", "as_unordered", "to_pytimedelta", "to_pydatetime", "collect", "sort", "encode", "decode", "is_unique", "max_by", "floor", "ceil",
    "strftime", "normalize", "argwhere", "bit_length", "conjugate", "nbytes", "most_common", "total", "elements", "hexdigest", "digest", "as_py",
}
VIEW_METHODS = {"view", "reshape", "ravel", "squeeze", "transpose", "swapaxes", "to_numpy", "__array__", "to_arrow", "to_pandas", "chunk",
                "iterchunks", "slice", "head", "tail", "get_chunks", "buffers", "field", "column", "get_level_values", "byteswap", "newbyteorder",
                "getfield", "to_series", "get_column", "iter_columns", "get_columns", "astype_view", "get", "values", "items", "to_dict", "to_struct",
                "__getitem__", "droplevel_view", "array"}
BUF_MUTATORS = {"fill", "put", "itemset", "setfield", "partition", "resize", "byteswap_inplace"}   # ndarray in-place methods (+ sort: see below)
OBJ_MUTATORS = {"update", "append", "extend", "insert", "remove", "clear", "popitem", "setdefault", "pop", "reverse", "discard", "setflags",
                "add" if False else "__y__"}
NP_INPLACE = {"put": 0, "place": 0, "copyto": 0, "putmask": 0, "put_along_axis": 0, "fill_diagonal": 0, "shuffle": 0}
SHARED_ATTRS = {"index", "columns", "values", "array", "_data", "_values", "_mgr", "codes", "categories", "levels", "cat", "dt", "str", "loc", "iloc", "at",
                "iat", "flat", "base", "T", "real", "imag", "data", "chunks", "indices", "dictionary", "asi8", "_codes", "_ndarray", "names", "name", "dtype"}
PURE_BUILTINS = {"len", "int", "float", "bool", "str", "range", "isinstance", "type", "sum", "min", "max", "abs", "any", "all", "repr", "hash", "id", "round",
                 "divmod", "print", "callable", "hasattr", "issubclass", "signature", "slice", "ValueError", "TypeError", "KeyError", "IndexError",
                 "NotImplementedError", "RuntimeError", "AttributeError", "AssertionError", "StopIteration", "Exception", "format", "ord", "chr", "iter" if False else "__z__"}
CONTAINER_BUILTINS = {"list", "tuple", "dict", "zip", "enumerate", "reversed", "map", "filter", "sorted", "set", "frozenset", "OrderedDict", "defaultdict", "chain"}

E = frozenset()
MODULE_ALIASES: dict = {}


def kinds(al, ks):
    return frozenset(a for a in al if a[1] in ks)


def rekind(al, table):
    return frozenset((r, table[k]) for r, k in al if table.get(k))


HOLD = {"o": "h", "v": "h", "e": "h", "h": "hh", "hh": "hh"}     # hh: held in a container inside a container (a tuple of lists ...)
ELEM = {"o": "e", "v": "e", "e": "e", "h": "v", "hh": "h"}       # x[i] / loop variable / unpacking
VIEW = {"o": "v", "v": "v", "e": "e", "h": "h", "hh": "hh"}      # a derived object sharing the buffer
SHARED = {"o": "o", "v": "v", "e": "e", "h": "h", "hh": "hh"}    # x.index, x.values: a sub-object of the same object


def compose(arg_kind, ret_kind):
    """alias kind, in the caller, of a callee result that is a `ret_kind` alias of a parameter bound to an `arg_kind` alias"""
    if ret_kind == "o":
        return arg_kind
    if ret_kind == "v":
        return VIEW[arg_kind]
    if ret_kind == "e":
        return ELEM[arg_kind]
    if ret_kind == "h":
        return HOLD[arg_kind]
    return HOLD[HOLD[arg_kind]]


class FnInfo:
    def __init__(self, qual, node, cls, module):
        self.qual, self.node, self.cls, self.module = qual, node, cls, module
        a = node.args
        self.positional = [x.arg for x in a.posonlyargs + a.args]
        self.vararg = a.vararg.arg if a.vararg else None
        self.kwarg = a.kwarg.arg if a.kwarg else None
        self.params = self.positional + ([self.vararg] if self.vararg else []) + [x.arg for x in a.kwonlyargs] + ([self.kwarg] if self.kwarg else [])
        self.writes: dict[tuple, list[int]] = {}      # (root, depth, mode) -> lines
        self.calls: list = []                        # (callee, {param: aliases}, line)
        self.returns: set = set()                    # (param, kind)
        self.stores: dict[str, set] = {}             # self.attr -> aliases retained
        self.is_kernel = any("jit" in ast.unparse(d) for d in node.decorator_list)
        self.is_method = cls is not None and self.positional[:1] in (["self"], ["cls"])


def collect(pkg: Path):
    fns: dict[str, FnInfo] = {}
    by_name: dict[str, list[str]] = {}
    MODULE_ALIASES.clear()
    for f in sorted(pkg.rglob("*.py")):
        mod = ".".join(f.relative_to(pkg.parent).with_suffix("").parts)
        tree = ast.parse(f.read_text())
        for node in ast.walk(tree):
            # `from . import numba as numba_funcs`, `from groupby_lib import nanops`: module-valued names (for getattr(module, name) dispatch)
            if isinstance(node, ast.ImportFrom):
                for a in node.names:
                    MODULE_ALIASES.setdefault(mod, {})[a.asname or a.name] = a.name
            elif isinstance(node, ast.Import):
                for a in node.names:
                    MODULE_ALIASES.setdefault(mod, {})[a.asname or a.name.split(".")[-1]] = a.name.split(".")[-1]

        def visit(body, prefix, cls):
            for n in body:
                if isinstance(n, (ast.FunctionDef, ast.AsyncFunctionDef)):
                    q = f"{mod}:{prefix}{n.name}"
                    fns[q] = FnInfo(q, n, cls, mod)
                    by_name.setdefault(n.name, []).append(q)
                    visit(n.body, prefix + n.name + ".", cls)
                elif isinstance(n, ast.ClassDef):
                    visit(n.body, prefix + n.name + ".", n.name)
                elif isinstance(n, (ast.If, ast.Try, ast.With, ast.For, ast.While)):
                    for fld in ("body", "orelse", "finalbody"):
                        visit(getattr(n, fld, []) or [], prefix, cls)
                    for h in getattr(n, "handlers", []) or []:
                        visit(h.body, prefix, cls)
        visit(tree.body, "", None)
    return fns, by_name


class Interp:
    def __init__(self, fn: FnInfo, fns, by_name):
        self.fn, self.fns, self.by_name = fn, fns, by_name
        self.env: dict = {p: frozenset([(p, "o")]) for p in fn.params}

    # ------------------------------------------------------------------ effects
    def write(self, al, node, mode, store=True):
        """record a write through the aliases `al`; store=True: a subscript/attribute store or method (kinds o v e), False: `name op= ..` (o v)"""
        for r, k in al:
            if k in ("h", "hh"):
                continue
            if mode == "obj" and k not in ("o",):
                continue
            if not store and k == "e":
                continue
            key = (r, "d" if k == "e" else "s", mode)
            self.fn.writes.setdefault(key, [])
            if node.lineno not in self.fn.writes[key]:
                self.fn.writes[key].append(node.lineno)

    # ------------------------------------------------------------------ resolution of callees
    def resolve(self, f):
        if isinstance(f, ast.Name):
            if ("@fn:" + f.id) in self.env:
                return self.env["@fn:" + f.id]
            if f.id in self.env and f.id not in self.by_name:
                return None
            cands = self.by_name.get(f.id, [])
            cands = [c for c in cands if not self.fns[c].is_method]
        elif isinstance(f, ast.Attribute):
            if f.attr == "py_func":
                return self.resolve(f.value)
            base = f.value
            if isinstance(base, ast.Name) and base.id in LIBS:
                return None
            cands = self.by_name.get(f.attr, [])
            if isinstance(base, ast.Name) and base.id in ("self", "cls") and self.fn.cls:
                mine = [c for c in cands if f".{self.fn.cls}." in c.replace(":", ".")]
                cands = mine or [c for c in cands if self.fns[c].cls is not None]
            elif isinstance(base, ast.Name) and base.id not in self.env:
                # module alias (numba_funcs.x, util.x) or class (GroupBy.x)
                pass
            else:
                # a method of some value: resolve only library-specific method names
                if f.attr in FRESH_METHODS | VIEW_METHODS | BUF_MUTATORS | OBJ_MUTATORS | {"sort", "astype", "view"}:
                    return None
                cands = [c for c in cands if self.fns[c].cls is not None]
        else:
            return None
        same = [c for c in cands if self.fns[c].module == self.fn.module]
        cands = same or cands
        return cands[0] if cands else None

    # ------------------------------------------------------------------ expressions
    def roots(self, e) -> frozenset:
        if e is None:
            return E
        if isinstance(e, ast.Name):
            return self.env.get(e.id, E)
        if isinstance(e, ast.Attribute):
            if isinstance(e.value, ast.Name) and e.value.id == "self":
                key = "self." + e.attr
                return self.env.get(key, frozenset([(key, "o")]))
            r = self.roots(e.value)
            return rekind(r, SHARED if e.attr in SHARED_ATTRS else VIEW)
        if isinstance(e, ast.Subscript):
            self.roots(e.slice)
            r = self.roots(e.value)
            simple = not any(isinstance(n, (ast.Slice,)) or (isinstance(n, ast.Constant) and n.value in (None, Ellipsis)) for n in ast.walk(e.slice))
            if simple:
                return rekind(r, ELEM)
            return rekind(r, VIEW)
        if isinstance(e, ast.Starred):
            return self.roots(e.value)
        if isinstance(e, (ast.Tuple, ast.List, ast.Set)):
            out = E
            for x in e.elts:
                out |= rekind(self.roots(x), HOLD)
            return out
        if isinstance(e, ast.Dict):
            out = E
            for x in list(e.values) + [k for k in e.keys if k is not None]:
                out |= rekind(self.roots(x), HOLD)
            return out
        if isinstance(e, ast.IfExp):
            self.roots(e.test)
            return self.roots(e.body) | self.roots(e.orelse)
        if isinstance(e, ast.BoolOp):
            out = E
            for x in e.values:
                out |= self.roots(x)
            return out
        if isinstance(e, (ast.BinOp, ast.Compare, ast.UnaryOp, ast.Constant, ast.JoinedStr, ast.FormattedValue)):
            for sub in ast.iter_child_nodes(e):
                if isinstance(sub, ast.expr):
                    self.roots(sub)
            return E
        if isinstance(e, ast.Lambda):
            return E
        if isinstance(e, ast.NamedExpr):
            r = self.roots(e.value)
            self.assign(e.target, r)
            return r
        if isinstance(e, (ast.ListComp, ast.SetComp, ast.GeneratorExp, ast.DictComp)):
            saved = dict(self.env)
            for g in e.generators:
                self.assign(g.target, rekind(self.roots(g.iter), ELEM))
                for c in g.ifs:
                    self.roots(c)
            r = (self.roots(e.value) | self.roots(e.key)) if isinstance(e, ast.DictComp) else self.roots(e.elt)
            self.env = saved
            return rekind(r, HOLD)
        if isinstance(e, ast.Call):
            return self.call(e)
        if isinstance(e, ast.Slice):
            for sub in (e.lower, e.upper, e.step):
                self.roots(sub)
            return E
        if isinstance(e, ast.Await):
            return self.roots(e.value)
        return E

    def bind(self, callee: FnInfo, e: ast.Call, arg_roots, kw_roots, recv):
        binding: dict[str, set] = {}
        pos = list(callee.positional)
        if callee.is_method and isinstance(e.func, ast.Attribute):
            binding[pos[0]] = set(recv)
            pos = pos[1:]
        for i, a in enumerate(e.args):
            r = arg_roots[i]
            if isinstance(a, ast.Starred):
                rr = rekind(r, ELEM)
                for p in pos[i:]:
                    binding.setdefault(p, set()).update(rr)
                if callee.vararg:
                    binding.setdefault(callee.vararg, set()).update(rekind(rr, HOLD))
            elif i < len(pos):
                binding.setdefault(pos[i], set()).update(r)
            elif callee.vararg:
                binding.setdefault(callee.vararg, set()).update(rekind(r, HOLD))
        for k in e.keywords:
            r = kw_roots[k.arg]
            if k.arg is None:
                known = self.env.get("@kw:" + k.value.id) if isinstance(k.value, ast.Name) else None
                if isinstance(k.value, ast.Call) and isinstance(k.value.func, ast.Name) and k.value.func.id == "locals" and not k.value.args:
                    # f(**locals()): every local variable by name
                    known = {nm: al for nm, al in self.env.items() if not nm.startswith("@") and not nm.startswith("self.")}
                if known is not None:
                    for key, al in known.items():
                        if key in callee.params:
                            binding.setdefault(key, set()).update(al)
                        elif callee.kwarg:
                            binding.setdefault(callee.kwarg, set()).update(rekind(al, HOLD))
                    continue
                rr = rekind(r, ELEM)
                for p in callee.params:
                    if p not in ("self", "cls"):
                        binding.setdefault(p, set()).update(rr)
            elif k.arg in callee.params:
                binding.setdefault(k.arg, set()).update(r)
            elif callee.kwarg:
                binding.setdefault(callee.kwarg, set()).update(rekind(r, HOLD))
        return binding

    def result_of(self, callee: FnInfo, binding):
        out = set()
        for p, rk in callee.returns:
            if p.startswith("self.") and p not in binding:
                if callee.cls == self.fn.cls:
                    out.add((p, rk))
                continue
            for r, ak in binding.get(p, ()):
                out.add((r, compose(ak, rk)))
        return frozenset(out)

    def call(self, e: ast.Call) -> frozenset:
        f = e.func
        arg_roots = [self.roots(a) for a in e.args]
        kw_roots = {k.arg: self.roots(k.value) for k in e.keywords}
        allr = E.union(*arg_roots, *kw_roots.values()) if (arg_roots or kw_roots) else E
        fname = f.attr if isinstance(f, ast.Attribute) else (f.id if isinstance(f, ast.Name) else None)
        recv = self.roots(f.value) if isinstance(f, ast.Attribute) else E
        lib_call = isinstance(f, ast.Attribute) and isinstance(f.value, ast.Name) and f.value.id in LIBS
        # ---- in-place effects of third-party calls ----
        if kw_roots.get("out"):
            self.write(kw_roots["out"], e, "buf")
        if lib_call and fname in NP_INPLACE and arg_roots:
            self.write(arg_roots[NP_INPLACE[fname]], e, "buf")
        if isinstance(f, ast.Attribute) and f.attr == "at" and isinstance(f.value, ast.Attribute) and arg_roots:   # np.add.at(x, ..)
            self.write(arg_roots[0], e, "buf")
        if isinstance(f, ast.Attribute) and f.attr == "shuffle" and arg_roots:                                      # np.random.shuffle(x), rng.shuffle(x)
            self.write(arg_roots[0], e, "buf")
        if lib_call and fname in ("nan_to_num",) and arg_roots and any(
                k.arg == "copy" and isinstance(k.value, ast.Constant) and k.value.value is False for k in e.keywords):
            self.write(arg_roots[0], e, "buf")                                                                       # np.nan_to_num(x, copy=False)
        for k in e.keywords:
            if k.arg == "inplace" and not (isinstance(k.value, ast.Constant) and k.value.value is False):
                self.write(recv, e, "obj")
        if isinstance(f, ast.Attribute) and not lib_call:
            if fname in BUF_MUTATORS:
                self.write(recv, e, "buf")
            if fname == "sort" and not e.args:       # ndarray.sort() / list.sort(): in place
                self.write(recv, e, "buf")
            if fname in OBJ_MUTATORS:
                self.write(recv, e, "obj")
        if isinstance(f, ast.Attribute) and fname in ("bind", "bind_partial"):
            return rekind(allr, HOLD)          # inspect.Signature.bind: a container of the arguments
        if isinstance(f, ast.Attribute) and isinstance(f.value, ast.Name) and fname in ("append", "extend", "add", "insert", "update", "setdefault") \
                and f.value.id in self.env and not kinds(self.env[f.value.id], ("o", "v", "e")):
            # growing a locally created container: it now holds the arguments as well
            self.env[f.value.id] = self.env[f.value.id] | rekind(allr, HOLD)
        # ---- dispatch through getattr(module, name) ----
        fnset = self.fnset_of(f)
        if fnset:
            out = set()
            for tgt in fnset:
                callee = self.fns[tgt]
                pos = callee.positional[1:] if callee.is_method else callee.positional
                binding = {p: set(rekind(allr, VIEW)) for p in pos + [x for x in callee.params if x not in pos]}
                self.fn.calls.append((tgt, binding, e.lineno))
                out |= self.result_of(callee, binding)
            return frozenset(out)
        # ---- library functions ----
        if fname == "parallel_map" and len(e.args) >= 2:
            return self.parallel_map(e, arg_roots)
        target = self.resolve(f)
        if target is not None:
            callee = self.fns[target]
            binding = self.bind(callee, e, arg_roots, kw_roots, recv)
            self.fn.calls.append((target, binding, e.lineno))
            return self.result_of(callee, binding)
        # ---- third-party / builtin / unknown ----
        if isinstance(f, ast.Attribute):
            if fname == "astype":
                for k in e.keywords:
                    if k.arg == "copy" and not (isinstance(k.value, ast.Constant) and k.value.value is True):
                        return rekind(recv, VIEW)
                return E
            if lib_call or (isinstance(f.value, ast.Attribute) and isinstance(f.value.value, ast.Name) and f.value.value.id in LIBS):
                if fname in ALIAS_FUNCS:
                    return rekind(allr, VIEW)
                if fname in MAYBE_COPY_FUNCS:
                    base = f.value.id if isinstance(f.value, ast.Name) else ""
                    if base in ("pa", "pl") or any(k.arg == "copy" for k in e.keywords):
                        return rekind(allr, VIEW)
                    return E
                return E
            if fname in FRESH_METHODS:
                return E
            if fname in VIEW_METHODS:
                return rekind(recv, VIEW)
            if fname in ALIAS_FUNCS:
                return rekind(allr | recv, VIEW)
            return rekind(recv | allr, VIEW)
        if isinstance(f, ast.Name):
            if f.id in PURE_BUILTINS:
                return E
            if f.id in CONTAINER_BUILTINS:
                # list(x): a new container with the same elements
                if f.id in ("list", "tuple", "dict", "sorted", "set", "frozenset", "reversed", "filter") and len(e.args) == 1 and not e.keywords:
                    # a new container with the same elements: holds what the argument held / the elements of an array
                    return frozenset((r, {"o": "h", "v": "h", "e": "h", "h": "h", "hh": "hh"}[k]) for r, k in allr)
                if f.id == "dict":
                    return rekind(allr, HOLD)
                # zip / enumerate / map: tuples of elements of the arguments
                return frozenset((r, {"o": "hh", "v": "hh", "e": "hh", "h": "hh", "hh": "hh"}[k]) for r, k in allr)
            if f.id in ("getattr",):
                return rekind(allr, VIEW)
            if f.id in ("next", "iter"):
                return rekind(allr, ELEM)
            if f.id in ("cast",):
                return arg_roots[-1] if arg_roots else E
            return rekind(allr, VIEW)
        return rekind(allr, VIEW)

    def fnset_of(self, node):
        if isinstance(node, ast.Name):
            return self.env.get("@fnset:" + node.id) or ()
        return ()

    def getattr_candidates(self, call):
        """getattr(<module alias>, <name expr>): all top-level functions of that module (filtered by a constant f-string prefix)"""
        if not (isinstance(call, ast.Call) and isinstance(call.func, ast.Name) and call.func.id == "getattr" and len(call.args) >= 2):
            return ()
        base = call.args[0]
        if not isinstance(base, ast.Name) or base.id in self.env:
            return ()
        target_mod = MODULE_ALIASES.get(self.fn.module, {}).get(base.id)
        if target_mod is None:
            return ()
        prefix = ""
        nm = call.args[1]
        if isinstance(nm, ast.JoinedStr) and nm.values and isinstance(nm.values[0], ast.Constant):
            prefix = str(nm.values[0].value)
        elif isinstance(nm, ast.Constant):
            prefix = str(nm.value)
        out = []
        for q, fn in self.fns.items():
            mod, name = q.split(":")
            # (dispatch by name is taken to reach the module's public functions only)
            if mod.split(".")[-1] == target_mod and "." not in name and name.startswith(prefix) and not name.startswith("_"):
                out.append(q)
        return tuple(out)

    def parallel_map(self, e, arg_roots):
        func_node = e.args[0]
        fnset = self.fnset_of(func_node)
        if fnset:
            generic = rekind(rekind(arg_roots[1], ELEM), ELEM) | rekind(arg_roots[1], ELEM)
            out = set()
            for tgt in fnset:
                callee = self.fns[tgt]
                pos = callee.positional[1:] if callee.is_method else callee.positional
                binding = {p: set(generic) for p in pos}
                self.fn.calls.append((tgt, binding, e.lineno))
                out |= rekind(self.result_of(callee, binding), HOLD)
            return frozenset(out)
        bag = self.bundle_of(e.args[1])
        generic = rekind(arg_roots[1], ELEM)           # an argument tuple drawn from the list
        generic = rekind(generic, ELEM)                # ... and one element of that tuple
        if isinstance(func_node, ast.Lambda):
            saved = dict(self.env)
            for i, a in enumerate(func_node.args.args):
                self.env[a.arg] = bag.get(i, generic) if bag else generic
            r = self.roots(func_node.body)
            self.env = saved
            return rekind(r, HOLD)
        tgt = self.resolve(func_node)
        if tgt is None and isinstance(func_node, ast.Name):
            # a local alias of a library function (func = a if cond else b): look at what was assigned
            tgt = self.env.get("@fn:" + func_node.id)
        if tgt is not None:
            callee = self.fns[tgt]
            pos = callee.positional[1:] if callee.is_method else callee.positional
            binding = {p: set(bag.get(i, generic) if bag else generic) for i, p in enumerate(pos)}
            self.fn.calls.append((tgt, binding, e.lineno))
            return rekind(self.result_of(callee, binding), HOLD)
        return rekind(generic, HOLD)

    def kwdict_of(self, node):
        """dict(a=x, b=y) / {"a": x}: per-key aliases, for a later f(**d)"""
        if isinstance(node, ast.Call) and isinstance(node.func, ast.Name) and node.func.id == "dict" and not node.args:
            out = {}
            for k in node.keywords:
                if k.arg is None:
                    inner = self.env.get("@kw:" + k.value.id) if isinstance(k.value, ast.Name) else None
                    if inner is None:
                        return None
                    out.update(inner)
                else:
                    out[k.arg] = self.roots(k.value)
            return out
        if isinstance(node, ast.Dict) and all(isinstance(k, ast.Constant) and isinstance(k.value, str) for k in node.keys):
            return {k.value: self.roots(v) for k, v in zip(node.keys, node.values)}
        return None

    def bundle_of(self, node):
        """argument lists built literally for parallel_map keep per-position aliases"""
        if isinstance(node, ast.Name) and ("@bundle:" + node.id) in self.env:
            return self.env["@bundle:" + node.id]
        if isinstance(node, ast.Call) and isinstance(node.func, ast.Name) and node.func.id == "list" and node.args:
            return self.bundle_of(node.args[0])
        if isinstance(node, ast.Call) and isinstance(node.func, ast.Name) and node.func.id == "zip":
            return {i: rekind(self.roots(a), ELEM) for i, a in enumerate(node.args)}
        if isinstance(node, (ast.ListComp, ast.GeneratorExp)) and isinstance(node.elt, ast.Tuple):
            saved = dict(self.env)
            for g in node.generators:
                self.assign(g.target, rekind(self.roots(g.iter), ELEM))
            b = {i: self.roots(x) for i, x in enumerate(node.elt.elts)}
            self.env = saved
            return b
        if isinstance(node, ast.List) and node.elts and all(isinstance(x, ast.Tuple) for x in node.elts):
            b = {}
            for x in node.elts:
                for i, y in enumerate(x.elts):
                    b[i] = b.get(i, E) | self.roots(y)
            return b
        return {}

    # ------------------------------------------------------------------ statements
    def store_base(self, target):
        """aliases of the object a subscript / attribute store goes into"""
        return self.roots(target.value)

    def assign(self, target, r: frozenset, value_node=None):
        if isinstance(target, ast.Name):
            self.env[target.id] = r
            self.env.pop("@bundle:" + target.id, None)
            self.env.pop("@fn:" + target.id, None)
            self.env.pop("@kw:" + target.id, None)
            self.env.pop("@fnset:" + target.id, None)
            if value_node is not None:
                cands = self.getattr_candidates(value_node)
                if cands:
                    self.env["@fnset:" + target.id] = cands
                kd = self.kwdict_of(value_node)
                if kd is not None:
                    self.env["@kw:" + target.id] = kd
                b = self.bundle_of(value_node)
                if b:
                    self.env["@bundle:" + target.id] = b
                for cand in ([value_node.body, value_node.orelse] if isinstance(value_node, ast.IfExp) else [value_node]):
                    if isinstance(cand, (ast.Name, ast.Attribute)):
                        t = self.resolve(cand)
                        if t is not None:
                            self.env["@fn:" + target.id] = t
        elif isinstance(target, (ast.Tuple, ast.List)):
            if value_node is not None and isinstance(value_node, (ast.Tuple, ast.List)) and len(value_node.elts) == len(target.elts):
                for t, v in zip(target.elts, value_node.elts):
                    self.assign(t, self.roots(v), v)
            else:
                for t in target.elts:
                    self.assign(t.value if isinstance(t, ast.Starred) else t, rekind(r, ELEM))
        elif isinstance(target, ast.Attribute) and isinstance(target.value, ast.Name) and target.value.id == "self":
            key = "self." + target.attr
            self.env[key] = r | frozenset([(key, "o")])
            self.fn.stores.setdefault(key, set()).update(r)
        elif isinstance(target, ast.Subscript):
            self.roots(target.slice)
            if isinstance(target.value, ast.Name) and ("@kw:" + target.value.id) in self.env and isinstance(target.slice, ast.Constant):
                self.env["@kw:" + target.value.id] = {**self.env["@kw:" + target.value.id], target.slice.value: r}
            if isinstance(target.value, ast.Name) and target.value.id in self.env and not kinds(self.env[target.value.id], ("o", "v", "e")):
                # a store into a fresh container: it now also holds r
                self.env[target.value.id] = self.env[target.value.id] | rekind(r, HOLD)
            self.write(self.store_base(target), target, "buf")
        elif isinstance(target, ast.Attribute):
            self.write(self.store_base(target), target, "obj")
        elif isinstance(target, ast.Starred):
            self.assign(target.value, r)

    @staticmethod
    def join(a: dict, b: dict) -> dict:
        out = {}
        for k in set(a) | set(b):
            va, vb = a.get(k), b.get(k)
            if k.startswith("@fnset:"):
                out[k] = tuple(sorted(set(va or ()) | set(vb or ())))
                continue
            if k.startswith("@fn:"):
                if va == vb:
                    out[k] = va
                continue
            if k.startswith("@kw:"):
                if va is not None and vb is not None:
                    out[k] = {i: va.get(i, E) | vb.get(i, E) for i in set(va) | set(vb)}
                continue
            if isinstance(va, dict) or isinstance(vb, dict):
                va, vb = va or {}, vb or {}
                out[k] = {i: va.get(i, E) | vb.get(i, E) for i in set(va) | set(vb)}
            else:
                out[k] = (va or E) | (vb or E)
        return out

    def block(self, stmts):
        for s in stmts:
            self.stmt(s)

    def stmt(self, s):
        if isinstance(s, ast.Assign):
            r = self.roots(s.value)
            for t in s.targets:
                self.assign(t, r, s.value)
        elif isinstance(s, ast.AnnAssign):
            if s.value is not None:
                self.assign(s.target, self.roots(s.value), s.value)
        elif isinstance(s, ast.AugAssign):
            self.roots(s.value)
            if isinstance(s.target, ast.Name):
                self.write(self.env.get(s.target.id, E), s, "buf", store=False)
            elif isinstance(s.target, ast.Subscript):
                self.write(self.store_base(s.target), s, "buf")
            elif isinstance(s.target, ast.Attribute):
                if isinstance(s.target.value, ast.Name) and s.target.value.id == "self":
                    self.write(self.roots(s.target), s, "buf", store=False)
                else:
                    self.write(self.store_base(s.target), s, "obj")
        elif isinstance(s, ast.Expr):
            self.roots(s.value)
        elif isinstance(s, ast.Return):
            self.fn.returns |= set(self.roots(s.value))
        elif isinstance(s, ast.If):
            self.roots(s.test)
            saved = dict(self.env)
            self.block(s.body)
            after = self.env
            self.env = dict(saved)
            self.block(s.orelse)
            self.env = self.join(after, self.env)
        elif isinstance(s, (ast.For, ast.AsyncFor)):
            it = self.roots(s.iter)
            for _ in range(3):
                before = dict(self.env)
                self.assign(s.target, rekind(it, ELEM))
                self.block(s.body)
                self.env = self.join(before, self.env)
            self.block(s.orelse)
        elif isinstance(s, ast.While):
            for _ in range(3):
                before = dict(self.env)
                self.roots(s.test)
                self.block(s.body)
                self.env = self.join(before, self.env)
            self.block(s.orelse)
        elif isinstance(s, (ast.With, ast.AsyncWith)):
            for item in s.items:
                r = self.roots(item.context_expr)
                if item.optional_vars is not None:
                    self.assign(item.optional_vars, r)
            self.block(s.body)
        elif isinstance(s, ast.Try):
            saved = dict(self.env)
            self.block(s.body)
            envs = [self.env]
            for h in s.handlers:
                self.env = self.join(saved, envs[0])
                self.block(h.body)
                envs.append(self.env)
            self.env = envs[0]
            for e2 in envs[1:]:
                self.env = self.join(self.env, e2)
            self.block(s.orelse)
            self.block(s.finalbody)
        elif isinstance(s, ast.Delete):
            for t in s.targets:
                if isinstance(t, ast.Subscript):
                    self.write(self.store_base(t), t, "obj")
        elif isinstance(s, (ast.Raise, ast.Assert)):
            for sub in ast.iter_child_nodes(s):
                if isinstance(sub, ast.expr):
                    self.roots(sub)
        elif isinstance(s, ast.Match):
            for c in s.cases:
                self.block(c.body)

    def run(self):
        def snap():
            return (sorted((k, tuple(v)) for k, v in self.fn.writes.items()), sorted(self.fn.returns),
                    sorted((c, sorted((p, sorted(a)) for p, a in b.items())) for c, b, _ in self.fn.calls))
        old = snap()
        self.fn.calls = []
        self.block(self.fn.node.body)
        return old != snap()


def analyse(pkg: Path = PKG):
    fns, by_name = collect(pkg)
    for _ in range(8):
        changed = False
        for fn in fns.values():
            if Interp(fn, fns, by_name).run():
                changed = True
        if not changed:
            break
    return fns


def propagate(fns):
    """interprocedural closure (the certificate later re-checked in Lean): W[f] = local writes + writes of callees mapped through the bindings"""
    W = {q: {k: ("local", tuple(v)) for k, v in fn.writes.items()} for q, fn in fns.items()}
    changed = True
    while changed:
        changed = False
        for q, fn in fns.items():
            for callee, binding, line in fn.calls:
                for (p, depth, mode) in list(W[callee]):
                    for r, ak in binding.get(p, ()):
                        w = push(r, ak, depth, mode)
                        if w is not None and w not in W[q]:
                            W[q][w] = ("call", callee, line, (p, depth, mode))
                            changed = True
    return W


def push(root, arg_kind, depth, mode):
    """a callee write (depth, mode) on a parameter bound to an (root, arg_kind) alias, seen from the caller"""
    if arg_kind == "hh":
        return None                        # two container levels away: out of reach of a depth-1 write
    if arg_kind == "h":
        if depth == "d":
            return (root, "s", mode)       # an element of the fresh container is the alias itself
        return None
    if mode == "obj" and arg_kind != "o":
        return None                        # the callee mutates an object the caller created (a view object), not the root object
    if arg_kind == "e":
        return (root, "d", mode)
    return (root, depth, mode)


def main():
    pkg = PKG
    if "--pkg" in sys.argv:
        i = sys.argv.index("--pkg")
        pkg = Path(sys.argv[i + 1])
        del sys.argv[i:i + 2]
    fns = analyse(pkg)
    if len(sys.argv) > 2 and sys.argv[1] == "--lean":
        from effects_lean import emit
        emit(fns, propagate(fns), Path(sys.argv[2]))
        return
    W = propagate(fns)
    for q in fns:
        if W[q]:
            print(q)
            for w, why in sorted(W[q].items()):
                print("     ", w, why[0], why[1:] if why[0] == "call" else why[1])


if __name__ == "__main__":
    main()
