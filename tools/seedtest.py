#!/usr/bin/env python3
"""Confirm a seeded breaking change and run checks against it.

usage: seedtest.py <seed_dir with patch.diff demo.py meta.json> <check id> [<check id> ...]

1. in a scratch worktree of /repo HEAD: demo passes without the patch, fails with it;
2. apply the patch to /repo, run the given checks (quick tier), undo the patch;
prints a JSON summary (also appended to <seed_dir>/result.json).
"""
import json
import os
import subprocess
import sys
import tempfile
from pathlib import Path

VERIF = Path(__file__).resolve().parent.parent


def sh(cmd, **kw):
    p = subprocess.run(cmd, shell=True, capture_output=True, text=True, **kw)
    return p.returncode, (p.stdout + p.stderr)


def main():
    seed = Path(sys.argv[1]).resolve()
    checks = sys.argv[2:]
    patch = seed / "patch.diff"
    demo = seed / "demo.py"
    out = {"seed": str(seed), "checks": {}}
    wt = tempfile.mkdtemp(prefix="seedwt_", dir="/tmp")
    os.rmdir(wt)
    rc, o = sh(f"git -C /repo worktree add -f {wt} HEAD -q")
    try:
        env = f"cd {wt} && PYTHONPATH={wt} NUMBA_CACHE_DIR={wt}/.nbcache /venv/bin/python -W ignore {demo}"
        rc0, o0 = sh(env)
        rc1, o1 = sh(f"git -C {wt} apply {patch}")
        out["patch_applies"] = rc1 == 0
        rc2, o2 = sh(env)
        out["demo_clean_exit"] = rc0
        out["demo_patched_exit"] = rc2
        out["demo_patched_tail"] = o2.strip().split("\n")[-3:]
    finally:
        sh(f"git -C /repo worktree remove --force {wt}")
        sh("git -C /repo worktree prune")
    out["confirmed"] = out.get("patch_applies") and out["demo_clean_exit"] == 0 and out["demo_patched_exit"] != 0
    if checks and out["confirmed"]:
        rc, o = sh("git -C /repo status --porcelain")
        if o.strip():
            print("refusing: /repo has uncommitted changes:\n" + o)
            return 2
        rc, o = sh(f"git -C /repo apply {patch}")
        try:
            for c in checks:
                rc, o = sh(f"cd {VERIF} && ./check {c} --tier quick", timeout=3600)
                lines = [l for l in o.split("\n") if l.startswith("VIOLATION") or l.startswith("[" + c)]
                out["checks"][c] = {"exit": rc, "lines": lines[-3:]}
        finally:
            sh("git -C /repo checkout -- .")
    print(json.dumps(out, indent=1))
    (seed / "result.json").write_text(json.dumps(out, indent=1))
    return 0


if __name__ == "__main__":
    sys.exit(main())
