#!/usr/bin/env python3
"""print the violations of the newest replay file of a property, one short block each"""
import glob, json, os, sys
pid = sys.argv[1]
fs = sorted(glob.glob(f'/verif/replays/{pid}-violation-*.json'), key=os.path.getmtime)
d = json.load(open(fs[-1]))
vs = [d['violation']] + d.get('more', [])
keys = sys.argv[2].split(',') if len(sys.argv) > 2 else None
for v in vs:
    c = v['case']
    print({k: c[k] for k in (keys or list(c)) if k in c and k not in ('noise',)} if keys else str(c)[:600])
    print('   exp:', str(v.get('expected'))[:300])
    print('   act:', str(v.get('actual'))[:300], '|', str(v.get('note', ''))[:80], '|', str(v.get('arrangement', ''))[:200])
