import GroupbyVerif.Model.Val
import GroupbyVerif.Model.Scalar
import GroupbyVerif.Model.Arr
import GroupbyVerif.Model.Kernels
import GroupbyVerif.Bridge
