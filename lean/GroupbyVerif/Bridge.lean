import GroupbyVerif.Model.Scalar
import GroupbyVerif.Generated.ScalarFuncs
import GroupbyVerif.Generated.Constants

/-!
# Bridge: the definitions regenerated from /repo's current source equal the hand-written model

Re-checked on every run.  A source edit that changes a reducer's behaviour breaks the
corresponding theorem here (a *named obligation*); an edit that only re-arranges the code
is absorbed by the case-splitting proof.
-/

namespace GV.Bridge
open GV

/-- closes `generated = model` goals for if/let trees over `Val`, `Int` counts and `isNull` -/
macro "bridge_tac" : tactic =>
  `(tactic| (first
    | rfl
    | (funext k a b c
       cases a <;> cases b <;>
       simp only [Generated.ScalarFuncs.sum, Generated.ScalarFuncs.nansum, Generated.ScalarFuncs.nansum_squares,
         Generated.ScalarFuncs.max, Generated.ScalarFuncs.nanmax, Generated.ScalarFuncs.min,
         Generated.ScalarFuncs.nanmin, Generated.ScalarFuncs.nancount, Generated.ScalarFuncs.count,
         Generated.ScalarFuncs.first, Generated.ScalarFuncs.last,
         Scalar.sum, Scalar.nansum, Scalar.nansum_squares, Scalar.max, Scalar.nanmax, Scalar.min, Scalar.nanmin,
         Scalar.nancount, Scalar.count, Scalar.first, Scalar.last, nanR, vmaxC, vminC, vfirstC, vaddSq, id] <;>
       (repeat' split) <;> simp_all)))

theorem sum : Generated.ScalarFuncs.sum = Scalar.sum := by bridge_tac
theorem nansum : Generated.ScalarFuncs.nansum = Scalar.nansum := by bridge_tac
theorem nansum_squares : Generated.ScalarFuncs.nansum_squares = Scalar.nansum_squares := by bridge_tac
theorem max : Generated.ScalarFuncs.max = Scalar.max := by bridge_tac
theorem nanmax : Generated.ScalarFuncs.nanmax = Scalar.nanmax := by bridge_tac
theorem min : Generated.ScalarFuncs.min = Scalar.min := by bridge_tac
theorem nanmin : Generated.ScalarFuncs.nanmin = Scalar.nanmin := by bridge_tac
theorem nancount : Generated.ScalarFuncs.nancount = Scalar.nancount := by bridge_tac
theorem count : Generated.ScalarFuncs.count = Scalar.count := by bridge_tac
theorem first : Generated.ScalarFuncs.first = Scalar.first := by bridge_tac
theorem last : Generated.ScalarFuncs.last = Scalar.last := by bridge_tac

macro "bridge_tac2" : tactic =>
  `(tactic| (first
    | rfl
    | (funext k a b
       cases a <;> cases b <;>
       simp only [Generated.ReductionOps.count, Generated.ReductionOps.min, Generated.ReductionOps.max,
         Generated.ReductionOps.sum, Generated.ReductionOps.first, Generated.ReductionOps.first_skipna,
         Generated.ReductionOps.last, Generated.ReductionOps.last_skipna, Generated.ReductionOps.sum_square,
         ROps.count, ROps.min, ROps.max, ROps.sum, ROps.first, ROps.first_skipna, ROps.last, ROps.last_skipna,
         ROps.sum_square] <;>
       (repeat' split) <;> simp_all)))

theorem rop_count : Generated.ReductionOps.count = ROps.count := by bridge_tac2
theorem rop_min : Generated.ReductionOps.min = ROps.min := by bridge_tac2
theorem rop_max : Generated.ReductionOps.max = ROps.max := by bridge_tac2
theorem rop_sum : Generated.ReductionOps.sum = ROps.sum := by bridge_tac2
theorem rop_first : Generated.ReductionOps.first = ROps.first := by bridge_tac2
theorem rop_first_skipna : Generated.ReductionOps.first_skipna = ROps.first_skipna := by bridge_tac2
theorem rop_last : Generated.ReductionOps.last = ROps.last := by bridge_tac2
theorem rop_last_skipna : Generated.ReductionOps.last_skipna = ROps.last_skipna := by bridge_tac2
theorem rop_sum_square : Generated.ReductionOps.sum_square = ROps.sum_square := by bridge_tac2

end GV.Bridge
