import GroupbyVerif.Props.C04
import GroupbyVerif.Props.C08
import GroupbyVerif.Generated.Dtypes

/-!
# C12 — Same data in any supported container or dtype gives the same answer

* `same_answer_any_layout`: the kernel result does not depend on how the values are laid out
  (contiguous / arrow chunks with arbitrary boundaries) nor on the number of threads.
* `selection_is_element` / `reduction_selection_is_element` / `cum_selection_is_element`: min, max, first,
  last (and cummin / cummax) return the dtype's null or **an element of the group's input values** - no
  arithmetic touches them, which is why integer widths, booleans and the int64 views of temporal values survive.
* `wsum_eq` / `int_sum_exact`: a sum accumulated with wrapping 64-bit additions (what the compiled loops
  do) equals the exact integer sum whenever that sum fits in 64 bits - whatever the input width, the order of
  the rows and the intermediate overflows; merging thread partials keeps that (`wsum_append`).
* `accumulator_table`: the accumulator dtype table extracted from `_build_target_for_groupby`: selection
  operations accumulate in the input dtype starting from its null; integer / boolean sums accumulate in
  (u)int64; counts are collected separately.
-/

namespace GV.C12
open GV GV.C04 GV.C08

/-! ## layout independence -/

theorem same_answer_any_layout (kn : Kernel) (k : Kind) (hk : k.Supported) (rows : List Row) (mask : Mask)
    (t1 t2 : Nat) (l1 l2 : Option (List Nat)) (p1 p2 : Int → Partial)
    (hwf : ∀ r ∈ rows, WF k r.2) (hm : ∀ m, mask = .bool m → m.length = rows.length)
    (h1 : groupKernel modelReducers kn k rows mask t1 l1 = some p1)
    (h2 : groupKernel modelReducers kn k rows mask t2 l2 = some p2) (g : Int) (hg : 0 ≤ g) :
    p1 g = p2 g := by
  obtain ⟨s1, hs1, e1⟩ := groupKernel_eq_def kn k hk rows mask t1 l1 p1 hwf hm h1 g hg
  obtain ⟨s2, hs2, e2⟩ := groupKernel_eq_def kn k hk rows mask t2 l2 p2 hwf hm h2 g hg
  rw [hs1] at hs2
  cases hs2
  rw [e1, e2]

/-! ## selection-type results are elements of the input -/

theorem foldl_sel_mem (comb : Val → Val → Val) (hsel : ∀ a b, comb a b = a ∨ comb a b = b) (xs : List Val) (a : Val) :
    xs.foldl comb a = a ∨ xs.foldl comb a ∈ xs := by
  induction xs generalizing a with
  | nil => left; rfl
  | cons x xs ih =>
    simp only [List.foldl_cons]
    rcases ih (comb a x) with h | h
    · rcases hsel a x with h2 | h2
      · left; rw [h, h2]
      · right; rw [h, h2]; exact List.mem_cons_self ..
    · right; exact List.mem_cons_of_mem _ h

theorem vmaxC_sel (a b : Val) : vmaxC a b = a ∨ vmaxC a b = b := by
  unfold vmaxC; split <;> simp

theorem vminC_sel (a b : Val) : vminC a b = a ∨ vminC a b = b := by
  unfold vminC; split <;> simp

theorem accOf_sel_mem (comb : Val → Val → Val) (hsel : ∀ a b, comb a b = a ∨ comb a b = b) (init : Val) (xs : List Val) :
    accOf comb id init xs = init ∨ accOf comb id init xs ∈ xs := by
  cases xs with
  | nil => left; rfl
  | cons x xs =>
    right
    simp only [accOf, id]
    rcases foldl_sel_mem comb hsel xs x with h | h
    · rw [h]; exact List.mem_cons_self ..
    · exact List.mem_cons_of_mem _ h

def Kernel.isSelection : Kernel → Bool
  | .min | .max | .first | .last => true
  | _ => false

/-- min / max / first / last of a group's values: the dtype's null, or one of the values -/
theorem selection_is_element (kn : Kernel) (hs : Kernel.isSelection kn = true) (k : Kind) (vs : List Val) :
    (specKernel kn k vs).1 = nullValue k ∨ (specKernel kn k vs).1 ∈ vs := by
  have hsub : ∀ v, v ∈ nonNull k vs → v ∈ vs := fun v hv => (List.mem_filter.mp hv).1
  cases kn <;> simp [Kernel.isSelection] at hs <;> simp only [specKernel]
  · -- min
    rcases accOf_sel_mem vminC vminC_sel (nullValue k) (nonNull k vs) with h | h
    · left; exact h
    · right; exact hsub _ h
  · -- max
    rcases accOf_sel_mem vmaxC vmaxC_sel (nullValue k) (nonNull k vs) with h | h
    · left; exact h
    · right; exact hsub _ h
  · -- first
    cases hn : nonNull k vs with
    | nil => left; simp
    | cons x xs => right; simp; exact hsub x (by rw [hn]; exact List.mem_cons_self ..)
  · -- last
    cases hl : (nonNull k vs).getLast? with
    | none => left; simp
    | some x => right; simp; exact hsub x (List.mem_of_getLast? hl)

theorem valsOf_mem {rows : List Row} {g : Int} {v : Val} (h : v ∈ valsOf rows g) : ∃ r ∈ rows, r.1 = g ∧ r.2 = v := by
  unfold valsOf at h
  obtain ⟨r, hr, rfl⟩ := List.mem_map.mp h
  obtain ⟨hr1, hr2⟩ := List.mem_filter.mp hr
  exact ⟨r, hr1, by simpa using hr2, rfl⟩

/-- **end to end**: `group_min / max / first / last` (any mask kind, thread count, value layout) return for
every group the dtype's null or the value of one of the selected rows of that group -/
theorem reduction_selection_is_element (kn : Kernel) (hs : Kernel.isSelection kn = true) (k : Kind) (hk : k.Supported)
    (rows : List Row) (mask : Mask) (threads : Nat) (vch : Option (List Nat)) (p : Int → Partial)
    (hwf : ∀ r ∈ rows, WF k r.2) (hm : ∀ m, mask = .bool m → m.length = rows.length)
    (h : groupKernel modelReducers kn k rows mask threads vch = some p) (g : Int) (hg : 0 ≤ g) :
    (p g).1 = nullValue k ∨ ∃ sel, selectRows rows mask = some sel ∧ ∃ r ∈ sel, r.1 = g ∧ r.2 = (p g).1 := by
  obtain ⟨sel, hsel, e⟩ := groupKernel_eq_def kn k hk rows mask threads vch p hwf hm h g hg
  rw [e]
  rcases selection_is_element kn hs k (valsOf sel g) with h1 | h1
  · left; exact h1
  · right; exact ⟨sel, hsel, valsOf_mem h1⟩

/-- cummin / cummax: every output is the null or a selected value of the same group at or before that row -/
theorem cum_selection_is_element (op : CumOp) (hop : op = .min ∨ op = .max) (k : Kind) (rows : List CRow) (i : Nat) (v : Val)
    (h : (cumulativeReduce (op.red modelReducers k true) (op.init k) rows)[i]? = some (some v)) :
    v = nullValue k ∨ ∃ r ∈ rows.take (i + 1), r.sel = true ∧ r.val = v := by
  rw [cum_eq_prefix] at h
  unfold specCum at h
  by_cases hi : i < rows.length
  · rw [List.getElem?_map, List.getElem?_range hi] at h
    simp only [Option.map_some, List.getElem?_eq_getElem hi, Option.some.injEq] at h
    split at h
    · cases h
    · simp only [Option.some.injEq] at h
      have hs : Kernel.isSelection (op.kernel true) = true := by rcases hop with rfl | rfl <;> rfl
      rcases selection_is_element (op.kernel true) hs k (selVals (rows.take (i + 1)) rows[i].code) with h1 | h1
      · left; rw [← h]; exact h1
      · right
        rw [h] at h1
        unfold selVals at h1
        obtain ⟨r, hr, rfl⟩ := List.mem_map.mp h1
        obtain ⟨hr1, hr2⟩ := List.mem_filter.mp hr
        exact ⟨r, hr1, by simpa using (of_decide_eq_true hr2).2, rfl⟩
  · rw [List.getElem?_eq_none_iff.mpr (by simp; omega)] at h
    cases h

/-! ## integer sums: 64-bit wrapping accumulation is exact whenever the sum fits -/

def wrap64 (x : Int) : Int := (x + 9223372036854775808) % 18446744073709551616 - 9223372036854775808
def wrapU64 (x : Int) : Int := x % 18446744073709551616

/-- the compiled accumulation: every addition wraps -/
def wsum (xs : List Int) : Int := xs.foldl (fun a x => wrap64 (a + x)) 0
def wsumU (xs : List Int) : Int := xs.foldl (fun a x => wrapU64 (a + x)) 0

theorem wrap64_add_wrap (a b : Int) : wrap64 (wrap64 a + b) = wrap64 (a + b) := by unfold wrap64; omega
theorem wrapU64_add_wrap (a b : Int) : wrapU64 (wrapU64 a + b) = wrapU64 (a + b) := by unfold wrapU64; omega
theorem wrap64_id (x : Int) (h : -9223372036854775808 ≤ x ∧ x < 9223372036854775808) : wrap64 x = x := by unfold wrap64; omega
theorem wrapU64_id (x : Int) (h : 0 ≤ x ∧ x < 18446744073709551616) : wrapU64 x = x := by unfold wrapU64; omega

theorem foldl_wrap64 (xs : List Int) (a : Int) :
    xs.foldl (fun a x => wrap64 (a + x)) (wrap64 a) = wrap64 (a + xs.sum) := by
  induction xs generalizing a with
  | nil => simp
  | cons x xs ih =>
    simp only [List.foldl_cons, List.sum_cons]
    rw [wrap64_add_wrap, ih]
    congr 1; omega

theorem foldl_wrapU64 (xs : List Int) (a : Int) :
    xs.foldl (fun a x => wrapU64 (a + x)) (wrapU64 a) = wrapU64 (a + xs.sum) := by
  induction xs generalizing a with
  | nil => simp
  | cons x xs ih =>
    simp only [List.foldl_cons, List.sum_cons]
    rw [wrapU64_add_wrap, ih]
    congr 1; omega

theorem wsum_eq (xs : List Int) : wsum xs = wrap64 xs.sum := by
  have := foldl_wrap64 xs 0
  simpa [wsum, wrap64_id 0 (by omega)] using this

theorem wsumU_eq (xs : List Int) : wsumU xs = wrapU64 xs.sum := by
  have := foldl_wrapU64 xs 0
  simpa [wsumU, wrapU64_id 0 (by omega)] using this

/-- **integer sums do not wrap within the 64-bit range**: whatever the width of the inputs, their order and the
intermediate overflows, the int64 accumulator ends on the exact sum if that sum is representable -/
theorem int_sum_exact (xs : List Int) (h : -9223372036854775808 ≤ xs.sum ∧ xs.sum < 9223372036854775808) :
    wsum xs = xs.sum := by rw [wsum_eq, wrap64_id _ h]

theorem uint_sum_exact (xs : List Int) (h : 0 ≤ xs.sum ∧ xs.sum < 18446744073709551616) :
    wsumU xs = xs.sum := by rw [wsumU_eq, wrapU64_id _ h]

/-- merging two thread partials with one more wrapping addition is the wrapping sum of all rows -/
theorem wsum_append (xs ys : List Int) : wrap64 (wsum xs + wsum ys) = wsum (xs ++ ys) := by
  rw [wsum_eq, wsum_eq, wsum_eq, List.sum_append]
  unfold wrap64; omega

/-- non-vacuous: an intermediate overflow that comes back -/
example : wsum [9223372036854775807, 5, -10] = 9223372036854775802 := by decide

/-! ## accumulator dtypes, from the source -/

def selectionOps : List String := ["min", "max", "first", "last", "nanmin", "nanmax", "nanfirst", "nanlast"]
def sumOps : List String := ["sum", "nansum"]
def intDtypes : List String := ["int64", "int32", "int16", "int8", "bool"]
def uintDtypes : List String := ["uint64", "uint32", "uint16", "uint8"]

/-- `_build_target_for_groupby` on its whole domain: selection operations accumulate in the input's own dtype,
starting from that dtype's null; integer and boolean sums accumulate in int64, unsigned ones in uint64, floats
in their own precision, all starting from 0; counts do not use the value accumulator -/
theorem accumulator_table :
    Generated.Dtypes.targetTable.all (fun (dt, op, target, init) =>
      (!selectionOps.contains op || (target == dt && init == "null")) &&
      (!(sumOps.contains op && intDtypes.contains dt) || (target == "int64" && init == "0")) &&
      (!(sumOps.contains op && uintDtypes.contains dt) || (target == "uint64" && init == "0")) &&
      (!(sumOps.contains op && (dt == "float64" || dt == "float32")) || (target == dt && init == "0")) &&
      (!(op == "count" || op == "nancount") || target == "bool")) = true := by decide +kernel

example : Generated.Dtypes.targetTable.length = 154 := by decide +kernel

end GV.C12
