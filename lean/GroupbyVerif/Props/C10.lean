import GroupbyVerif.Model.Ema
import GroupbyVerif.Generated.Constants
import GroupbyVerif.LoopBridge.Ema
import Mathlib.Tactic.FieldSimp
import Mathlib.Tactic.Ring
import Mathlib.Tactic.Positivity
import Mathlib.Algebra.Order.Field.Rat
import Mathlib.Data.List.Basic

/-!
# C10 — EMA is the normalised exponentially weighted mean, per group
-/

namespace GV.C10
open GV

/-- values of group `g`'s rows, in order -/
def groupVals {β : Type} (rows : List (Int × β)) (g : Int) : List β :=
  (rows.filter (fun r => r.1 = g)).map (·.2)

theorem groupVals_cons {β : Type} (r : Int × β) (rs : List (Int × β)) (g : Int) :
    groupVals (r :: rs) g = (if r.1 = g then [r.2] else []) ++ groupVals rs g := by
  unfold groupVals
  by_cases h : r.1 = g <;> simp [List.filter_cons, h]

/-- **groups are independent**: the output at row `i` is a function of the rows of the same group
up to `i` only — for any step/output functions, any interleaving, any starting state -/
theorem loopGo_at {σ β ρ : Type} (step : σ → β → σ) (out : σ → β → ρ) (st : Int → σ) (rows : List (Int × β))
    (i : Nat) (r : Int × β) (hi : rows[i]? = some r) (hg : 0 ≤ r.1) :
    (loopGo step out st rows)[i]? = some (some (out ((groupVals (rows.take i) r.1).foldl step (st r.1)) r.2)) := by
  induction rows generalizing st i with
  | nil => simp at hi
  | cons x xs ih =>
    cases i with
    | zero =>
      simp only [List.getElem?_cons_zero, Option.some.injEq] at hi
      subst hi
      have hneg : ¬ x.1 < 0 := by omega
      simp [loopGo, hneg, groupVals]
    | succ j =>
      simp only [List.getElem?_cons_succ] at hi
      simp only [List.take_succ_cons, groupVals_cons]
      by_cases hneg : x.1 < 0
      · have hne : ¬ x.1 = r.1 := by omega
        simp only [loopGo, hneg, if_true, List.getElem?_cons_succ, hne, if_false, List.nil_append]
        exact ih st j hi
      · simp only [loopGo, hneg, if_false, List.getElem?_cons_succ]
        rw [ih _ j hi]
        by_cases hc : x.1 = r.1
        · simp [hc, upd]
        · have hc' : ¬ r.1 = x.1 := fun e => hc e.symm
          simp [hc, upd, hc']

/-- rows with a null key receive a constant marker -/
theorem loopGo_null_key {σ β ρ : Type} (step : σ → β → σ) (out : σ → β → ρ) (st : Int → σ) (rows : List (Int × β))
    (i : Nat) (r : Int × β) (hi : rows[i]? = some r) (hg : r.1 < 0) : (loopGo step out st rows)[i]? = some none := by
  induction rows generalizing st i with
  | nil => simp at hi
  | cons x xs ih =>
    cases i with
    | zero =>
      simp only [List.getElem?_cons_zero, Option.some.injEq] at hi
      subst hi
      simp [loopGo, hg]
    | succ j =>
      simp only [List.getElem?_cons_succ] at hi
      by_cases hneg : x.1 < 0
      · simp only [loopGo, hneg, if_true, List.getElem?_cons_succ]; exact ih st j hi
      · simp only [loopGo, hneg, if_false, List.getElem?_cons_succ]; exact ih _ j hi

/-! ### single group: the state is the decayed weighted sums, the output the weighted mean -/

def run (β : Rat) (xs : List (Option Rat)) : ESt := xs.foldl (emaStep β) eInit

theorem emaS_snoc (β : Rat) (xs : List (Option Rat)) (x : Option Rat) :
    emaS β (xs ++ [x]) = β * emaS β xs + (match x with | none => 0 | some v => v) := by
  induction xs with
  | nil => cases x <;> simp [emaS]
  | cons y ys ih =>
    simp only [List.cons_append, emaS, ih, List.length_append, List.length_singleton]
    cases y <;> cases x <;> simp <;> ring

theorem emaW_snoc (β : Rat) (xs : List (Option Rat)) (x : Option Rat) :
    emaW β (xs ++ [x]) = β * emaW β xs + (match x with | none => 0 | some _ => 1) := by
  induction xs with
  | nil => cases x <;> simp [emaW]
  | cons y ys ih =>
    simp only [List.cons_append, emaW, ih, List.length_append, List.length_singleton]
    cases y <;> cases x <;> simp <;> ring

theorem emaW_nonneg (β : Rat) (hβ : 0 ≤ β) (xs : List (Option Rat)) : 0 ≤ emaW β xs := by
  induction xs with
  | nil => simp [emaW]
  | cons y ys ih => cases y <;> simp [emaW] <;> positivity

theorem run_snoc (β : Rat) (xs : List (Option Rat)) (x : Option Rat) :
    run β (xs ++ [x]) = emaStep β (run β xs) x := by
  simp [run, List.foldl_append]

/-- invariant: numerator and denominator are the weighted sums of the history, decayed once -/
theorem run_state (β : Rat) (xs : List (Option Rat)) :
    (run β xs).r = β * emaS β xs ∧ (run β xs).w = β * emaW β xs := by
  induction xs using List.reverseRecOn with
  | nil => simp [run, emaS, emaW, eInit]
  | append_singleton xs x ih =>
    obtain ⟨hr, hw⟩ := ih
    rw [run_snoc, emaS_snoc, emaW_snoc]
    generalize run β xs = s at hr hw
    cases x with
    | none => simp only [emaStep, hr, hw]; constructor <;> ring
    | some v => simp only [emaStep, hr, hw]; constructor <;> ring

/-- **closed form**: at a valid row the output is the normalised exponentially weighted mean of the
valid observations of the group so far, with weight `β^(number of group rows elapsed)` -/
theorem ema_closed_form (β : Rat) (xs : List (Option Rat)) (v : Rat) :
    emaOut (run β xs) (some v) = some (emaS β (xs ++ [some v]) / emaW β (xs ++ [some v])) := by
  obtain ⟨hr, hw⟩ := run_state β xs
  generalize run β xs = s at hr hw
  simp only [emaOut, hr, hw, emaS_snoc, emaW_snoc]
  congr 1
  rw [add_comm (β * emaW β xs) 1, add_comm (β * emaS β xs) v]

/-- invalid rows (null value or masked) repeat the group's previous output -/
theorem invalid_repeats_previous (β : Rat) (xs : List (Option Rat)) :
    emaOut (run β xs) none = (run β xs).last ∧
    (run β (xs ++ [none])).last = (run β xs).last := by
  constructor
  · rfl
  · rw [run_snoc]; rfl

/-- after a valid row, `last` is that row's output -/
theorem last_is_output (β : Rat) (xs : List (Option Rat)) (v : Rat) :
    (run β (xs ++ [some v])).last = emaOut (run β xs) (some v) := by
  rw [run_snoc]; rfl

/-- a group's output is null until its first valid observation -/
theorem null_until_first_valid (β : Rat) (xs : List (Option Rat)) (h : ∀ x ∈ xs, x = none) :
    (run β xs).last = none := by
  induction xs using List.reverseRecOn with
  | nil => rfl
  | append_singleton xs x ih =>
    have hx : x = none := h x (by simp)
    subst hx
    rw [run_snoc]
    exact ih (fun y hy => h y (by simp [hy]))

/-- grouped output at row `i` = single-group output over the group's own history (any interleaving) -/
theorem grouped_eq_single_group (β : Rat) (rows : List (Int × Option Rat)) (i : Nat) (r : Int × Option Rat)
    (hi : rows[i]? = some r) (hg : 0 ≤ r.1) :
    (emaGrouped β rows)[i]? = some (some (emaOut (run β (groupVals (rows.take i) r.1)) r.2)) := by
  unfold emaGrouped run
  exact loopGo_at _ _ _ rows i r hi hg

/-! ### time-weighted variant: weights `decay (t_i − t_j)` for any multiplicative decay -/

/-- weighted sums relative to a reference time `T` -/
def sAt (decay : Int → Rat) (T : Int) : List (Int × Option Rat) → Rat
  | [] => 0
  | tx :: rest => (match tx.2 with | none => 0 | some v => v * decay (T - tx.1)) + sAt decay T rest

def wAt (decay : Int → Rat) (T : Int) : List (Int × Option Rat) → Rat
  | [] => 0
  | tx :: rest => (match tx.2 with | none => 0 | some _ => decay (T - tx.1)) + wAt decay T rest

def runT (decay : Int → Rat) (h : List (Int × Option Rat)) : ESt := h.foldl (emaStepTimed decay) eInit

theorem sAt_append (decay : Int → Rat) (T : Int) (a b : List (Int × Option Rat)) :
    sAt decay T (a ++ b) = sAt decay T a + sAt decay T b := by
  induction a with
  | nil => simp [sAt]
  | cons x xs ih => simp [sAt, ih]; ring

theorem wAt_append (decay : Int → Rat) (T : Int) (a b : List (Int × Option Rat)) :
    wAt decay T (a ++ b) = wAt decay T a + wAt decay T b := by
  induction a with
  | nil => simp [wAt]
  | cons x xs ih => simp [wAt, ih]; ring

/-- moving the reference time multiplies every weight by the decay over the shift -/
theorem sAt_shift (decay : Int → Rat) (hmul : ∀ a b, decay (a + b) = decay a * decay b) (T T' : Int)
    (h : List (Int × Option Rat)) : sAt decay T' h = decay (T' - T) * sAt decay T h := by
  induction h with
  | nil => simp [sAt]
  | cons x xs ih =>
    simp only [sAt, ih]
    cases hx : x.2 with
    | none => simp
    | some v =>
      have : T' - x.1 = (T' - T) + (T - x.1) := by omega
      simp only [this, hmul]; ring

theorem wAt_shift (decay : Int → Rat) (hmul : ∀ a b, decay (a + b) = decay a * decay b) (T T' : Int)
    (h : List (Int × Option Rat)) : wAt decay T' h = decay (T' - T) * wAt decay T h := by
  induction h with
  | nil => simp [wAt]
  | cons x xs ih =>
    simp only [wAt, ih]
    cases hx : x.2 with
    | none => simp
    | some v =>
      have : T' - x.1 = (T' - T) + (T - x.1) := by omega
      simp only [this, hmul]; ring

/-- invariant of the time-weighted state: numerator / denominator are the weighted sums relative
to the time of the group's previous row -/
theorem runT_state (decay : Int → Rat) (hmul : ∀ a b, decay (a + b) = decay a * decay b) (h0 : decay 0 = 1)
    (h : List (Int × Option Rat)) :
    match h.getLast? with
    | none => runT decay h = eInit
    | some tx => (runT decay h).r = sAt decay tx.1 h ∧ (runT decay h).w = wAt decay tx.1 h ∧
                 (runT decay h).lastT = some tx.1 := by
  induction h using List.reverseRecOn with
  | nil => simp [runT]
  | append_singleton xs x ih =>
    simp only [List.getLast?_append, List.getLast?_singleton, Option.some_or]
    have hrun : runT decay (xs ++ [x]) = emaStepTimed decay (runT decay xs) x := by
      simp [runT, List.foldl_append]
    rw [hrun, sAt_append, wAt_append]
    cases hl : xs.getLast? with
    | none =>
      have hxs : xs = [] := by simpa using hl
      subst hxs
      simp only [hl] at ih
      have hr : runT decay [] = eInit := rfl
      rw [hr]
      cases hx : x.2 <;> simp [emaStepTimed, decayed, eInit, sAt, wAt, hx, h0]
    | some y =>
      simp only [hl] at ih
      obtain ⟨hr, hw, ht⟩ := ih
      rw [sAt_shift decay hmul y.1 x.1 xs, wAt_shift decay hmul y.1 x.1 xs]
      generalize runT decay xs = s at hr hw ht
      cases hx : x.2 with
      | none => simp [emaStepTimed, decayed, ht, hr, hw, sAt, wAt, hx]; constructor <;> ring
      | some v => simp [emaStepTimed, decayed, ht, hr, hw, sAt, wAt, hx, h0]; constructor <;> ring

/-- **closed form, time-weighted**: at a valid row the output is the weighted mean of the valid
observations of the group so far with weight `decay (elapsed time)` -/
theorem ema_timed_closed_form (decay : Int → Rat) (hmul : ∀ a b, decay (a + b) = decay a * decay b)
    (h0 : decay 0 = 1) (h : List (Int × Option Rat)) (t : Int) (v : Rat) :
    emaOutTimed decay (runT decay h) (t, some v)
      = some (sAt decay t (h ++ [(t, some v)]) / wAt decay t (h ++ [(t, some v)])) := by
  have inv := runT_state decay hmul h0 h
  rw [sAt_append, wAt_append]
  cases hl : h.getLast? with
  | none =>
    have hxs : h = [] := by simpa using hl
    subst hxs
    simp [emaOutTimed, emaOut, decayed, runT, eInit, sAt, wAt, h0]
  | some y =>
    simp only [hl] at inv
    obtain ⟨hr, hw, ht⟩ := inv
    rw [sAt_shift decay hmul y.1 t h, wAt_shift decay hmul y.1 t h]
    generalize runT decay h = s at hr hw ht
    simp only [emaOutTimed, emaOut, decayed, ht, hr, hw, sAt, wAt, Int.sub_self, h0]
    congr 1
    ring_nf

/-- source fact: the grouped kernels skip null keys (guard present in the current source) -/
theorem guards_present :
    Generated.Constants.guardEmaGrouped = true ∧ Generated.Constants.guardEmaGroupedTimed = true := by decide

/-- non-vacuity / sanity: α = 1/2, two interleaved groups, an invalid row, a null key -/
example : emaGrouped (1 / 2) [(0, some 1), (1, some 4), (-1, some 9), (0, none), (0, some 3)]
    = [some (some 1), some (some 4), none, some (some 1), some (some (13 / 5))] := by decide +kernel

/-! ### the kernels of the current source, end to end

`Generated.Loops.ema_grouped` / `ema_grouped_timed` are regenerated from `groupby_lib/emas.py` on every run (exact
rational arithmetic, NaN as a separate cell value); `LoopBridge/Ema.lean` proves them equal to `emaGrouped` /
`emaGroupedTimed`.  Composed with the closed forms above: -/

/-- **the translated `_ema_grouped` returns the normalised exponentially weighted mean**: at a row with a non-null key
whose value is valid (not NaN, not masked), the cell holds `Σ β^(rows elapsed)·x / Σ β^(rows elapsed)` over the valid
observations of the same group up to that row, with `β = 1 - alpha` and one step per group row -/
theorem source_ema_closed_form (k : Kind) (β : Rat) (hβ : 0 ≤ β) (codes : List Int) (vals : List FVal)
    (msk : List Bool) (masked : Bool) (ng ml : Int) (hlen : codes.length = vals.length)
    (i : Nat) (hi : i < codes.length) (hg : 0 ≤ codes.getD i 0) (v : Rat)
    (hv : LoopBridge.obsOf (vals.getD i .nan) (masked && !(msk.getD i true)) = some v) :
    let rows := LoopBridge.emaRows codes vals masked msk
    let hist := groupVals (rows.take i) (codes.getD i 0)
    (Generated.Loops.ema_grouped k codes.length (arrOf codes 0) vals.length (arrOf vals .nan) (.q (1 - β)) ng masked ml
      (arrOf msk true)).1 (i : Int) = .q (emaS β (hist ++ [some v]) / emaW β (hist ++ [some v])) := by
  intro rows hist
  have h := (LoopBridge.ema_grouped_eq k β hβ codes vals msk masked ng ml hlen).2 i hi
  have hrow : rows[i]? = some (codes.getD i 0, some v) := by
    simp only [rows, LoopBridge.emaRows]
    rw [List.getElem?_map, List.getElem?_range hi]
    simp only [Option.map_some, hv]
  have hspec := grouped_eq_single_group β rows i _ hrow hg
  rw [h, LoopBridge.emaCell, hspec]
  have := ema_closed_form β hist v
  unfold run at this
  simp only [run] at this ⊢
  rw [this]

/-- invalid rows repeat the group's previous output; null-key rows hold NaN: the cell is the model's output -/
theorem source_ema_eq_model (k : Kind) (β : Rat) (hβ : 0 ≤ β) (codes : List Int) (vals : List FVal)
    (msk : List Bool) (masked : Bool) (ng ml : Int) (hlen : codes.length = vals.length) (i : Nat) (hi : i < codes.length) :
    (Generated.Loops.ema_grouped k codes.length (arrOf codes 0) vals.length (arrOf vals .nan) (.q (1 - β)) ng masked ml
      (arrOf msk true)).1 (i : Int) =
      LoopBridge.emaCell (emaGrouped β (LoopBridge.emaRows codes vals masked msk)) i :=
  (LoopBridge.ema_grouped_eq k β hβ codes vals msk masked ng ml hlen).2 i hi

/-- **the translated `_ema_grouped_timed`**: the cell of every row is the time-weighted model's output, for the decay
`Δt ↦ exp(-ln 2 · Δt / halflife)` computed by the source (uninterpreted `expf`, `ln2`) -/
theorem source_ema_timed_eq_model (k : Kind) (ln2 : FVal) (expf : FVal → FVal) (halflife : Int) (decay : Int → Rat)
    (hdec : ∀ d : Int, expf (FVal.mul (FVal.neg ln2) (FVal.divII d halflife)) = .q (decay d))
    (hdec0 : ∀ d : Int, 0 ≤ decay d)
    (codes : List Int) (vals : List FVal) (times : List Int) (msk : List Bool)
    (masked : Bool) (ng ml : Int) (hlen : codes.length = vals.length) (hlent : codes.length = times.length)
    (htimes : ∀ t ∈ times, t ≠ minInt64) (i : Nat) (hi : i < codes.length) :
    (Generated.Loops.ema_grouped_timed k ln2 expf codes.length (arrOf codes 0) vals.length (arrOf vals .nan) times.length
      (arrOf times 0) halflife ng masked ml (arrOf msk true)).1 (i : Int) =
      LoopBridge.emaCell (emaGroupedTimed decay (LoopBridge.emaTRows codes vals times masked msk)) i :=
  (LoopBridge.ema_grouped_timed_eq k ln2 expf halflife decay hdec hdec0 codes vals times msk masked ng ml hlen hlent
    htimes).2 i hi

/-- **from the first valid observation on, the translated grouped kernel on a single group and the translated ungrouped
kernel `_ema_adjusted` produce the same cell** - a statement about two functions of the current source -/
theorem source_single_group_eq_ungrouped (k : Kind) (β : Rat) (hβ : 0 ≤ β) (vals : List FVal) (ng ml : Int)
    (i : Nat) (hi : i < vals.length)
    (hvalid : ∃ j, j < i + 1 ∧ ∃ v, (vals.map (fun v => LoopBridge.obsOf v false))[j]? = some (some v)) :
    (Generated.Loops.ema_grouped k (List.replicate vals.length (0 : Int)).length (arrOf (List.replicate vals.length 0) 0)
        vals.length (arrOf vals .nan) (.q (1 - β)) ng false ml (arrOf [] true)).1 (i : Int) =
      (Generated.Loops.ema_adjusted k vals.length (arrOf vals .nan) (.q (1 - β))).1 (i : Int) := by
  have hu := (LoopBridge.ema_adjusted_eq k β hβ vals i hi hvalid).2
  have hg := (LoopBridge.ema_grouped_eq k β hβ (List.replicate vals.length 0) vals [] false ng ml (by simp)).2 i (by simpa using hi)
  rw [hu, hg]
  -- the model's grouped output at row i of an all-zero code column
  have hrows : LoopBridge.emaRows (List.replicate vals.length 0) vals false [] =
      (vals.map (fun v => LoopBridge.obsOf v false)).map (fun x => ((0 : Int), x)) := by
    simp only [LoopBridge.emaRows, List.length_replicate, List.map_map]
    have := GV.list_eq_map_range vals FVal.nan
    conv => rhs; rw [this]
    simp only [List.map_map]
    apply List.map_congr_left
    intro j hj
    have hj' : j < vals.length := by simpa using hj
    simp [List.getD_eq_getElem?_getD, hj', List.getElem?_replicate]
  rw [hrows]
  generalize hxs : vals.map (fun v => LoopBridge.obsOf v false) = xs
  have hil : i < xs.length := by rw [← hxs]; simpa using hi
  have hrow : (xs.map (fun x => ((0 : Int), x)))[i]? = some (0, xs[i]) := by simp [hil]
  have hspec := grouped_eq_single_group β (xs.map (fun x => ((0 : Int), x))) i _ hrow (by simp)
  have hgv : groupVals ((xs.map (fun x => ((0 : Int), x))).take i) 0 = xs.take i := by
    simp [groupVals, ← List.map_take, List.filter_map, Function.comp_def]
  rw [LoopBridge.emaCell, hspec, hgv]
  have hgd : xs.getD i none = xs[i] := by rw [List.getD_eq_getElem?_getD, List.getElem?_eq_getElem hil]; rfl
  rw [hgd]
  simp only [run, LoopBridge.runE]
  cases emaOut (List.foldl (emaStep β) eInit (List.take i xs)) xs[i] <;> rfl

/-- **the translated ungrouped `_ema_time_weighted`** holds, at every row, the single-series time-weighted model's output
(decay `exp(-ln 2 · Δt / halflife)` between consecutive rows, a leading NaN gives NaN) -/
theorem source_ema_time_weighted_eq_model (k : Kind) (ln2 : FVal) (expf : FVal → FVal) (halflife : Int) (decay : Int → Rat)
    (hdec : ∀ d : Int, expf (FVal.mul (FVal.neg ln2) (FVal.divII d halflife)) = .q (decay d))
    (hdec0 : ∀ d : Int, 0 ≤ decay d)
    (vals : List FVal) (times : List Int) (hlen : vals.length = times.length) (hne : 0 < vals.length)
    (i : Nat) (hi : i < vals.length) :
    (Generated.Loops.ema_time_weighted k ln2 expf vals.length (arrOf vals .nan) times.length (arrOf times 0) halflife).1 (i : Int)
      = LoopBridge.optF (emaOutTimed decay
          (LoopBridge.runTE decay (((List.range vals.length).map fun i =>
            (times.getD i 0, LoopBridge.obsOf (vals.getD i .nan) false)).take i))
          (((List.range vals.length).map fun i => (times.getD i 0, LoopBridge.obsOf (vals.getD i .nan) false)).getD i (0, none))) :=
  (LoopBridge.ema_time_weighted_eq k ln2 expf halflife decay hdec hdec0 vals times hlen hne i hi).2

/-- **time-weighted: the translated grouped kernel on a single group and the translated ungrouped kernel agree at every
row** (both hold the single-series model's output; timestamps different from the int64 minimum) -/
theorem source_single_group_eq_ungrouped_timed (k : Kind) (ln2 : FVal) (expf : FVal → FVal) (halflife : Int)
    (decay : Int → Rat) (hdec : ∀ d : Int, expf (FVal.mul (FVal.neg ln2) (FVal.divII d halflife)) = .q (decay d))
    (hdec0 : ∀ d : Int, 0 ≤ decay d) (vals : List FVal) (times : List Int) (hlen : vals.length = times.length)
    (htimes : ∀ t ∈ times, t ≠ minInt64) (ng ml : Int) (i : Nat) (hi : i < vals.length) :
    (Generated.Loops.ema_grouped_timed k ln2 expf (List.replicate vals.length (0 : Int)).length
        (arrOf (List.replicate vals.length 0) 0) vals.length (arrOf vals .nan) times.length (arrOf times 0) halflife ng false ml
        (arrOf [] true)).1 (i : Int) =
      (Generated.Loops.ema_time_weighted k ln2 expf vals.length (arrOf vals .nan) times.length (arrOf times 0) halflife).1 (i : Int) := by
  have hne : 0 < vals.length := by omega
  have hu := (LoopBridge.ema_time_weighted_eq k ln2 expf halflife decay hdec hdec0 vals times hlen hne i hi).2
  have hg := (LoopBridge.ema_grouped_timed_eq k ln2 expf halflife decay hdec hdec0 (List.replicate vals.length 0) vals times []
    false ng ml (by simp) (by simpa using hlen) htimes).2 i (by simpa using hi)
  rw [hu, hg]
  have hrows : LoopBridge.emaTRows (List.replicate vals.length 0) vals times false [] =
      ((List.range vals.length).map fun i => (times.getD i 0, LoopBridge.obsOf (vals.getD i .nan) false)).map
        (fun x => ((0 : Int), x)) := by
    simp only [LoopBridge.emaTRows, List.length_replicate, List.map_map]
    apply List.map_congr_left
    intro j hj
    have hj' : j < vals.length := by simpa using hj
    simp [List.getD_eq_getElem?_getD, hj', List.getElem?_replicate]
  rw [hrows]
  generalize hxs : ((List.range vals.length).map fun i => (times.getD i 0, LoopBridge.obsOf (vals.getD i .nan) false)) = xs
  have hil : i < xs.length := by rw [← hxs]; simpa using hi
  have hrow : (xs.map (fun x => ((0 : Int), x)))[i]? = some (0, xs[i]) := by simp [hil]
  have hspec := loopGo_at (emaStepTimed decay) (emaOutTimed decay) (fun _ => eInit) (xs.map (fun x => ((0 : Int), x))) i _
    hrow (by simp)
  have hgv : groupVals ((xs.map (fun x => ((0 : Int), x))).take i) 0 = xs.take i := by
    simp [groupVals, ← List.map_take, List.filter_map, Function.comp_def]
  rw [LoopBridge.emaCell, emaGroupedTimed, hspec, hgv]
  have hgd : xs.getD i (0, none) = xs[i] := by rw [List.getD_eq_getElem?_getD, List.getElem?_eq_getElem hil]; rfl
  rw [hgd]
  simp only [LoopBridge.runTE]
  cases emaOutTimed decay (List.foldl (emaStepTimed decay) eInit (List.take i xs)) xs[i] <;> rfl

/-- non-vacuity: alpha = 1/2, two interleaved groups, a NaN, a null key, a masked row -/
example :
    let r := Generated.Loops.ema_grouped .f 6 (arrOf [0, 1, -1, 0, 0, 1] 0) 6
      (arrOf [.q 1, .q 4, .q 9, .nan, .q 3, .q 8] .nan) (.q (1 / 2)) 2 true 6
      (arrOf [true, true, true, true, true, false] true)
    ((List.range 6).map fun (j : Nat) => r.1 (j : Int)) = [.q 1, .q 4, .nan, .q 1, .q (13 / 5), .q 4] := by decide +kernel

end GV.C10
