import GroupbyVerif.Model.Effects
import GroupbyVerif.Generated.Effects

/-!
# C19 — Operations never modify their inputs and results do not alias them

Three layers.

1. `reach_mem_of_closed`: a certificate that contains the local writes and is closed under every call site
   over-approximates every write reachable through any chain of calls (induction over `Reach`).
2. On the table generated from the source (`Generated/Effects.lean`): the emitted certificate is closed and
   safe (`decide +kernel`), hence **no public entry point can write through one of its parameters or store into
   a buffer of the grouping's state** (`public_entry_writes_no_input`).
3. The meaning of "no write reaches an input" on a heap model: a run whose stores only hit buffers allocated
   during the run leaves every pre-existing buffer as it was (`frame`), so the inputs survive, editing a
   returned (fresh) buffer afterwards cannot change them (`result_edit_keeps_inputs`), and a later identical
   call - a function of the input contents - returns the same result (`repeat_call_same_result`).
-/

namespace GV.Eff

theorem fn_out_of_range (t : Table) (f : Nat) (h : t.length ≤ f) : t.fn f = ⟨false, [], [], []⟩ := by
  unfold Table.fn
  simp [List.getD, List.getElem?_eq_none h]

theorem closed_fn (t : Table) (W : Cert) (hc : closed t W = true) (f : Nat) (hf : f < t.length) : fnClosed t W f = true := by
  unfold closed at hc
  rw [List.all_eq_true] at hc
  exact hc f (List.mem_range.mpr hf)

/-- **soundness of the certificate check** -/
theorem reach_mem_of_closed (t : Table) (W : Cert) (hc : closed t W = true) {f : Nat} {w : Write}
    (hr : Reach t f w) : w ∈ W.at f := by
  induction hr with
  | @loc f w hw =>
    by_cases hf : f < t.length
    · have h := closed_fn t W hc f hf
      unfold fnClosed at h
      rw [Bool.and_eq_true, List.all_eq_true] at h
      have := h.1 w hw
      simpa using this
    · rw [fn_out_of_range t f (Nat.le_of_not_lt hf)] at hw
      cases hw
  | @call f c w' p al r k w hcall _ hb hp hal hpush ih =>
    by_cases hf : f < t.length
    · have h := closed_fn t W hc f hf
      unfold fnClosed at h
      rw [Bool.and_eq_true, List.all_eq_true, List.all_eq_true] at h
      have h2 := h.2 c hcall
      unfold callClosed at h2
      rw [List.all_eq_true] at h2
      have h3 := h2 w' ih
      rw [List.all_eq_true] at h3
      have h4 := h3 (p, al) hb
      simp only [hp, if_true] at h4
      rw [List.all_eq_true] at h4
      have h5 := h4 (r, k) hal
      simp only [hpush] at h5
      simpa using h5
    · rw [fn_out_of_range t f (Nat.le_of_not_lt hf)] at hcall
      cases hcall

theorem safe_fn (t : Table) (W : Cert) (hs : safe t W = true) (f : Nat) (hp : (t.fn f).pub = true) :
    ∀ w ∈ W.at f, allowed (t.fn f) w = true := by
  by_cases hf : f < t.length
  · unfold safe at hs
    rw [List.all_eq_true] at hs
    have := hs f (List.mem_range.mpr hf)
    rw [hp] at this
    simpa [List.all_eq_true] using this
  · rw [fn_out_of_range t f (Nat.le_of_not_lt hf)] at hp
    cases hp

/-- generic statement: with a closed and safe certificate, whatever a public entry point can reach is allowed -/
theorem public_reach_allowed (t : Table) (W : Cert) (hc : closed t W = true) (hs : safe t W = true)
    (f : Nat) (hp : (t.fn f).pub = true) (w : Write) (hr : Reach t f w) : allowed (t.fn f) w = true :=
  safe_fn t W hs f hp w (reach_mem_of_closed t W hc hr)

/-! ## the table generated from the source -/

theorem generated_cert_closed : closed Gen.table Gen.cert = true := by decide +kernel

theorem generated_cert_safe : safe Gen.table Gen.cert = true := by decide +kernel

/-- **C19, static part**: in the current source no public entry point can (transitively) write through one of
its parameters - whatever the alias: the object, a view of its buffer, an element, or an array held in a
container argument - and none stores into a buffer held by the grouping's state; only object-level updates of
its own state (caches) remain -/
theorem public_entry_writes_no_input (f : Nat) (hp : (Gen.table.fn f).pub = true) (w : Write)
    (hr : Reach Gen.table f w) :
    (Gen.table.fn f).params.contains w.root = false ∧ w.mode = .obj := by
  have h := public_reach_allowed Gen.table Gen.cert generated_cert_closed generated_cert_safe f hp w hr
  unfold allowed at h
  rw [Bool.and_eq_true] at h
  refine ⟨by simpa using h.1, ?_⟩
  cases hm : w.mode
  · rw [hm] at h; simp at h
  · rfl

/-- non-vacuity: the table has public entry points, writing kernels, and reachable writes -/
example : (Gen.table.filter (·.pub)).length > 50 := by decide +kernel
example : (Gen.cert.filter (fun l => !l.isEmpty)).length ≥ 4 := by decide +kernel

/-! ## what it means on a heap -/

abbrev Heap := List (List Int)

inductive Act
  | alloc (n : Nat)
  | store (b i : Nat) (v : Int)

def step (h : Heap) : Act → Heap
  | .alloc n => h ++ [List.replicate n 0]
  | .store b i v => h.modify b (fun buf => buf.set i v)

def run (h : Heap) (as : List Act) : Heap := as.foldl step h

/-- every store of the run hits a buffer with id ≥ `n0` (allocated by the library, not by the caller) -/
def StoresAbove (n0 : Nat) (as : List Act) : Prop :=
  ∀ a ∈ as, match a with
    | .store b _ _ => n0 ≤ b
    | .alloc _ => True

theorem step_frame (h : Heap) (a : Act) (n0 b : Nat) (hb : b < n0)
    (ha : match a with | .store b' _ _ => n0 ≤ b' | .alloc _ => True) (hlen : n0 ≤ h.length) :
    (step h a)[b]? = h[b]? ∧ n0 ≤ (step h a).length := by
  cases a with
  | alloc n =>
    simp only [step]
    refine ⟨?_, by simp; omega⟩
    rw [List.getElem?_append_left (by omega)]
  | store b' i v =>
    simp only [step]
    refine ⟨?_, by simp [List.length_modify]; omega⟩
    have : b' ≠ b := by simp at ha; omega
    simp [List.getElem?_modify, this]

/-- **frame**: buffers that existed before the call and are never a store target are unchanged by it -/
theorem frame (as : List Act) (h : Heap) (n0 : Nat) (hs : StoresAbove n0 as) (hlen : n0 ≤ h.length) :
    ∀ b, b < n0 → (run h as)[b]? = h[b]? := by
  induction as generalizing h with
  | nil => intro b _; rfl
  | cons a as ih =>
    intro b hb
    have ha := hs a (List.mem_cons_self ..)
    have hst := step_frame h a n0 b hb ha hlen
    have := ih (step h a) (fun x hx => hs x (List.mem_cons_of_mem _ hx)) hst.2 b hb
    simp only [run, List.foldl_cons] at this ⊢
    rw [this, hst.1]

/-- the caller's `n0` input buffers, as contents -/
def inputs (n0 : Nat) (h : Heap) : List (Option (List Int)) := (List.range n0).map fun b => h[b]?

theorem inputs_eq_of_frame (n0 : Nat) (h h' : Heap) (hf : ∀ b, b < n0 → h'[b]? = h[b]?) : inputs n0 h' = inputs n0 h := by
  unfold inputs
  apply List.map_congr_left
  intro b hb
  exact hf b (List.mem_range.mp hb)

/-- a call followed by arbitrary edits of the returned (fresh: id ≥ n0) buffers leaves the inputs untouched -/
theorem result_edit_keeps_inputs (prog edits : List Act) (h : Heap) (n0 : Nat)
    (hp : StoresAbove n0 prog) (he : StoresAbove n0 edits) (hlen : n0 ≤ h.length) :
    inputs n0 (run (run h prog) edits) = inputs n0 h := by
  have : run (run h prog) edits = run h (prog ++ edits) := by simp [run, List.foldl_append]
  rw [this]
  apply inputs_eq_of_frame
  apply frame _ _ _ _ hlen
  intro a ha
  rcases List.mem_append.mp ha with h1 | h1
  · exact hp a h1
  · exact he a h1

/-- an operation whose program and result are functions of the input contents returns the same result when it
is called again after the first result has been edited in place -/
theorem repeat_call_same_result {R : Type} (n0 : Nat) (prog : List (Option (List Int)) → List Act)
    (result : List (Option (List Int)) → R) (edits : List Act) (h : Heap)
    (hp : StoresAbove n0 (prog (inputs n0 h))) (he : StoresAbove n0 edits) (hlen : n0 ≤ h.length) :
    result (inputs n0 (run (run h (prog (inputs n0 h))) edits)) = result (inputs n0 h) := by
  rw [result_edit_keeps_inputs _ _ _ _ hp he hlen]

/-- the hypotheses are satisfiable: a call that allocates a target, fills it, and an edit of that result -/
example : StoresAbove 2 [Act.alloc 3, Act.store 2 0 7, Act.store 2 1 8] ∧
    inputs 2 (run [[1, 2], [3]] [Act.alloc 3, Act.store 2 0 7, Act.store 2 1 8]) = inputs 2 [[1, 2], [3]] := by
  constructor
  · intro a ha
    simp at ha
    rcases ha with rfl | rfl | rfl <;> simp
  · decide

/-- and a store into an input buffer is what the frame condition excludes: it does change the inputs -/
example : inputs 2 (run [[1, 2], [3]] [Act.store 0 0 9]) ≠ inputs 2 [[1, 2], [3]] := by decide

end GV.Eff
