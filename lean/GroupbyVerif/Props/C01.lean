import GroupbyVerif.Props.C04
import GroupbyVerif.Props.C02
import GroupbyVerif.Model.GroupBy

/-!
# C01 — Group reductions equal the per-group definition (public API)

The kernel-level statement (single pass / block-wise = per-group definition, for every
interleaving, null placement, kernel and dtype class) is C04.  This file adds what the public
pipeline needs on top: the neutral result of an all-null group, and the label set.
-/

namespace GV.C01
open GV

/-- a group whose values are all null reports the neutral result: 0 for sum / count /
sum of squares, the kind's null otherwise — and its row count is still reported by `size`/`last` -/
theorem all_null_group_neutral (kn : Kernel) (k : Kind) (vs : List Val) (h : ∀ v ∈ vs, isNull k v = true) :
    (specKernel kn k vs).1 =
      match kn with
      | .size => .num vs.length
      | .count | .sum | .sumSquares => .num 0
      | .sumNoSkip => sumVals vs
      | .min | .max | .first | .last => nullValue k := by
  have hnn : nonNull k vs = [] := by
    simp only [nonNull, List.filter_eq_nil_iff]
    intro v hv; simp [h v hv]
  cases kn <;> simp [specKernel, hnn, sumVals, sumSqVals, accOf]

/-- the count component of `count` is the number of non-null values; of `size` the number of rows -/
theorem count_counts_nonnull (k : Kind) (vs : List Val) :
    (specKernel .count k vs).2 = (nonNull k vs).length ∧ (specKernel .size k vs).2 = vs.length := by
  simp [specKernel]

/-- `first`/`last` follow row order: the first / last non-null value of the group -/
theorem first_last_row_order (k : Kind) (vs : List Val) :
    (specKernel .first k vs).1 = (nonNull k vs).head?.getD (nullValue k) ∧
    (specKernel .last k vs).1 = (nonNull k vs).getLast?.getD (nullValue k) := by
  simp [specKernel]

/-- the labels of the specification are exactly the keys that have at least one selected row -/
theorem spec_labels_exactly_selected (kn : Kernel) (k : Kind) (keys : List (Option Key)) (vals : List Val)
    (mask : Mask) (sort : Bool) (sel : List (Option Key × Val)) (r : List (Key × Partial))
    (hsel : selectGen (keys.zip vals) mask = some sel)
    (hr : specReduce kn k keys vals mask sort = some r) (l : Key)
    (hsub : ∀ x ∈ sel, x ∈ keys.zip vals) :
    l ∈ r.map (·.1) ↔ ∃ v, (some l, v) ∈ sel := by
  simp only [specReduce, hsel, Option.some.injEq] at hr
  subst hr
  simp only [List.map_map, List.mem_map, Function.comp]
  have hperm : ∀ ls : List Key, l ∈ (if sort then sortLabels ls else ls) ↔ l ∈ ls := by
    intro ls
    split
    · exact (List.mergeSort_perm ls keyLe).mem_iff
    · exact Iff.rfl
  constructor
  · rintro ⟨a, ha, rfl⟩
    rw [hperm] at ha
    simp only [List.mem_filter, List.mem_filterMap, decide_eq_true_eq] at ha
    obtain ⟨_, ⟨x, hx, hxl⟩⟩ := ha
    exact ⟨x.2, by rw [← hxl]; exact hx⟩
  · rintro ⟨v, hv⟩
    refine ⟨l, ?_, rfl⟩
    rw [hperm]
    simp only [List.mem_filter, List.mem_filterMap, decide_eq_true_eq, mem_dedup, id]
    refine ⟨⟨some l, ?_, rfl⟩, ⟨(some l, v), hv, rfl⟩⟩
    have := hsub _ hv
    exact (List.of_mem_zip this).1

end GV.C01
