import GroupbyVerif.Props.C04
import GroupbyVerif.Props.C02
import GroupbyVerif.Model.GroupBy
import GroupbyVerif.Lemmas.Pipeline

/-!
# C01 — Group reductions equal the per-group definition (public API)

The kernel-level statement (single pass / block-wise = per-group definition, for every
interleaving, null placement, kernel and dtype class) is C04.  This file adds what the public
pipeline needs on top: the neutral result of an all-null group, the label set, and
`modelReduce_eq_specReduce`: the whole pipeline (factorization, kernel under any mask / thread count,
observed-label filter, label ordering) returns exactly the specification `specReduce`.
-/

namespace GV.C01
open GV GV.C04 GV.Pipe

/-- a group whose values are all null reports the neutral result: 0 for sum / count /
sum of squares, the kind's null otherwise — and its row count is still reported by `size`/`last` -/
theorem all_null_group_neutral (kn : Kernel) (k : Kind) (vs : List Val) (h : ∀ v ∈ vs, isNull k v = true) :
    (specKernel kn k vs).1 =
      match kn with
      | .size => .num vs.length
      | .count | .sum | .sumSquares => .num 0
      | .sumNoSkip => sumVals vs
      | .min | .max | .first | .last => nullValue k := by
  have hnn : nonNull k vs = [] := by
    simp only [nonNull, List.filter_eq_nil_iff]
    intro v hv; simp [h v hv]
  cases kn <;> simp [specKernel, hnn, sumVals, sumSqVals, accOf]

/-- the count component of `count` is the number of non-null values; of `size` the number of rows -/
theorem count_counts_nonnull (k : Kind) (vs : List Val) :
    (specKernel .count k vs).2 = (nonNull k vs).length ∧ (specKernel .size k vs).2 = vs.length := by
  simp [specKernel]

/-- `first`/`last` follow row order: the first / last non-null value of the group -/
theorem first_last_row_order (k : Kind) (vs : List Val) :
    (specKernel .first k vs).1 = (nonNull k vs).head?.getD (nullValue k) ∧
    (specKernel .last k vs).1 = (nonNull k vs).getLast?.getD (nullValue k) := by
  simp [specKernel]

/-- the labels of the specification are exactly the keys that have at least one selected row -/
theorem spec_labels_exactly_selected (kn : Kernel) (k : Kind) (keys : List (Option Key)) (vals : List Val)
    (mask : Mask) (sort : Bool) (sel : List (Option Key × Val)) (r : List (Key × Partial))
    (hsel : selectGen (keys.zip vals) mask = some sel)
    (hr : specReduce kn k keys vals mask sort = some r) (l : Key)
    (hsub : ∀ x ∈ sel, x ∈ keys.zip vals) :
    l ∈ r.map (·.1) ↔ ∃ v, (some l, v) ∈ sel := by
  simp only [specReduce, hsel, Option.some.injEq] at hr
  subst hr
  simp only [List.map_map, List.mem_map, Function.comp]
  have hperm : ∀ ls : List Key, l ∈ (if sort then sortLabels ls else ls) ↔ l ∈ ls := by
    intro ls
    split
    · exact (List.mergeSort_perm ls keyLe).mem_iff
    · exact Iff.rfl
  constructor
  · rintro ⟨a, ha, rfl⟩
    rw [hperm] at ha
    simp only [List.mem_filter, List.mem_filterMap, decide_eq_true_eq] at ha
    obtain ⟨_, ⟨x, hx, hxl⟩⟩ := ha
    exact ⟨x.2, by rw [← hxl]; exact hx⟩
  · rintro ⟨v, hv⟩
    refine ⟨l, ?_, rfl⟩
    rw [hperm]
    simp only [List.mem_filter, List.mem_filterMap, decide_eq_true_eq, mem_dedup, id]
    refine ⟨⟨some l, ?_, rfl⟩, ⟨(some l, v), hv, rfl⟩⟩
    have := hsub _ hv
    exact (List.of_mem_zip this).1

/-- **the public reduction pipeline returns the specification**: factorization, the kernel under any mask /
thread count, the observed-label filter and the label ordering together give exactly the labels that have a
selected row (ascending or in first-appearance order), each with the per-group definition over its selected rows -/
theorem modelReduce_eq_specReduce (kn : Kernel) (k : Kind) (hk : k.Supported) (keys : List (Option Key)) (vals : List Val)
    (mask : Mask) (sort : Bool) (threads : Nat) (hlen : keys.length = vals.length) (hwf : ∀ v ∈ vals, WF k v)
    (hm : ∀ m, mask = .bool m → m.length = keys.length) (res : List (Key × Partial))
    (h : modelReduce modelReducers kn k keys vals mask sort threads = some res) :
    specReduce kn k keys vals mask sort = some res := by
  unfold modelReduce at h
  simp only [factorizeFirst] at h
  generalize hlab : dedup (keys.filterMap id) = labels at h
  have hnd : labels.Nodup := by rw [← hlab]; exact nodup_dedup _
  have hkeylab : ∀ ky ∈ keys, ∀ x, ky = some x → x ∈ labels := by
    intro ky hky x hx
    rw [← hlab, mem_dedup, List.mem_filterMap]
    exact ⟨ky, hky, by simp [hx]⟩
  rw [zip_codes_vals, zip_codes_codes labels keys vals hlen] at h
  have hzlen : (keys.zip vals).length = keys.length := by simp [hlen]
  split at h
  · rename_i p cnt hp hcnt
    simp only [Option.some.injEq] at h
    -- the selection on the original rows
    have hm1 : ∀ m, mask = .bool m → m.length = ((keys.zip vals).map (fun r => (codeOf labels r.1, r.2))).length := by
      intro m hmm; rw [List.length_map, hzlen]; exact hm m hmm
    have hm2 : ∀ m, mask = .bool m → m.length = ((keys.zip vals).map (fun r => (codeOf labels r.1, Val.num (codeOf labels r.1)))).length := by
      intro m hmm; rw [List.length_map, hzlen]; exact hm m hmm
    have hwf1 : ∀ r ∈ (keys.zip vals).map (fun r => (codeOf labels r.1, r.2)), WF k r.2 := by
      intro r hr
      obtain ⟨r0, hr0, rfl⟩ := List.mem_map.mp hr
      exact hwf _ (List.of_mem_zip hr0).2
    obtain ⟨sel2, hsel2, hcnt2⟩ := size_kernel_count _ mask cnt hm2 hcnt
    cases hsel : selectGen (keys.zip vals) mask with
    | none =>
      unfold selectRows at hsel2
      rw [selectGen_map, hsel] at hsel2
      cases hsel2
    | some sel =>
      have hsub : ∀ r ∈ sel, r ∈ keys.zip vals := selectGen_mem _ mask sel hsel
      have hrkey : ∀ r ∈ sel, ∀ x, r.1 = some x → x ∈ labels := fun r hr x hx =>
        hkeylab r.1 (List.of_mem_zip (hsub r hr)).1 x hx
      -- F2: counts
      have hsel2' : sel2 = sel.map (fun r => (codeOf labels r.1, Val.num (codeOf labels r.1))) := by
        unfold selectRows at hsel2
        rw [selectGen_map, hsel] at hsel2
        simpa using hsel2.symm
      have hfilt : ∀ (g : Nat) (hg : g < labels.length),
          sel.filter (fun r => decide (codeOf labels r.1 = Int.ofNat g)) = sel.filter (fun r => decide (r.1 = some labels[g])) := by
        intro g hg
        apply List.filter_congr
        intro r hr
        have := codeOf_eq_ofNat_iff labels hnd r.1 (hrkey r hr) g hg
        simp only [decide_eq_decide]
        exact this
      have F2 : ∀ (g : Nat) (hg : g < labels.length),
          (cnt (Int.ofNat g)).2 = ((sel.filter (fun r => decide (r.1 = some labels[g]))).length : Int) := by
        intro g hg
        rw [hcnt2 (Int.ofNat g) (by simp), hsel2', ← hfilt g hg]
        simp [valsOf, List.filter_map, Function.comp_def]
      -- F1: values
      have F1 : ∀ (g : Nat) (hg : g < labels.length),
          p (Int.ofNat g) = specKernel kn k ((sel.filter (fun r => decide (r.1 = some labels[g]))).map (·.2)) := by
        intro g hg
        obtain ⟨sel1, hsel1, hp1⟩ := groupKernel_eq_def kn k hk _ mask threads none p hwf1 hm1 hp (Int.ofNat g) (by simp)
        unfold selectRows at hsel1
        rw [selectGen_map, hsel] at hsel1
        have : sel1 = sel.map (fun r => (codeOf labels r.1, r.2)) := by simpa using hsel1.symm
        rw [hp1, this, ← hfilt g hg]
        simp [valsOf, List.filter_map, Function.comp_def]
      -- F3: the observed filter
      have F3 : ∀ (g : Nat) (hg : g < labels.length),
          (decide ((p (Int.ofNat g)).2 > 0) || decide ((cnt (Int.ofNat g)).2 > 0)) = decide (labels[g] ∈ sel.filterMap (·.1)) := by
        intro g hg
        have hiff : (sel.filter (fun r => decide (r.1 = some labels[g]))) ≠ [] ↔ labels[g] ∈ sel.filterMap (·.1) := by
          rw [List.mem_filterMap]
          constructor
          · intro hne
            obtain ⟨r, hr⟩ := List.exists_mem_of_ne_nil _ hne
            have := List.mem_filter.mp hr
            exact ⟨r, this.1, by simpa using this.2⟩
          · rintro ⟨r, hr, hr1⟩ hc
            have : r ∈ sel.filter (fun r => decide (r.1 = some labels[g])) := List.mem_filter.mpr ⟨hr, by simpa using hr1⟩
            rw [hc] at this; cases this
        by_cases hmem : labels[g] ∈ sel.filterMap (·.1)
        · have hne := hiff.mpr hmem
          have : (cnt (Int.ofNat g)).2 > 0 := by
            rw [F2 g hg]
            have := List.length_pos_iff.mpr hne
            omega
          simp [hmem]
          exact Or.inr this
        · have hnil : sel.filter (fun r => decide (r.1 = some labels[g])) = [] := by
            by_cases hc : sel.filter (fun r => decide (r.1 = some labels[g])) = []
            · exact hc
            · exact absurd (hiff.mp hc) hmem
          have h1 : ¬ (p (Int.ofNat g)).2 > 0 := by
            intro hpos
            rw [F1 g hg] at hpos
            have := specKernel_count_pos kn k _ hpos
            rw [hnil] at this
            exact this rfl
          have h2 : ¬ (cnt (Int.ofNat g)).2 > 0 := by
            rw [F2 g hg, hnil]; simp
          simp [hmem]
          exact ⟨Int.not_lt.mp h1, Int.not_lt.mp h2⟩
      -- assemble
      have hobs : (List.range labels.length).filter (fun g => decide ((p (Int.ofNat g)).2 > 0) || decide ((cnt (Int.ofNat g)).2 > 0))
          = (List.range labels.length).filter (fun g => decide (labels.getD g [] ∈ sel.filterMap (·.1))) := by
        apply List.filter_congr
        intro g hg
        have hg' : g < labels.length := List.mem_range.mp hg
        rw [F3 g hg', getD_lt labels g hg']
      rw [hobs] at h
      have hlabels' : labels.filter (fun l => decide (l ∈ sel.filterMap (·.1)))
          = ((List.range labels.length).filter (fun g => decide (labels.getD g [] ∈ sel.filterMap (·.1)))).map (fun g => labels.getD g []) := by
        conv => lhs; rw [← range_map_getD labels]
        rw [List.filter_map]
        rfl
      have hG : ∀ g ∈ (List.range labels.length).filter (fun g => decide (labels.getD g [] ∈ sel.filterMap (·.1))),
          (labels.getD g [], p (Int.ofNat g)) =
            (fun l => (l, specKernel kn k ((sel.filter (fun r => r.1 = some l)).map (·.2)))) (labels.getD g []) := by
        intro g hg
        have hg' : g < labels.length := List.mem_range.mp (List.mem_filter.mp hg).1
        rw [getD_lt labels g hg', F1 g hg']
      unfold specReduce
      simp only [hsel, hlab]
      congr 1
      rw [← h]
      cases sort
      · simp only [Bool.false_eq_true, if_false]
        rw [hlabels', List.map_map]
        apply List.map_congr_left
        intro g hg
        exact (hG g hg).symm
      · simp only [if_true]
        rw [hlabels']
        unfold sortLabels
        rw [← List.map_mergeSort (r := fun a b => keyLe (labels.getD a []) (labels.getD b [])) (s := keyLe)
          (f := fun g => labels.getD g []) (by intro a _ b _; rfl)]
        rw [List.map_map]
        apply List.map_congr_left
        intro g hg
        exact (hG g ((List.mergeSort_perm _ _).mem_iff.mp hg)).symm
  · cases h


end GV.C01
