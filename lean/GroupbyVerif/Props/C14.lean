import GroupbyVerif.Props.C04
import GroupbyVerif.Lemmas.Margins

/-!
# C14 — Margins and cross-tabulation totals equal the aggregate of what they summarise

`add_row_margin` computes an `All` row by re-aggregating the *per-group results* over the other
levels.  That equals the direct aggregation over the rows it summarises because the partial
results form a monoid (C04) and the labels partition the rows.
-/

namespace GV.C14
open GV

variable {κ : Type} [DecidableEq κ]

theorem sum_map_zero {α : Type} (l : List α) : (l.map (fun _ => (0 : Int))).sum = 0 := by
  induction l with
  | nil => rfl
  | cons a as ih => simp [ih]

def gsum (rows : List (κ × Int)) (ℓ : κ) : Int := ((rows.filter (fun r => r.1 = ℓ)).map (·.2)).sum

theorem gsum_cons (r : κ × Int) (rows : List (κ × Int)) (ℓ : κ) :
    gsum (r :: rows) ℓ = (if r.1 = ℓ then r.2 else 0) + gsum rows ℓ := by
  unfold gsum
  by_cases h : r.1 = ℓ <;> simp [List.filter_cons, h]

theorem sum_map_add (f g : κ → Int) (ls : List κ) :
    (ls.map (fun ℓ => f ℓ + g ℓ)).sum = (ls.map f).sum + (ls.map g).sum := by
  induction ls with
  | nil => simp
  | cons a as ih => simp [ih]; omega

theorem sum_indicator (k : κ) (v : Int) (labels : List κ) (hnd : labels.Nodup) (hk : k ∈ labels) :
    (labels.map (fun ℓ => if k = ℓ then v else 0)).sum = v := by
  induction labels with
  | nil => simp at hk
  | cons a as ih =>
    have hnd' := (List.nodup_cons.mp hnd)
    by_cases ha : k = a
    · subst ha
      have hz : (as.map (fun ℓ => if k = ℓ then v else 0)).sum = 0 := by
        have : ∀ ℓ ∈ as, (if k = ℓ then v else 0) = (0 : Int) := by
          intro ℓ hℓ
          have : k ≠ ℓ := fun e => hnd'.1 (e ▸ hℓ)
          simp [this]
        rw [List.map_congr_left this]
        exact sum_map_zero as
      simp [hz]
    · have hk' : k ∈ as := by
        cases hk with
        | head => exact absurd rfl ha
        | tail _ h => exact h
      simp [ha, ih hnd'.2 hk']

/-- **sum / count / size margins**: the sum over the (distinct) labels of the per-label sums equals the
direct sum over all selected rows — re-aggregating per-group results gives the total -/
theorem margin_sum_eq_direct (rows : List (κ × Int)) (labels : List κ) (hnd : labels.Nodup)
    (hcov : ∀ r ∈ rows, r.1 ∈ labels) :
    (labels.map (gsum rows)).sum = (rows.map (·.2)).sum := by
  induction rows with
  | nil =>
    have : ∀ ℓ ∈ labels, gsum ([] : List (κ × Int)) ℓ = 0 := by intro ℓ _; simp [gsum]
    rw [List.map_congr_left this]
    simpa using sum_map_zero labels
  | cons r rs ih =>
    have hcov' : ∀ r' ∈ rs, r'.1 ∈ labels := fun r' h => hcov r' (List.mem_cons_of_mem _ h)
    have hr : r.1 ∈ labels := hcov r (List.mem_cons_self ..)
    have : (labels.map (gsum (r :: rs))) = labels.map (fun ℓ => (if r.1 = ℓ then r.2 else 0) + gsum rs ℓ) := by
      apply List.map_congr_left; intro ℓ _; exact gsum_cons r rs ℓ
    rw [this, sum_map_add, sum_indicator r.1 r.2 labels hnd hr, ih hcov']
    simp

/-- **min / max margins (null-aware)**: merging the per-group partial results with the count-aware merge
gives the partial of all rows: the extreme of the extremes is the extreme, and groups whose
values are all null (count 0) do not disturb it.  This is the block theorem of C04 with "block" =
"group". -/
theorem margin_extremum_eq_direct (kn : Kernel) (k : Kind) (hk : k.Supported) (groups : List (List Val))
    (hwf : ∀ g ∈ groups, ∀ v ∈ g, WF k v) :
    (groups.map fun vs => runRed (kn.red modelReducers k) (kn.init k) vs).foldl
        (mergePair (kn.mergeRed modelReducers k)) (kn.init k, 0)
      = runRed (kn.red modelReducers k) (kn.init k) groups.flatten := by
  obtain ⟨Good, hm⟩ := C04.kernel_mergeOK kn k hk
  have := hm.merge_blocks_from_empty groups hwf
  simpa [runRed] using this

/-- the mean-of-means trap: groups {1} and {3, 5, 7}: mean of means = 3, true mean = 4 -/
example : ((1 : Rat) / 1 + (3 + 5 + 7) / 3) / 2 = 3 ∧ ((1 + (3 + 5 + 7) : Rat)) / (1 + 3) = 4 := by
  constructor <;> decide +kernel

/-- a cross-tabulation cell is the two-key group result; its row / column margins are the one-way
aggregations: instance of `margin_sum_eq_direct` with the labels of the *other* key -/
theorem crosstab_margin_eq_oneway (rows : List ((κ × κ) × Int)) (r : κ) (cols : List κ) (hnd : cols.Nodup)
    (hcov : ∀ x ∈ rows, x.1.1 = r → x.1.2 ∈ cols) :
    (cols.map fun c => gsum rows (r, c)).sum = ((rows.filter (fun x => x.1.1 = r)).map (·.2)).sum := by
  have h := margin_sum_eq_direct ((rows.filter (fun x => x.1.1 = r)).map (fun x => (x.1.2, x.2))) cols hnd
    (by
      intro y hy
      simp only [List.mem_map, List.mem_filter, decide_eq_true_eq] at hy
      obtain ⟨x, ⟨hx, hxr⟩, rfl⟩ := hy
      exact hcov x hx hxr)
  have hg : ∀ c, gsum ((rows.filter (fun x => x.1.1 = r)).map (fun x => (x.1.2, x.2))) c = gsum rows (r, c) := by
    intro c
    simp only [gsum, List.filter_map, List.map_map, List.filter_filter]
    congr 1
    congr 1
    apply List.filter_congr
    intro x _
    obtain ⟨⟨a, b⟩, v⟩ := x
    by_cases h1 : b = c <;> by_cases h2 : a = r <;> simp [h1, h2]
  rw [List.map_congr_left (fun c _ => (hg c).symm), h]
  simp [List.map_map, Function.comp_def]

example : gsum [((1 : Nat), (5 : Int)), (2, 7), (1, -2)] 1 = 3 := by decide

/-! ## `add_row_margin` end to end

`Model/Margins.lean` is the executable model of the recursive function (tied to the source by the
driver op `margins`).  A label with margins is a pattern, `none` = `'All'`. -/

theorem omax_laws : AggLaws omax none := by
  refine ⟨?_, ?_, ?_⟩
  · intro a b c
    cases a <;> cases b <;> cases c <;> simp only [omax] <;> congr 1 <;> split <;> split <;> (try split) <;> omega
  · intro a b
    cases a <;> cases b <;> simp only [omax] <;> congr 1 <;> split <;> split <;> omega
  · intro a; cases a <;> rfl

theorem omin_laws : AggLaws omin none := by
  refine ⟨?_, ?_, ?_⟩
  · intro a b c
    cases a <;> cases b <;> cases c <;> simp only [omin] <;> congr 1 <;> split <;> split <;> (try split) <;> omega
  · intro a b
    cases a <;> cases b <;> simp only [omin] <;> congr 1 <;> split <;> split <;> omega
  · intro a; cases a <;> rfl

/-- the per-group results of a reduction over raw rows (label tuple, value) -/
def perGroup {M : Type} (op : M → M → M) (e : M) (rows : List (List κ × M)) : List (List κ × M) :=
  (dedup (rows.map (·.1))).map fun l => (l, aggM op e ((rows.filter fun r => r.1 = l).map (·.2)))

theorem perGroup_nodup {M : Type} (op : M → M → M) (e : M) (rows : List (List κ × M)) :
    ((perGroup op e rows).map (·.1)).Nodup := by
  have : (perGroup op e rows).map (·.1) = dedup (rows.map (·.1)) := by
    simp [perGroup, List.map_map, Function.comp_def]
  rw [this]; exact nodup_dedup _

theorem perGroup_length {M : Type} (op : M → M → M) (e : M) (rows : List (List κ × M)) (n : Nat)
    (hlen : ∀ r ∈ rows, r.1.length = n) : ∀ r ∈ perGroup op e rows, r.1.length = n := by
  intro r hr
  simp only [perGroup, List.mem_map] at hr
  obtain ⟨l, hl, rfl⟩ := hr
  rw [mem_dedup, List.mem_map] at hl
  obtain ⟨s, hs, rfl⟩ := hl
  exact hlen s hs

/-- what a pattern summarises in the table of per-group results is what it summarises in the raw rows -/
theorem directAgg_perGroup {M : Type} {op : M → M → M} {e : M} (h : AggLaws op e) (rows : List (List κ × M))
    (p : Pat κ) : directAgg op e (perGroup op e rows) p = directAgg op e rows p := by
  unfold directAgg perGroup
  rw [List.filter_map, List.map_map]
  have hnd : ((dedup (rows.map (·.1))).filter ((fun r : List κ × M => matchesPat p r.1) ∘ fun l =>
      (l, aggM op e ((rows.filter fun r => r.1 = l).map (·.2))))).Nodup :=
    List.Nodup.sublist List.filter_sublist (nodup_dedup _)
  have hpart := aggM_partition h (fun r : List κ × M => r.1) (·.2) _ hnd rows
  simp only [Function.comp_def] at hpart ⊢
  rw [hpart]
  congr 2
  apply List.filter_congr
  intro r hr
  have hmem : r.1 ∈ dedup (rows.map (·.1)) := by
    rw [mem_dedup]; exact List.mem_map_of_mem (f := (·.1)) hr
  simp [List.mem_filter, hmem]

/-- **margins equal the aggregate of what they summarise** (any commutative-monoid aggregation: sum /
count / size with `+`, null-skipping max / min): every row `add_row_margin` returns for the table
of per-group results — ordinary or with `'All'` at any requested levels — holds the aggregate of
exactly the raw rows whose label matches the pattern -/
theorem margins_eq_aggregate_of_rows {M : Type} {op : M → M → M} {e : M} (h : AggLaws op e)
    (n : Nat) (hn : 0 < n) (levels : Option (List Nat)) (hlv : ∀ lv, levels = some lv → ∀ l ∈ lv, l < n)
    (rows : List (List κ × M)) (hlen : ∀ r ∈ rows, r.1.length = n)
    (r : Pat κ × M) (hr : r ∈ addRowMargin op e n levels (perGroup op e rows)) :
    r.2 = directAgg op e rows r.1 := by
  rw [← directAgg_perGroup h]
  exact (addRowMargin_sound h n levels _ hn (perGroup_length op e rows n hlen) (perGroup_nodup op e rows) hlv r hr).2

/-- instances: sum (also count and size, which are sums of per-group counts), max, min -/
theorem sum_margins (n : Nat) (hn : 0 < n) (levels : Option (List Nat)) (hlv : ∀ lv, levels = some lv → ∀ l ∈ lv, l < n)
    (rows : List (List κ × Int)) (hlen : ∀ r ∈ rows, r.1.length = n)
    (r : Pat κ × Int) (hr : r ∈ addRowMargin (fun a b : Int => a + b) 0 n levels (perGroup (fun a b : Int => a + b) 0 rows)) :
    r.2 = ((rows.filter fun s => matchesPat r.1 s.1).map (·.2)).sum := by
  rw [margins_eq_aggregate_of_rows sum_laws n hn levels hlv rows hlen r hr]
  simp only [directAgg, aggM]
  generalize ((rows.filter fun s => matchesPat r.1 s.1).map (·.2)) = xs
  induction xs with
  | nil => rfl
  | cons x xs ih => simp [ih]

theorem max_margins (n : Nat) (hn : 0 < n) (levels : Option (List Nat)) (hlv : ∀ lv, levels = some lv → ∀ l ∈ lv, l < n)
    (rows : List (List κ × Option Int)) (hlen : ∀ r ∈ rows, r.1.length = n)
    (r : Pat κ × Option Int) (hr : r ∈ addRowMargin omax none n levels (perGroup omax none rows)) :
    r.2 = directAgg omax none rows r.1 :=
  margins_eq_aggregate_of_rows omax_laws n hn levels hlv rows hlen r hr

theorem min_margins (n : Nat) (hn : 0 < n) (levels : Option (List Nat)) (hlv : ∀ lv, levels = some lv → ∀ l ∈ lv, l < n)
    (rows : List (List κ × Option Int)) (hlen : ∀ r ∈ rows, r.1.length = n)
    (r : Pat κ × Option Int) (hr : r ∈ addRowMargin omin none n levels (perGroup omin none rows)) :
    r.2 = directAgg omin none rows r.1 :=
  margins_eq_aggregate_of_rows omin_laws n hn levels hlv rows hlen r hr

/-- the ordinary rows are returned unchanged -/
theorem ordinary_rows_unchanged {M : Type} (op : M → M → M) (e : M) (n : Nat) (hn : 0 < n) (levels : Option (List Nat))
    (hlv : ∀ lv, levels = some lv → ∀ l ∈ lv, l < n)
    (data : List (List κ × M)) (hlen : ∀ r ∈ data, r.1.length = n) (s : List κ × M) (hs : s ∈ data) :
    s.1.map some ∈ (addRowMargin op e n levels data).map (·.1) := by
  apply addRowMargin_complete n levels data hn hlen hlv
  · exact ⟨s, hs, by simp [matchesPat_map_some]⟩
  · intro _ l _ hall
    rw [List.getElem?_map] at hall
    cases hsl : s.1[l]? <;> simp [hsl] at hall

/-- **`'All'` only where requested, and every requested total is there**: for a table with at least two
levels the patterns of the output are exactly those that summarise at least one row and have `'All'`
only at requested levels -/
theorem margin_labels_exact {M : Type} (op : M → M → M) (e : M) (n : Nat) (levels : Option (List Nat))
    (hlv : ∀ lv, levels = some lv → ∀ l ∈ lv, l < n + 2)
    (data : List (List κ × M)) (hne : data ≠ []) (hlen : ∀ r ∈ data, r.1.length = n + 2) (p : Pat κ) :
    p ∈ (addRowMargin op e (n + 2) levels data).map (·.1) ↔
      (∃ s ∈ data, matchesPat p s.1 = true) ∧
        ∀ l, l < n + 2 → p[l]? = some none → l ∈ levels.getD (List.range (n + 2)) := by
  constructor
  · intro hp
    obtain ⟨r, hr, rfl⟩ := List.mem_map.mp hp
    exact ⟨addRowMargin_witness (n + 2) levels data (by omega) hne hlen hlv r hr,
      fun l hl hall => addRowMargin_levels n levels data r hr l hl hall⟩
  · rintro ⟨hw, hreq⟩
    exact addRowMargin_complete (n + 2) levels data (by omega) hlen hlv p hw (fun _ => hreq)

/-- pasting summaries over each other (`out.loc[summary.index] = summary`) is harmless: two output rows
with the same label hold the same value -/
theorem same_label_same_value {M : Type} {op : M → M → M} {e : M} (h : AggLaws op e)
    (n : Nat) (hn : 0 < n) (levels : Option (List Nat)) (hlv : ∀ lv, levels = some lv → ∀ l ∈ lv, l < n)
    (data : List (List κ × M)) (hlen : ∀ r ∈ data, r.1.length = n) (hnd : (data.map (·.1)).Nodup)
    (r r' : Pat κ × M) (hr : r ∈ addRowMargin op e n levels data) (hr' : r' ∈ addRowMargin op e n levels data)
    (hp : r.1 = r'.1) : r.2 = r'.2 := by
  rw [(addRowMargin_sound h n levels data hn hlen hnd hlv r hr).2,
    (addRowMargin_sound h n levels data hn hlen hnd hlv r' hr').2, hp]

theorem lookupP_mem {α β : Type} [DecidableEq α] (a : α) : ∀ (l : List (α × β)), a ∈ l.map (·.1) →
    ∃ v, lookupP a l = some v ∧ (a, v) ∈ l
  | [], h => by simp at h
  | r :: rs, h => by
    by_cases hr : r.1 = a
    · exact ⟨r.2, by simp [lookupP, hr], by rw [← hr]; exact List.mem_cons_self ..⟩
    · have : a ∈ rs.map (·.1) := by
        simp only [List.map_cons, List.mem_cons] at h
        rcases h with h | h
        · exact absurd h.symm hr
        · exact h
      obtain ⟨v, hv, hm⟩ := lookupP_mem a rs this
      exact ⟨v, by simp [lookupP, hr, hv], List.mem_cons_of_mem _ hm⟩

/-- **mean margins**: a margin row of a mean is (sum of the summarised groups' sums) over (sum of their
counts) — the total sum over the total count, NOT the mean of the group means -/
theorem mean_margin_is_sum_over_count (n : Nat) (hn : 0 < n) (levels : Option (List Nat))
    (hlv : ∀ lv, levels = some lv → ∀ l ∈ lv, l < n)
    (data : List (List κ × (Int × Int))) (hne : data ≠ []) (hlen : ∀ r ∈ data, r.1.length = n)
    (hnd : (data.map (·.1)).Nodup)
    (r : Pat κ × Int × Option Int) (hr : r ∈ meanMargins n levels data) :
    r.2.1 = directAgg (fun a b : Int => a + b) 0 (data.map fun d => (d.1, d.2.1)) r.1 ∧
    r.2.2 = some (directAgg (fun a b : Int => a + b) 0 (data.map fun d => (d.1, d.2.2)) r.1) := by
  simp only [meanMargins, List.mem_map] at hr
  obtain ⟨q, hq, rfl⟩ := hr
  have hlenS : ∀ r ∈ data.map (fun d => (d.1, d.2.1)), r.1.length = n := by
    intro r hr; obtain ⟨d, hd, rfl⟩ := List.mem_map.mp hr; exact hlen d hd
  have hlenC : ∀ r ∈ data.map (fun d => (d.1, d.2.2)), r.1.length = n := by
    intro r hr; obtain ⟨d, hd, rfl⟩ := List.mem_map.mp hr; exact hlen d hd
  have hndS : ((data.map fun d => (d.1, d.2.1)).map (·.1)).Nodup := by simpa [List.map_map, Function.comp_def] using hnd
  have hndC : ((data.map fun d => (d.1, d.2.2)).map (·.1)).Nodup := by simpa [List.map_map, Function.comp_def] using hnd
  have hS := addRowMargin_sound sum_laws n levels _ hn hlenS hndS hlv q hq
  refine ⟨hS.2, ?_⟩
  -- the same label is a row of the count margins
  have hneS : (data.map fun d => (d.1, d.2.1)) ≠ [] := by simpa using hne
  obtain ⟨s, hs, hm⟩ := addRowMargin_witness n levels _ hn hneS hlenS hlv q hq
  obtain ⟨d, hd, rfl⟩ := List.mem_map.mp hs
  have hqC : q.1 ∈ (addRowMargin (fun a b : Int => a + b) 0 n levels (data.map fun d => (d.1, d.2.2))).map (·.1) := by
    apply addRowMargin_complete n levels _ hn hlenC hlv q.1
    · exact ⟨(d.1, d.2.2), List.mem_map.mpr ⟨d, hd, rfl⟩, hm⟩
    · intro h2 l hl hall
      obtain ⟨m, rfl⟩ : ∃ m, n = m + 2 := ⟨n - 2, by omega⟩
      exact addRowMargin_levels m levels _ q hq l hl hall
  obtain ⟨v, hv, hmem⟩ := lookupP_mem q.1 _ hqC
  have hC := (addRowMargin_sound sum_laws n levels _ hn hlenC hndC hlv (q.1, v) hmem).2
  simp only at hC ⊢
  rw [hv, hC]

/-! ### cross-tabulation: which levels get totals

`crosstab(index, columns, margins=...)` groups by `index + columns` and asks `add_row_margin` for the
row-key levels (`margins in (True, "row")`) and / or the column-key levels (`True`, `"column"`), then
unstacks the column levels.  A cell is the output row whose pattern is (row label ++ column label). -/

inductive CtMargins where
  | off | both | row | column
deriving DecidableEq, Repr

def crosstabLevels (n0 n1 : Nat) : CtMargins → List Nat
  | .off => []
  | .both => List.range n0 ++ (List.range n1).map (· + n0)
  | .row => List.range n0
  | .column => (List.range n1).map (· + n0)

theorem crosstabLevels_lt (n0 n1 : Nat) (m : CtMargins) : ∀ l ∈ crosstabLevels n0 n1 m, l < n0 + n1 := by
  intro l hl
  cases m <;> simp only [crosstabLevels, List.mem_append, List.mem_range, List.mem_map, List.not_mem_nil] at hl
  · rcases hl with hl | ⟨a, ha, rfl⟩ <;> omega
  · omega
  · obtain ⟨a, ha, rfl⟩ := hl; omega

/-- **cross-tab totals**: every cell and every total of the table holds the aggregate of the rows its
(row label, column label) pattern summarises; a total over a row key appears only with
`margins in (True, "row")`, a total over a column key only with `margins in (True, "column")` -/
theorem crosstab_cells_and_totals {M : Type} {op : M → M → M} {e : M} (h : AggLaws op e) (n0 n1 : Nat)
    (hn : 2 ≤ n0 + n1) (m : CtMargins) (rows : List (List κ × M)) (hlen : ∀ r ∈ rows, r.1.length = n0 + n1)
    (r : Pat κ × M) (hr : r ∈ addRowMargin op e (n0 + n1) (some (crosstabLevels n0 n1 m)) (perGroup op e rows)) :
    r.2 = directAgg op e rows r.1 ∧
    (∀ l, l < n0 → r.1[l]? = some none → m = .both ∨ m = .row) ∧
    (∀ l, n0 ≤ l → l < n0 + n1 → r.1[l]? = some none → m = .both ∨ m = .column) := by
  have hlv : ∀ lv, some (crosstabLevels n0 n1 m) = some lv → ∀ l ∈ lv, l < n0 + n1 := by
    intro lv hlv; cases hlv; exact crosstabLevels_lt n0 n1 m
  refine ⟨margins_eq_aggregate_of_rows h (n0 + n1) (by omega) _ hlv rows hlen r hr, ?_, ?_⟩
  · intro l hl hall
    obtain ⟨k, hk⟩ : ∃ k, n0 + n1 = k + 2 := ⟨n0 + n1 - 2, by omega⟩
    rw [hk] at hr
    have := addRowMargin_levels k _ _ r hr l (by omega) hall
    cases m <;> simp only [Option.getD_some, crosstabLevels, List.mem_append, List.mem_range, List.mem_map,
      List.not_mem_nil] at this
    · exact Or.inl rfl
    · exact Or.inr rfl
    · obtain ⟨a, _, rfl⟩ := this; omega
  · intro l hl0 hl hall
    obtain ⟨k, hk⟩ : ∃ k, n0 + n1 = k + 2 := ⟨n0 + n1 - 2, by omega⟩
    rw [hk] at hr
    have := addRowMargin_levels k _ _ r hr l (by omega) hall
    cases m <;> simp only [Option.getD_some, crosstabLevels, List.mem_append, List.mem_range, List.mem_map,
      List.not_mem_nil] at this
    · exact Or.inl rfl
    · omega
    · exact Or.inr rfl

/-- non-vacuity: a sparse two-level table, margins at both levels -/
example : lastWins (addRowMargin (fun a b : Int => a + b) 0 2 none [([1, 1], 5), ([1, 2], 7), ([2, 1], 1)])
    = [([some 1, some 1], 5), ([some 1, some 2], 7), ([some 2, some 1], 1), ([none, some 1], 6), ([none, some 2], 7),
       ([some 1, none], 12), ([some 2, none], 1), ([none, none], 13)] := by decide +kernel

end GV.C14
