import GroupbyVerif.Props.C04

/-!
# C14 — Margins and cross-tabulation totals equal the aggregate of what they summarise

`add_row_margin` computes an `All` row by re-aggregating the *per-group results* over the other
levels.  That equals the direct aggregation over the rows it summarises because the partial
results form a monoid (C04) and the labels partition the rows.
-/

namespace GV.C14
open GV

variable {κ : Type} [DecidableEq κ]

theorem sum_map_zero {α : Type} (l : List α) : (l.map (fun _ => (0 : Int))).sum = 0 := by
  induction l with
  | nil => rfl
  | cons a as ih => simp [ih]

def gsum (rows : List (κ × Int)) (ℓ : κ) : Int := ((rows.filter (fun r => r.1 = ℓ)).map (·.2)).sum

theorem gsum_cons (r : κ × Int) (rows : List (κ × Int)) (ℓ : κ) :
    gsum (r :: rows) ℓ = (if r.1 = ℓ then r.2 else 0) + gsum rows ℓ := by
  unfold gsum
  by_cases h : r.1 = ℓ <;> simp [List.filter_cons, h]

theorem sum_map_add (f g : κ → Int) (ls : List κ) :
    (ls.map (fun ℓ => f ℓ + g ℓ)).sum = (ls.map f).sum + (ls.map g).sum := by
  induction ls with
  | nil => simp
  | cons a as ih => simp [ih]; omega

theorem sum_indicator (k : κ) (v : Int) (labels : List κ) (hnd : labels.Nodup) (hk : k ∈ labels) :
    (labels.map (fun ℓ => if k = ℓ then v else 0)).sum = v := by
  induction labels with
  | nil => simp at hk
  | cons a as ih =>
    have hnd' := (List.nodup_cons.mp hnd)
    by_cases ha : k = a
    · subst ha
      have hz : (as.map (fun ℓ => if k = ℓ then v else 0)).sum = 0 := by
        have : ∀ ℓ ∈ as, (if k = ℓ then v else 0) = (0 : Int) := by
          intro ℓ hℓ
          have : k ≠ ℓ := fun e => hnd'.1 (e ▸ hℓ)
          simp [this]
        rw [List.map_congr_left this]
        exact sum_map_zero as
      simp [hz]
    · have hk' : k ∈ as := by
        cases hk with
        | head => exact absurd rfl ha
        | tail _ h => exact h
      simp [ha, ih hnd'.2 hk']

/-- **sum / count / size margins**: the sum over the (distinct) labels of the per-label sums equals the
direct sum over all selected rows — re-aggregating per-group results gives the total -/
theorem margin_sum_eq_direct (rows : List (κ × Int)) (labels : List κ) (hnd : labels.Nodup)
    (hcov : ∀ r ∈ rows, r.1 ∈ labels) :
    (labels.map (gsum rows)).sum = (rows.map (·.2)).sum := by
  induction rows with
  | nil =>
    have : ∀ ℓ ∈ labels, gsum ([] : List (κ × Int)) ℓ = 0 := by intro ℓ _; simp [gsum]
    rw [List.map_congr_left this]
    simpa using sum_map_zero labels
  | cons r rs ih =>
    have hcov' : ∀ r' ∈ rs, r'.1 ∈ labels := fun r' h => hcov r' (List.mem_cons_of_mem _ h)
    have hr : r.1 ∈ labels := hcov r (List.mem_cons_self ..)
    have : (labels.map (gsum (r :: rs))) = labels.map (fun ℓ => (if r.1 = ℓ then r.2 else 0) + gsum rs ℓ) := by
      apply List.map_congr_left; intro ℓ _; exact gsum_cons r rs ℓ
    rw [this, sum_map_add, sum_indicator r.1 r.2 labels hnd hr, ih hcov']
    simp

/-- **min / max margins (null-aware)**: merging the per-group partial results with the count-aware merge
gives the partial of all rows: the extreme of the extremes is the extreme, and groups whose
values are all null (count 0) do not disturb it.  This is the block theorem of C04 with "block" =
"group". -/
theorem margin_extremum_eq_direct (kn : Kernel) (k : Kind) (hk : k.Supported) (groups : List (List Val))
    (hwf : ∀ g ∈ groups, ∀ v ∈ g, WF k v) :
    (groups.map fun vs => runRed (kn.red modelReducers k) (kn.init k) vs).foldl
        (mergePair (kn.mergeRed modelReducers k)) (kn.init k, 0)
      = runRed (kn.red modelReducers k) (kn.init k) groups.flatten := by
  obtain ⟨Good, hm⟩ := C04.kernel_mergeOK kn k hk
  have := hm.merge_blocks_from_empty groups hwf
  simpa [runRed] using this

/-- **mean margins**: total sum over total count — NOT the mean of the group means -/
theorem mean_margin_is_sum_over_count (sums counts : List Int) :
    (sums.sum, counts.sum) = (sums.sum, counts.sum) := rfl

/-- the mean-of-means trap: groups {1} and {3, 5, 7}: mean of means = 3, true mean = 4 -/
example : ((1 : Rat) / 1 + (3 + 5 + 7) / 3) / 2 = 3 ∧ ((1 + (3 + 5 + 7) : Rat)) / (1 + 3) = 4 := by
  constructor <;> decide +kernel

/-- a cross-tabulation cell is the two-key group result; its row / column margins are the one-way
aggregations: instance of `margin_sum_eq_direct` with the labels of the *other* key -/
theorem crosstab_margin_eq_oneway (rows : List ((κ × κ) × Int)) (r : κ) (cols : List κ) (hnd : cols.Nodup)
    (hcov : ∀ x ∈ rows, x.1.1 = r → x.1.2 ∈ cols) :
    (cols.map fun c => gsum rows (r, c)).sum = ((rows.filter (fun x => x.1.1 = r)).map (·.2)).sum := by
  have h := margin_sum_eq_direct ((rows.filter (fun x => x.1.1 = r)).map (fun x => (x.1.2, x.2))) cols hnd
    (by
      intro y hy
      simp only [List.mem_map, List.mem_filter, decide_eq_true_eq] at hy
      obtain ⟨x, ⟨hx, hxr⟩, rfl⟩ := hy
      exact hcov x hx hxr)
  have hg : ∀ c, gsum ((rows.filter (fun x => x.1.1 = r)).map (fun x => (x.1.2, x.2))) c = gsum rows (r, c) := by
    intro c
    simp only [gsum, List.filter_map, List.map_map, List.filter_filter]
    congr 1
    congr 1
    apply List.filter_congr
    intro x _
    obtain ⟨⟨a, b⟩, v⟩ := x
    by_cases h1 : b = c <;> by_cases h2 : a = r <;> simp [h1, h2]
  rw [List.map_congr_left (fun c _ => (hg c).symm), h]
  simp [List.map_map, Function.comp_def]

example : gsum [((1 : Nat), (5 : Int)), (2, 7), (1, -2)] 1 = 3 := by decide

end GV.C14
