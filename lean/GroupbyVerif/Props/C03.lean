import GroupbyVerif.Props.C04
import GroupbyVerif.Generated.Constants
import GroupbyVerif.Props.C02

/-!
# C03 — Results do not depend on the execution strategy
-/

namespace GV.C03
open GV

/-! ### `parallel_map`: results are gathered by submission index, not by completion order -/

/-- the gathering loop of `util.parallel_map`: `results[index] = future.result()` in completion order -/
def gather {α : Type} (n : Nat) (completed : List (Nat × α)) : List (Option α) :=
  completed.foldl (fun res c => res.set c.1 (some c.2)) (List.replicate n none)

theorem gather_length {α : Type} (n : Nat) (completed : List (Nat × α)) : (gather n completed).length = n := by
  unfold gather
  suffices H : ∀ (init : List (Option α)), (completed.foldl (fun res c => res.set c.1 (some c.2)) init).length = init.length by
    simpa using H (List.replicate n none)
  induction completed with
  | nil => intro init; rfl
  | cons c cs ih => intro init; simp only [List.foldl_cons]; rw [ih]; simp

theorem foldl_set_not_mem {α : Type} (cs : List (Nat × α)) (l : List (Option α)) (i : Nat)
    (h : i ∉ cs.map (·.1)) : (cs.foldl (fun res c => res.set c.1 (some c.2)) l)[i]? = l[i]? := by
  induction cs generalizing l with
  | nil => rfl
  | cons d ds ih =>
    simp only [List.map_cons, List.mem_cons, not_or] at h
    simp only [List.foldl_cons]
    rw [ih _ h.2, List.getElem?_set_ne (fun e => h.1 e.symm)]

/-- slot `i` holds the result of the task submitted as `i`, whatever the completion order -/
theorem gather_at {α : Type} (n : Nat) (completed : List (Nat × α)) (hnd : (completed.map (·.1)).Nodup)
    (i : Nat) (r : α) (hi : i < n) (hm : (i, r) ∈ completed) : (gather n completed)[i]? = some (some r) := by
  unfold gather
  suffices H : ∀ (init : List (Option α)), i < init.length →
      (completed.foldl (fun res c => res.set c.1 (some c.2)) init)[i]? = some (some r) by
    exact H _ (by simpa using hi)
  induction completed with
  | nil => simp at hm
  | cons c cs ih =>
    intro init hlen
    simp only [List.foldl_cons]
    simp only [List.map_cons, List.nodup_cons] at hnd
    rcases List.mem_cons.mp hm with h | h
    · subst h
      rw [foldl_set_not_mem cs _ i hnd.1]
      simp [hlen]
    · exact ih hnd.2 h _ (by simpa using hlen)

/-- **completion-order independence**: for every permutation of the completion order the gathered
results are exactly the task results in submission order -/
theorem parallel_map_order_independent {α : Type} (results : List α) (completed : List (Nat × α))
    (hperm : completed.Perm (results.zipIdx.map (fun p => (p.2, p.1)))) :
    gather results.length completed = results.map some := by
  apply List.ext_getElem?
  intro i
  by_cases hi : i < results.length
  · have hmem : (i, results[i]) ∈ completed := by
      rw [hperm.mem_iff]
      simp only [List.mem_map]
      exact ⟨(results[i], i), List.mk_mem_zipIdx_iff_getElem?.mpr (List.getElem?_eq_getElem hi), rfl⟩
    have hnd : (completed.map (·.1)).Nodup := by
      have h1 : (completed.map (·.1)).Perm ((results.zipIdx.map (fun p => (p.2, p.1))).map (·.1)) := hperm.map _
      rw [h1.nodup_iff]
      simp only [List.map_map, Function.comp_def]
      have : (results.zipIdx.map fun p => p.2) = List.range' 0 results.length := by
        simpa using List.zipIdx_map_snd 0 results
      rw [this]
      exact List.nodup_range'
    rw [gather_at _ _ hnd i results[i] hi hmem]
    simp [hi]
  · have h1 : (gather results.length completed)[i]? = none := by
      rw [List.getElem?_eq_none_iff, gather_length]; omega
    rw [h1]
    have h2 : (results.map some)[i]? = none := by
      rw [List.getElem?_eq_none_iff]; simp; omega
    rw [h2]

/-! ### threads / value chunking: any two strategies give the same per-group result -/

theorem kernel_strategy_independent (kn : Kernel) (k : Kind) (hk : k.Supported) (rows : List Row) (mask : Mask)
    (t1 t2 : Nat) (v1 v2 : Option (List Nat)) (p q : Int → Partial)
    (hwf : ∀ r ∈ rows, WF k r.2) (hm : ∀ m, mask = .bool m → m.length = rows.length)
    (hp : groupKernel modelReducers kn k rows mask t1 v1 = some p)
    (hq : groupKernel modelReducers kn k rows mask t2 v2 = some q) (g : Int) (hg : 0 ≤ g) :
    p g = q g := by
  obtain ⟨s1, h1, e1⟩ := C04.groupKernel_eq_def kn k hk rows mask t1 v1 p hwf hm hp g hg
  obtain ⟨s2, h2, e2⟩ := C04.groupKernel_eq_def kn k hk rows mask t2 v2 q hwf hm hq g hg
  rw [h1] at h2
  simp only [Option.some.injEq] at h2
  subst h2
  rw [e1, e2]

/-! ### chunk-wise factorization: local codes mapped through the pointer tables are the global codes -/

variable {κ : Type} [DecidableEq κ]

/-- pointer table of one chunk: position of each chunk-local unique in the unified label list
(`Index.get_indexer`) -/
def pointerOf (labels uniques : List κ) : List Nat := uniques.map (labels.idxOf ·)

/-- global code of a row of the chunk through the pointer table; the null code is kept -/
def globalCode (labels : List κ) (chunk : List (Option κ)) (key : Option κ) : Int :=
  let f := factorizeFirst chunk
  let c := codeOf f.2 key
  if c < 0 then -1 else ((pointerOf labels f.2).getD c.toNat 0 : Nat)

/-- **whole vs chunk-wise factorization**: for every row of a chunk, the chunk-local code mapped through
the chunk's pointer table equals the code the row gets against the unified label list directly —
provided the unified list contains the chunk's uniques (it is their de-duplicated union) -/
theorem chunk_route_eq_global (labels : List κ) (chunk : List (Option κ)) (key : Option κ) (hk : key ∈ chunk)
    (_hlab : ∀ x, some x ∈ chunk → x ∈ labels) :
    globalCode labels chunk key = codeOf labels key := by
  cases key with
  | none => simp [globalCode, codeOf]
  | some x =>
    have hx : x ∈ (factorizeFirst chunk).2 := key_mem_labels hk
    have hlt := List.idxOf_lt_length_of_mem hx
    simp only [globalCode, codeOf]
    have hnn : ¬ (((factorizeFirst chunk).2.idxOf x : Nat) : Int) < 0 := by omega
    simp only [hnn, if_false, Int.toNat_natCast, pointerOf]
    rw [List.getD_eq_getElem?_getD, List.getElem?_map, List.getElem?_eq_getElem hlt]
    simp [List.getElem_idxOf hlt]

/-! ### the block-wise strategy, stated about the translated source

`srcRun` runs `Generated.Loops.group_by_reduce` (regenerated from `numba._group_by_reduce` on every run) on one
block of rows; `srcCombine` is the fold of `combine_chunk_results_for_factorized_key` - `combined =
reduce_array_pair(combined, chunk, f, counts=combined_count, y_counts=count); combined_count += count` - written with
the translated `reduce_array_pair`.  The theorem below relates *source functions only*: whatever the block boundaries
(thread split, value chunks, key chunks), the merged partials equal the single pass over all the rows. -/

open LoopBridge in
/-- one block of rows through the translated kernel of `kn` (target of `n` groups) -/
def srcRun (kn : Kernel) (k : Kind) (n : Nat) (b : List Row) : (Int → Val) × (Int → Int) :=
  (Generated.Loops.group_by_reduce k (b.map (·.1)).length (arrOf (b.map (·.1)) 0) (b.map (·.2)).length
    (arrOf (b.map (·.2)) .nan) n (fun _ => kn.init k) (kn.red generatedReducers k) false [] true).1

/-- `combine_chunk_results_for_factorized_key` with the translated `reduce_array_pair` -/
def srcCombine (kn : Kernel) (k : Kind) (n : Nat) (acc : (Int → Val) × (Int → Int)) (bs : List (List Row)) :
    (Int → Val) × (Int → Int) :=
  bs.foldl (fun acc b =>
    let r := srcRun kn k n b
    ((Generated.Loops.reduce_array_pair k n acc.1 n r.1 (kn.mergeRed generatedReducers k) true n acc.2 true n r.2).1,
      fun i => acc.2 i + r.2 i)) acc

theorem zip_fst_snd (b : List Row) : (b.map (·.1)).zip (b.map (·.2)) = b := by
  induction b with
  | nil => rfl
  | cons r rs ih => simp [ih]

theorem srcRun_eq (kn : Kernel) (k : Kind) (n : Nat) (b : List Row) (g : Int) (hg : 0 ≤ g) :
    ((srcRun kn k n b).1 g, (srcRun kn k n b).2 g) = groupByReduce (kn.red modelReducers k) (kn.init k) b g := by
  have h := LoopBridge.group_by_reduce_plain k (kn.red generatedReducers k) (kn.init k) (b.map (·.1)) (b.map (·.2))
    (by simp) n true g hg
  rw [zip_fst_snd, C04.generated_eq_model] at h
  exact h.2

theorem srcCombine_eq (kn : Kernel) (k : Kind) (n : Nat) (bs : List (List Row)) (acc : (Int → Val) × (Int → Int))
    (p : Int → Partial) (hacc : ∀ i : Nat, i < n → (acc.1 i, acc.2 i) = p i) (i : Nat) (hi : i < n) :
    ((srcCombine kn k n acc bs).1 i, (srcCombine kn k n acc bs).2 i)
      = (bs.map (groupByReduce (kn.red modelReducers k) (kn.init k))).foldl (mergeArr (kn.mergeRed modelReducers k)) p i := by
  induction bs generalizing acc p with
  | nil => exact hacc i hi
  | cons b bs ih =>
    simp only [srcCombine, List.foldl_cons, List.map_cons]
    apply ih
    intro j hj
    have hm := C04.source_merge_eq_mergePair kn k n acc.1 (srcRun kn k n b).1 acc.2 (srcRun kn k n b).2 j hj
    have hb := srcRun_eq kn k n b (j : Int) (by omega)
    have ha := hacc j hj
    show ((Generated.Loops.reduce_array_pair k n acc.1 n (srcRun kn k n b).1 (kn.mergeRed generatedReducers k) true n
      acc.2 true n (srcRun kn k n b).2).1 j, acc.2 j + (srcRun kn k n b).2 j) = _
    rw [hm.2, ha, hb]
    rfl

/-- **block-wise = single pass, at the source level**: for every kernel and supported dtype class and every list of
blocks (any number, any boundaries, empty blocks, groups absent from a block), the translated kernel run block by
block and merged by the translated `reduce_array_pair` in the order of `combine_chunk_results_for_factorized_key`
gives, at every group, what the translated kernel gives in one pass over all the rows -/
theorem source_blockwise_eq_single_pass (kn : Kernel) (k : Kind) (hk : k.Supported) (n : Nat)
    (b0 : List Row) (bs : List (List Row)) (hwf : C04.BlocksWF k (b0 :: bs)) (g : Nat) (hg : g < n) :
    let m := srcCombine kn k n (srcRun kn k n b0) bs
    let r := srcRun kn k n (b0 :: bs).flatten
    (m.1 g, m.2 g) = (r.1 g, r.2 g) := by
  intro m r
  have h1 := srcCombine_eq kn k n bs (srcRun kn k n b0) (groupByReduce (kn.red modelReducers k) (kn.init k) b0)
    (fun i _ => srcRun_eq kn k n b0 (i : Int) (by omega)) g hg
  obtain ⟨p, hp, hpg⟩ := C04.blockwise_eq_single_pass kn k hk b0 bs hwf (g : Int) (by omega)
  simp only [List.map_cons, combine, Option.some.injEq] at hp
  subst hp
  show ((srcCombine kn k n (srcRun kn k n b0) bs).1 g, (srcCombine kn k n (srcRun kn k n b0) bs).2 g) = _
  rw [h1, hpg]
  exact (srcRun_eq kn k n (b0 :: bs).flatten (g : Int) (by omega)).symm

/-- non-vacuity: three blocks (one empty, one where group 0 is absent), max over floats with a NaN and a null key -/
example :
    let bs : List (List Row) := [[], [(1, .num 9), (-1, .num 100)]]
    let b0 : List Row := [(0, .num 3), (1, .nan), (0, .num 1)]
    let m := srcCombine .max .f 2 (srcRun .max .f 2 b0) bs
    ((m.1 0, m.2 0), (m.1 1, m.2 1)) = ((.num 3, 2), (.num 9, 1)) := by decide

/-- `srcCombine` is a Lean fold written by hand after the ten-line Python loop of
`combine_chunk_results_for_factorized_key` (plain Python, not translated).  These facts are re-extracted from that
loop's AST on every run: it starts from the first block's partials, walks the remaining blocks in order, merges with
`reduce_array_pair(combined, chunk, f, counts=combined_count, y_counts=count)` and then adds the counts, and returns
both arrays - the shape `srcCombine` has.  An edit of the loop turns one of them false and fails this theorem. -/
theorem source_combine_fold_shape :
    Generated.Constants.combineStartsWithFirstBlock = true ∧ Generated.Constants.combineFoldsRemainingBlocksInOrder = true ∧
    Generated.Constants.combineMergesWithBothCounts = true ∧ Generated.Constants.combineReturnsBoth = true := by decide

end GV.C03
