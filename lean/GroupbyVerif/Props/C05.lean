import GroupbyVerif.Props.C04
import GroupbyVerif.Props.C08
import GroupbyVerif.Props.C09

/-!
# C05 — A mask is equivalent to filtering the rows first
-/

namespace GV.C05
open GV

/-- **reductions (kernel level)**: the masked call — any mask kind, any thread count / value chunking —
returns for every group what the unmasked call returns on the filtered rows `rows[mask]` -/
theorem kernel_mask_eq_filter (kn : Kernel) (k : Kind) (hk : k.Supported) (rows : List Row) (mask : Mask)
    (threads threads' : Nat) (vch vch' : Option (List Nat)) (p q : Int → Partial) (sel : List Row)
    (hwf : ∀ r ∈ rows, WF k r.2) (hm : ∀ m, mask = .bool m → m.length = rows.length)
    (hsel : selectRows rows mask = some sel)
    (hp : groupKernel modelReducers kn k rows mask threads vch = some p)
    (hq : groupKernel modelReducers kn k sel .none threads' vch' = some q) (g : Int) (hg : 0 ≤ g) :
    p g = q g := by
  obtain ⟨s1, h1, e1⟩ := C04.groupKernel_eq_def kn k hk rows mask threads vch p hwf hm hp g hg
  have hwf' : ∀ r ∈ sel, WF k r.2 := fun r hr => hwf r (selectGen_mem rows mask sel hsel r hr)
  obtain ⟨s2, h2, e2⟩ := C04.groupKernel_eq_def kn k hk sel .none threads' vch' q hwf' (by intro m hm'; cases hm') hq g hg
  rw [hsel] at h1
  simp only [selectRows, selectGen, Option.some.injEq] at h1 h2
  subst h1; subst h2
  rw [e1, e2]

/-- unselected rows never influence a group: only `rows[mask]` enters the result -/
theorem unselected_rows_inert (kn : Kernel) (k : Kind) (hk : k.Supported) (rows rows' : List Row) (mask : Mask)
    (threads : Nat) (vch : Option (List Nat)) (p p' : Int → Partial)
    (hwf : ∀ r ∈ rows, WF k r.2) (hwf' : ∀ r ∈ rows', WF k r.2)
    (hm : ∀ m, mask = .bool m → m.length = rows.length) (hm' : ∀ m, mask = .bool m → m.length = rows'.length)
    (hsame : selectRows rows mask = selectRows rows' mask)
    (hp : groupKernel modelReducers kn k rows mask threads vch = some p)
    (hp' : groupKernel modelReducers kn k rows' mask threads vch = some p') (g : Int) (hg : 0 ≤ g) :
    p g = p' g := by
  obtain ⟨s1, h1, e1⟩ := C04.groupKernel_eq_def kn k hk rows mask threads vch p hwf hm hp g hg
  obtain ⟨s2, h2, e2⟩ := C04.groupKernel_eq_def kn k hk rows' mask threads vch p' hwf' hm' hp' g hg
  rw [hsame, h2] at h1
  simp only [Option.some.injEq] at h1
  subst h1
  rw [e1, e2]

/-! ### row-aligned operations: masked rows still occupy output slots -/

/-- the selected rows, with their selection flag -/
def filterSel (rows : List CRow) : List CRow := rows.filter (fun r => r.sel)

/-- rank of row `i` among the selected rows -/
def rankSel (rows : List CRow) (i : Nat) : Nat := (filterSel (rows.take i)).length

theorem selVals_filterSel (rows : List CRow) (g : Int) : selVals (filterSel rows) g = selVals rows g := by
  simp only [selVals, filterSel, List.filter_filter]
  congr 1
  apply List.filter_congr
  intro r _
  by_cases h : r.sel = true <;> simp [h]

theorem filterSel_split (rows : List CRow) (i : Nat) (r : CRow) (hi : rows[i]? = some r) (hs : r.sel = true) :
    filterSel rows = filterSel (rows.take i) ++ r :: filterSel (rows.drop (i + 1)) := by
  have hlt : i < rows.length := by
    rcases Nat.lt_or_ge i rows.length with h | h
    · exact h
    · rw [List.getElem?_eq_none_iff.mpr h] at hi; simp at hi
  have hr : rows[i] = r := by
    have := List.getElem?_eq_getElem hlt
    rw [this] at hi; exact Option.some.inj hi
  conv => lhs; rw [← List.take_append_drop i rows, List.drop_eq_getElem_cons hlt, hr]
  simp [filterSel, List.filter_append, List.filter_cons, hs]

/-- the filtered list holds row `i` at its rank, with the same selected prefix -/
theorem filtered_at_rank (rows : List CRow) (i : Nat) (r : CRow) (hi : rows[i]? = some r) (hs : r.sel = true) :
    (filterSel rows)[rankSel rows i]? = some r ∧
    ∀ g, selVals ((filterSel rows).take (rankSel rows i + 1)) g = selVals (rows.take (i + 1)) g := by
  have hsplit := filterSel_split rows i r hi hs
  constructor
  · rw [hsplit]; simp [rankSel]
  · intro g
    have htake : (filterSel rows).take (rankSel rows i + 1) = filterSel (rows.take i) ++ [r] := by
      rw [hsplit]
      simp [rankSel, List.take_append, List.take_of_length_le]
    rw [htake]
    have hlt : i < rows.length := by
      rcases Nat.lt_or_ge i rows.length with h | h
      · exact h
      · rw [List.getElem?_eq_none_iff.mpr h] at hi; simp at hi
    have hr : rows[i] = r := by
      have := List.getElem?_eq_getElem hlt
      rw [this] at hi; exact Option.some.inj hi
    rw [List.take_succ_eq_append_getElem hlt, hr]
    have happ : ∀ a b : List CRow, selVals (a ++ b) g = selVals a g ++ selVals b g := by
      intro a b; simp [selVals, List.filter_append]
    rw [happ, happ, selVals_filterSel]

/-- **cumulative operations**: at every selected row the masked run produces what the run on the
filtered data produces at the row's rank -/
theorem cum_mask_eq_filter (op : CumOp) (k : Kind) (rows : List CRow) (i : Nat) (r : CRow)
    (hi : rows[i]? = some r) (hs : r.sel = true) :
    (cumulativeReduce (op.red modelReducers k true) (op.init k) rows)[i]?
      = (cumulativeReduce (op.red modelReducers k true) (op.init k) (filterSel rows))[rankSel rows i]? := by
  rw [C08.cum_eq_prefix, C08.cum_eq_prefix]
  obtain ⟨hf, hv⟩ := filtered_at_rank rows i r hi hs
  have hlt : i < rows.length := by
    rcases Nat.lt_or_ge i rows.length with h | h
    · exact h
    · rw [List.getElem?_eq_none_iff.mpr h] at hi; simp at hi
  have hlt' : rankSel rows i < (filterSel rows).length := by
    rcases Nat.lt_or_ge (rankSel rows i) (filterSel rows).length with h | h
    · exact h
    · rw [List.getElem?_eq_none_iff.mpr h] at hf; simp at hf
  unfold specCum
  rw [List.getElem?_map, List.getElem?_map, List.getElem?_range hlt, List.getElem?_range hlt']
  simp only [Option.map_some, hi, hf, hv]

/-- **rolling sum**: the same relation (the window counts selected rows only) -/
theorem rolling_sum_mask_eq_filter (k : Kind) (w minp : Nat) (hw : 0 < w) (rows : List CRow) (i : Nat) (r : CRow)
    (hi : rows[i]? = some r) (hg : 0 ≤ r.code) (hs : r.sel = true) :
    (rolling k .sum w minp rows)[i]? = (rolling k .sum w minp (filterSel rows))[rankSel rows i]? := by
  obtain ⟨hf, hv⟩ := filtered_at_rank rows i r hi hs
  rw [C09.rolling_sum_eq_window k w minp hw rows i r hi hg hs,
    C09.rolling_sum_eq_window k w minp hw (filterSel rows) (rankSel rows i) r hf hg hs, hv]

theorem rolling_mean_mask_eq_filter (k : Kind) (w minp : Nat) (hw : 0 < w) (rows : List CRow) (i : Nat) (r : CRow)
    (hi : rows[i]? = some r) (hg : 0 ≤ r.code) (hs : r.sel = true) :
    (rolling k .mean w minp rows)[i]? = (rolling k .mean w minp (filterSel rows))[rankSel rows i]? := by
  obtain ⟨hf, hv⟩ := filtered_at_rank rows i r hi hs
  rw [C09.rolling_mean_eq_window k w minp hw rows i r hi hg hs,
    C09.rolling_mean_eq_window k w minp hw (filterSel rows) (rankSel rows i) r hf hg hs, hv]

/-- **rolling max / min**: the same relation -/
theorem rolling_extremum_mask_eq_filter (k : Kind) (wantMax : Bool) (w minp : Nat) (hw : 0 < w) (hminp : 0 < minp) (rows : List CRow)
    (hwf : ∀ r ∈ rows, WF k r.val) (i : Nat) (r : CRow)
    (hi : rows[i]? = some r) (hg : 0 ≤ r.code) (hs : r.sel = true) :
    (rolling k (if wantMax then .max else .min) w minp rows)[i]? =
      (rolling k (if wantMax then .max else .min) w minp (filterSel rows))[rankSel rows i]? := by
  obtain ⟨hf, hv⟩ := filtered_at_rank rows i r hi hs
  have hwf' : ∀ r ∈ filterSel rows, WF k r.val := fun r hr => hwf r (List.mem_filter.mp hr).1
  rw [C09.rolling_extremum_eq_window k wantMax w minp hw hminp rows hwf i r hi hg hs,
    C09.rolling_extremum_eq_window k wantMax w minp hw hminp (filterSel rows) hwf' (rankSel rows i) r hf hg hs, hv]

/-- **shift / diff** (float view): "`window` rows earlier" counts selected rows of the group only -/
theorem rolling_shift_diff_mask_eq_filter (op : RollOp) (hop : op = .shift ∨ op = .diff) (w minp : Nat) (hw : 0 < w) (rows : List CRow)
    (i : Nat) (r : CRow) (hi : rows[i]? = some r) (hg : 0 ≤ r.code) (hs : r.sel = true) :
    (rolling .f op w minp rows)[i]? = (rolling .f op w minp (filterSel rows))[rankSel rows i]? := by
  obtain ⟨hf, hv⟩ := filtered_at_rank rows i r hi hs
  rw [C09.rolling_shift_diff_eq_window op hop w minp hw rows i r hi hg hs,
    C09.rolling_shift_diff_eq_window op hop w minp hw (filterSel rows) (rankSel rows i) r hf hg hs, hv]

/-- non-vacuity -/
example : rankSel [⟨0, .num 1, true⟩, ⟨0, .num 5, false⟩, ⟨0, .num 2, true⟩] 2 = 1 := by decide

end GV.C05
