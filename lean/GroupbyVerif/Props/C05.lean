import GroupbyVerif.Props.C04
import GroupbyVerif.Props.C03
import GroupbyVerif.Props.C08
import GroupbyVerif.Props.C09

/-!
# C05 — A mask is equivalent to filtering the rows first
-/

namespace GV.C05
open GV

/-- **reductions (kernel level)**: the masked call — any mask kind, any thread count / value chunking —
returns for every group what the unmasked call returns on the filtered rows `rows[mask]` -/
theorem kernel_mask_eq_filter (kn : Kernel) (k : Kind) (hk : k.Supported) (rows : List Row) (mask : Mask)
    (threads threads' : Nat) (vch vch' : Option (List Nat)) (p q : Int → Partial) (sel : List Row)
    (hwf : ∀ r ∈ rows, WF k r.2) (hm : ∀ m, mask = .bool m → m.length = rows.length)
    (hsel : selectRows rows mask = some sel)
    (hp : groupKernel modelReducers kn k rows mask threads vch = some p)
    (hq : groupKernel modelReducers kn k sel .none threads' vch' = some q) (g : Int) (hg : 0 ≤ g) :
    p g = q g := by
  obtain ⟨s1, h1, e1⟩ := C04.groupKernel_eq_def kn k hk rows mask threads vch p hwf hm hp g hg
  have hwf' : ∀ r ∈ sel, WF k r.2 := fun r hr => hwf r (selectGen_mem rows mask sel hsel r hr)
  obtain ⟨s2, h2, e2⟩ := C04.groupKernel_eq_def kn k hk sel .none threads' vch' q hwf' (by intro m hm'; cases hm') hq g hg
  rw [hsel] at h1
  simp only [selectRows, selectGen, Option.some.injEq] at h1 h2
  subst h1; subst h2
  rw [e1, e2]

/-- unselected rows never influence a group: only `rows[mask]` enters the result -/
theorem unselected_rows_inert (kn : Kernel) (k : Kind) (hk : k.Supported) (rows rows' : List Row) (mask : Mask)
    (threads : Nat) (vch : Option (List Nat)) (p p' : Int → Partial)
    (hwf : ∀ r ∈ rows, WF k r.2) (hwf' : ∀ r ∈ rows', WF k r.2)
    (hm : ∀ m, mask = .bool m → m.length = rows.length) (hm' : ∀ m, mask = .bool m → m.length = rows'.length)
    (hsame : selectRows rows mask = selectRows rows' mask)
    (hp : groupKernel modelReducers kn k rows mask threads vch = some p)
    (hp' : groupKernel modelReducers kn k rows' mask threads vch = some p') (g : Int) (hg : 0 ≤ g) :
    p g = p' g := by
  obtain ⟨s1, h1, e1⟩ := C04.groupKernel_eq_def kn k hk rows mask threads vch p hwf hm hp g hg
  obtain ⟨s2, h2, e2⟩ := C04.groupKernel_eq_def kn k hk rows' mask threads vch p' hwf' hm' hp' g hg
  rw [hsame, h2] at h1
  simp only [Option.some.injEq] at h1
  subst h1
  rw [e1, e2]

/-! ### row-aligned operations: masked rows still occupy output slots -/

/-- the selected rows, with their selection flag -/
def filterSel (rows : List CRow) : List CRow := rows.filter (fun r => r.sel)

/-- rank of row `i` among the selected rows -/
def rankSel (rows : List CRow) (i : Nat) : Nat := (filterSel (rows.take i)).length

theorem selVals_filterSel (rows : List CRow) (g : Int) : selVals (filterSel rows) g = selVals rows g := by
  simp only [selVals, filterSel, List.filter_filter]
  congr 1
  apply List.filter_congr
  intro r _
  by_cases h : r.sel = true <;> simp [h]

theorem filterSel_split (rows : List CRow) (i : Nat) (r : CRow) (hi : rows[i]? = some r) (hs : r.sel = true) :
    filterSel rows = filterSel (rows.take i) ++ r :: filterSel (rows.drop (i + 1)) := by
  have hlt : i < rows.length := by
    rcases Nat.lt_or_ge i rows.length with h | h
    · exact h
    · rw [List.getElem?_eq_none_iff.mpr h] at hi; simp at hi
  have hr : rows[i] = r := by
    have := List.getElem?_eq_getElem hlt
    rw [this] at hi; exact Option.some.inj hi
  conv => lhs; rw [← List.take_append_drop i rows, List.drop_eq_getElem_cons hlt, hr]
  simp [filterSel, List.filter_append, List.filter_cons, hs]

/-- the filtered list holds row `i` at its rank, with the same selected prefix -/
theorem filtered_at_rank (rows : List CRow) (i : Nat) (r : CRow) (hi : rows[i]? = some r) (hs : r.sel = true) :
    (filterSel rows)[rankSel rows i]? = some r ∧
    ∀ g, selVals ((filterSel rows).take (rankSel rows i + 1)) g = selVals (rows.take (i + 1)) g := by
  have hsplit := filterSel_split rows i r hi hs
  constructor
  · rw [hsplit]; simp [rankSel]
  · intro g
    have htake : (filterSel rows).take (rankSel rows i + 1) = filterSel (rows.take i) ++ [r] := by
      rw [hsplit]
      simp [rankSel, List.take_append, List.take_of_length_le]
    rw [htake]
    have hlt : i < rows.length := by
      rcases Nat.lt_or_ge i rows.length with h | h
      · exact h
      · rw [List.getElem?_eq_none_iff.mpr h] at hi; simp at hi
    have hr : rows[i] = r := by
      have := List.getElem?_eq_getElem hlt
      rw [this] at hi; exact Option.some.inj hi
    rw [List.take_succ_eq_append_getElem hlt, hr]
    have happ : ∀ a b : List CRow, selVals (a ++ b) g = selVals a g ++ selVals b g := by
      intro a b; simp [selVals, List.filter_append]
    rw [happ, happ, selVals_filterSel]

/-- **cumulative operations**: at every selected row the masked run produces what the run on the
filtered data produces at the row's rank -/
theorem cum_mask_eq_filter (op : CumOp) (k : Kind) (rows : List CRow) (i : Nat) (r : CRow)
    (hi : rows[i]? = some r) (hs : r.sel = true) :
    (cumulativeReduce (op.red modelReducers k true) (op.init k) rows)[i]?
      = (cumulativeReduce (op.red modelReducers k true) (op.init k) (filterSel rows))[rankSel rows i]? := by
  rw [C08.cum_eq_prefix, C08.cum_eq_prefix]
  obtain ⟨hf, hv⟩ := filtered_at_rank rows i r hi hs
  have hlt : i < rows.length := by
    rcases Nat.lt_or_ge i rows.length with h | h
    · exact h
    · rw [List.getElem?_eq_none_iff.mpr h] at hi; simp at hi
  have hlt' : rankSel rows i < (filterSel rows).length := by
    rcases Nat.lt_or_ge (rankSel rows i) (filterSel rows).length with h | h
    · exact h
    · rw [List.getElem?_eq_none_iff.mpr h] at hf; simp at hf
  unfold specCum
  rw [List.getElem?_map, List.getElem?_map, List.getElem?_range hlt, List.getElem?_range hlt']
  simp only [Option.map_some, hi, hf, hv]

/-- **rolling sum**: the same relation (the window counts selected rows only) -/
theorem rolling_sum_mask_eq_filter (k : Kind) (w minp : Nat) (hw : 0 < w) (rows : List CRow) (i : Nat) (r : CRow)
    (hi : rows[i]? = some r) (hg : 0 ≤ r.code) (hs : r.sel = true) :
    (rolling k .sum w minp rows)[i]? = (rolling k .sum w minp (filterSel rows))[rankSel rows i]? := by
  obtain ⟨hf, hv⟩ := filtered_at_rank rows i r hi hs
  rw [C09.rolling_sum_eq_window k w minp hw rows i r hi hg hs,
    C09.rolling_sum_eq_window k w minp hw (filterSel rows) (rankSel rows i) r hf hg hs, hv]

theorem rolling_mean_mask_eq_filter (k : Kind) (w minp : Nat) (hw : 0 < w) (rows : List CRow) (i : Nat) (r : CRow)
    (hi : rows[i]? = some r) (hg : 0 ≤ r.code) (hs : r.sel = true) :
    (rolling k .mean w minp rows)[i]? = (rolling k .mean w minp (filterSel rows))[rankSel rows i]? := by
  obtain ⟨hf, hv⟩ := filtered_at_rank rows i r hi hs
  rw [C09.rolling_mean_eq_window k w minp hw rows i r hi hg hs,
    C09.rolling_mean_eq_window k w minp hw (filterSel rows) (rankSel rows i) r hf hg hs, hv]

/-- **rolling max / min**: the same relation -/
theorem rolling_extremum_mask_eq_filter (k : Kind) (wantMax : Bool) (w minp : Nat) (hw : 0 < w) (hminp : 0 < minp) (rows : List CRow)
    (hwf : ∀ r ∈ rows, WF k r.val) (i : Nat) (r : CRow)
    (hi : rows[i]? = some r) (hg : 0 ≤ r.code) (hs : r.sel = true) :
    (rolling k (if wantMax then .max else .min) w minp rows)[i]? =
      (rolling k (if wantMax then .max else .min) w minp (filterSel rows))[rankSel rows i]? := by
  obtain ⟨hf, hv⟩ := filtered_at_rank rows i r hi hs
  have hwf' : ∀ r ∈ filterSel rows, WF k r.val := fun r hr => hwf r (List.mem_filter.mp hr).1
  rw [C09.rolling_extremum_eq_window k wantMax w minp hw hminp rows hwf i r hi hg hs,
    C09.rolling_extremum_eq_window k wantMax w minp hw hminp (filterSel rows) hwf' (rankSel rows i) r hf hg hs, hv]

/-- **shift / diff** (float view): "`window` rows earlier" counts selected rows of the group only -/
theorem rolling_shift_diff_mask_eq_filter (op : RollOp) (hop : op = .shift ∨ op = .diff) (w minp : Nat) (hw : 0 < w) (rows : List CRow)
    (i : Nat) (r : CRow) (hi : rows[i]? = some r) (hg : 0 ≤ r.code) (hs : r.sel = true) :
    (rolling .f op w minp rows)[i]? = (rolling .f op w minp (filterSel rows))[rankSel rows i]? := by
  obtain ⟨hf, hv⟩ := filtered_at_rank rows i r hi hs
  rw [C09.rolling_shift_diff_eq_window op hop w minp hw rows i r hi hg hs,
    C09.rolling_shift_diff_eq_window op hop w minp hw (filterSel rows) (rankSel rows i) r hf hg hs, hv]

/-- non-vacuity -/
example : rankSel [⟨0, .num 1, true⟩, ⟨0, .num 5, false⟩, ⟨0, .num 2, true⟩] 2 = 1 := by decide

/-! ### stated about the translated source

`Generated.Loops.group_by_reduce` / `cumulative_reduce` are regenerated from `numba.py` on every run.  The statements
below relate two runs of the *translated source*: the masked run and the run on the filtered rows. -/

/-- one run of the translated `_group_by_reduce` through an indexer (what a positional mask, or a boolean mask after
`nonzero`, becomes) -/
def srcRunIdx (kn : Kernel) (k : Kind) (n : Nat) (b : List Row) (ps : List Int) : ((Int → Val) × (Int → Int)) × Bool :=
  Generated.Loops.group_by_reduce k (b.map (·.1)).length (arrOf (b.map (·.1)) 0) (b.map (·.2)).length
    (arrOf (b.map (·.2)) .nan) n (fun _ => kn.init k) (kn.red generatedReducers k) true ps true

/-- **positional mask = filtering first (translated source)**: for every list of positions that index the rows
(repeats and negative positions allowed) the translated kernel run through the indexer gives, at every group, what
the translated kernel gives on the selected rows `rows[positions]` - and raises no bounds error -/
theorem source_positions_eq_filter (kn : Kernel) (k : Kind) (n : Nat) (rows : List Row) (ps : List Int) (sel : List Row)
    (hsel : takePositions rows ps = some sel) (g : Int) (hg : 0 ≤ g) :
    let r := srcRunIdx kn k n rows ps
    let q := C03.srcRun kn k n sel
    r.2 = false ∧ (r.1.1 g, r.1.2 g) = (q.1 g, q.2 g) := by
  intro r q
  have h := C04.source_kernel_indexer_eq_def kn k (rows.map (·.1)) (rows.map (·.2)) (by simp) n ps sel
    (by rw [C03.zip_fst_snd]; exact hsel) g hg
  have h2 := C03.srcRun_eq kn k n sel g hg
  show (srcRunIdx kn k n rows ps).2 = false ∧ ((srcRunIdx kn k n rows ps).1.1 g, (srcRunIdx kn k n rows ps).1.2 g)
    = ((C03.srcRun kn k n sel).1 g, (C03.srcRun kn k n sel).2 g)
  rw [h2, C04.kernel_eq_def _ _ _ _ hg]
  exact h

/-- **boolean mask = filtering first (translated source)**: the indexer is `nonzero(mask)` -/
theorem source_bool_mask_eq_filter (kn : Kernel) (k : Kind) (n : Nat) (rows : List Row) (m : List Bool)
    (hm : m.length = rows.length) (g : Int) (hg : 0 ≤ g) :
    let r := srcRunIdx kn k n rows ((nonzero m).map Int.ofNat)
    let q := C03.srcRun kn k n (selectBool rows m)
    r.2 = false ∧ (r.1.1 g, r.1.2 g) = (q.1 g, q.2 g) :=
  source_positions_eq_filter kn k n rows _ _ (takePositions_nonzero rows m hm) g hg

/-- non-vacuity: a boolean mask dropping a row of each group, sum -/
example :
    let rows : List Row := [(0, .num 3), (1, .num 5), (0, .num 4), (1, .num 7)]
    let r := srcRunIdx .sum .f 2 rows ((nonzero [true, false, true, true]).map Int.ofNat)
    (r.1.1 0, r.1.1 1, r.2) = (.num 7, .num 7, false) := by unfold srcRunIdx; decide

/-- the translated `_cumulative_reduce` on a list of rows with their selection flags (one chunk of values) -/
def srcCum (op : CumOp) (k : Kind) (ng : Int) (rows : List CRow) : ((Int → Val) × Bool) × Bool :=
  Generated.Loops.cumulative_reduce k (rows.map (·.code)).length (arrOf (rows.map (·.code)) 0)
    [rows.map (·.val)] (op.red generatedReducers k true) ng (rows.map (·.code)).length (fun _ => op.init k) true
    (rows.map (·.sel)).length (arrOf (rows.map (·.sel)) true)

theorem cumRows_of_rows (rows : List CRow) :
    LoopBridge.cumRows (rows.map (·.code)) (rows.map (·.val)) true (rows.map (·.sel)) = rows := by
  unfold LoopBridge.cumRows
  apply List.ext_getElem?
  intro i
  rw [List.getElem?_map, List.length_map]
  by_cases hi : i < rows.length
  · rw [List.getElem?_range hi, List.getElem?_eq_getElem hi]
    simp only [Option.map_some, List.getD_eq_getElem?_getD, List.getElem?_map, List.getElem?_eq_getElem hi,
      Option.getD_some, Bool.true_and, Bool.not_not]
  · rw [List.getElem?_eq_none_iff.mpr (by simpa using hi), List.getElem?_eq_none_iff.mpr (by omega)]
    rfl

/-- every cell of the translated cumulative loop is the model's output (one chunk, mask given) -/
theorem srcCum_eq (op : CumOp) (k : Kind) (ng : Int) (rows : List CRow) (hn : (rows.length : Int) < 2 ^ 32)
    (j : Nat) (hj : j < rows.length) :
    (srcCum op k ng rows).1.1 (j : Int)
      = LoopBridge.outAt (op.init k) (cumulativeReduce (op.red modelReducers k true) (op.init k) rows) j := by
  have h := C08.source_loop_eq_spec op k (rows.map (·.code)) [rows.map (·.val)] (rows.map (·.sel)) true ng
    ((rows.map (·.sel)).length : Int) (by simp) (by simpa using hn)
  simp only [List.flatten_cons, List.flatten_nil, List.append_nil, cumRows_of_rows] at h
  rw [C08.cum_eq_prefix]
  unfold srcCum
  exact h.2.2 j (by simpa using hj)

/-- **cumulative operations, mask = filtering first (translated source)**: at every selected row the masked run of
the translated loop writes what the run on the filtered rows writes at the row's rank -/
theorem source_cum_mask_eq_filter (op : CumOp) (k : Kind) (ng : Int) (rows : List CRow)
    (hn : (rows.length : Int) < 2 ^ 32) (i : Nat) (r : CRow) (hi : rows[i]? = some r) (hs : r.sel = true) :
    (srcCum op k ng rows).1.1 (i : Int) = (srcCum op k ng (filterSel rows)).1.1 (rankSel rows i : Int) := by
  have hlt : i < rows.length := by
    rcases Nat.lt_or_ge i rows.length with h | h
    · exact h
    · rw [List.getElem?_eq_none_iff.mpr h] at hi; simp at hi
  obtain ⟨hf, _⟩ := filtered_at_rank rows i r hi hs
  have hlt' : rankSel rows i < (filterSel rows).length := by
    rcases Nat.lt_or_ge (rankSel rows i) (filterSel rows).length with h | h
    · exact h
    · rw [List.getElem?_eq_none_iff.mpr h] at hf; simp at hf
  have hle : (filterSel rows).length ≤ rows.length := List.length_filter_le _ _
  rw [srcCum_eq op k ng rows hn i hlt, srcCum_eq op k ng (filterSel rows) (by omega) _ hlt']
  unfold LoopBridge.outAt
  rw [cum_mask_eq_filter op k rows i r hi hs]

/-! ### rolling kernels, stated about the translated source

Each translated rolling kernel is characterised (C09, `source_rolling_*_eq_window`) by "the cell of a selected row with
a non-null key is a function of the selected values of its group up to that row".  Any function of that shape
commutes with deleting the unselected rows (here) and the null-key rows (C06). -/

/-- a row-aligned output that only depends on the selected values of the row's group so far -/
def WindowFn (P : List CRow → Prop) (out : List CRow → Int → Val) (F : List Val → Val) : Prop :=
  ∀ (rows : List CRow) (i : Nat) (r : CRow), P rows → rows[i]? = some r → 0 ≤ r.code → r.sel = true →
    out rows (i : Int) = F (selVals (rows.take (i + 1)) r.code)

theorem WindowFn.mask_eq_filter {P : List CRow → Prop} {out : List CRow → Int → Val} {F : List Val → Val}
    (h : WindowFn P out F) (hP : ∀ rows, P rows → P (filterSel rows))
    (rows : List CRow) (i : Nat) (r : CRow) (hp : P rows) (hi : rows[i]? = some r) (hg : 0 ≤ r.code) (hs : r.sel = true) :
    out rows (i : Int) = out (filterSel rows) (rankSel rows i : Int) := by
  obtain ⟨hf, hv⟩ := filtered_at_rank rows i r hi hs
  rw [h rows i r hp hi hg hs, h (filterSel rows) (rankSel rows i) r (hP rows hp) hf hg hs, hv]

/-- the translated `_rolling_sum_or_mean_1d` on a list of rows (one chunk, mask given) -/
def srcRollSum (k : Kind) (divf : Val → Int → Val) (op : RollOp) (w : Nat) (minp : Option Nat) (ng : Int)
    (rows : List CRow) : Int → Val :=
  (Generated.Loops.rolling_sum_or_mean k divf (rows.map (·.code)).length (arrOf (rows.map (·.code)) 0) [rows.map (·.val)]
    ng w minp.isSome (minp.getD 0) true (rows.map (·.sel)).length (arrOf (rows.map (·.sel)) true) (nullValue k)
    (decide (op = .mean))).1

theorem getD_map_of_getElem? {α β : Type} (f : α → β) (l : List α) (i : Nat) (a : α) (d : β) (h : l[i]? = some a) :
    (l.map f).getD i d = f a := by
  simp [List.getD_eq_getElem?_getD, List.getElem?_map, h]

theorem srcRollSum_window (k : Kind) (divf : Val → Int → Val) (op : RollOp) (hop : op = .sum ∨ op = .mean) (w : Nat)
    (hw : 0 < w) (minp : Option Nat) (ng : Int) (hnv : LoopBridge.NumOrNull k (nullValue k)) :
    WindowFn (fun rows => ∀ r ∈ rows, LoopBridge.NumOrNull k r.val) (srcRollSum k divf op w minp ng)
      (fun hist => LoopBridge.cellVal divf (nullValue k) (specRollAt k op w (minp.getD w) hist)) := by
  intro rows i r hp hi hg hs
  have hlt : i < rows.length := by
    rcases Nat.lt_or_ge i rows.length with h | h
    · exact h
    · rw [List.getElem?_eq_none_iff.mpr h] at hi; simp at hi
  have h := C09.source_rolling_sum_mean_eq_window k divf op hop w hw minp (rows.map (·.code)) [rows.map (·.val)]
    (rows.map (·.sel)) true ng ((rows.map (·.sel)).length : Int) (nullValue k) (by simp)
    (by intro v hv; simp only [List.flatten_cons, List.flatten_nil, List.append_nil, List.mem_map] at hv
        obtain ⟨r', hr', rfl⟩ := hv; exact hp r' hr')
    hnv rfl i (by simpa using hlt)
    (by rw [getD_map_of_getElem? _ _ _ _ _ hi]; exact hg)
    (by rw [getD_map_of_getElem? _ _ _ _ _ hi, hs]; rfl)
  simp only [List.flatten_cons, List.flatten_nil, List.append_nil, cumRows_of_rows,
    getD_map_of_getElem? (·.code) rows i r 0 hi] at h
  exact h

/-- **rolling sum / mean, mask = filtering first (translated source)** -/
theorem source_rolling_sum_mask_eq_filter (k : Kind) (divf : Val → Int → Val) (op : RollOp) (hop : op = .sum ∨ op = .mean)
    (w : Nat) (hw : 0 < w) (minp : Option Nat) (ng : Int) (hnv : LoopBridge.NumOrNull k (nullValue k))
    (rows : List CRow) (hwf : ∀ r ∈ rows, LoopBridge.NumOrNull k r.val) (i : Nat) (r : CRow)
    (hi : rows[i]? = some r) (hg : 0 ≤ r.code) (hs : r.sel = true) :
    srcRollSum k divf op w minp ng rows (i : Int) = srcRollSum k divf op w minp ng (filterSel rows) (rankSel rows i : Int) :=
  (srcRollSum_window k divf op hop w hw minp ng hnv).mask_eq_filter
    (fun rows hp r hr => hp r (List.mem_filter.mp hr).1) rows i r hwf hi hg hs

/-- the translated `_rolling_max_or_min_1d` on a list of rows -/
def srcRollMax (k : Kind) (wantMax : Bool) (w : Nat) (minp : Option Nat) (ng : Int) (rows : List CRow) : Int → Val :=
  (Generated.Loops.rolling_max_or_min k (rows.map (·.code)).length (arrOf (rows.map (·.code)) 0) [rows.map (·.val)]
    ng w minp.isSome (minp.getD 0) true (rows.map (·.sel)).length (arrOf (rows.map (·.sel)) true) (nullValue k) wantMax).1

theorem srcRollMax_window (k : Kind) (wantMax : Bool) (w : Nat) (hw : 0 < w) (minp : Option Nat) (hminp : 0 < minp.getD w)
    (ng : Int) :
    WindowFn (fun rows => (∀ r ∈ rows, WF k r.val) ∧ (∀ r ∈ rows, r.val = .nan → nullValue k = .nan))
      (srcRollMax k wantMax w minp ng)
      (fun hist => LoopBridge.cellVal (fun a _ => a) (nullValue k)
        (specRollAt k (if wantMax then RollOp.max else RollOp.min) w (minp.getD w) hist)) := by
  intro rows i r hp hi hg hs
  have hlt : i < rows.length := by
    rcases Nat.lt_or_ge i rows.length with h | h
    · exact h
    · rw [List.getElem?_eq_none_iff.mpr h] at hi; simp at hi
  have h := (C09.source_rolling_max_min_eq_window k wantMax w hw minp hminp (rows.map (·.code)) [rows.map (·.val)]
    (rows.map (·.sel)) true ng ((rows.map (·.sel)).length : Int) (by simp)
    (by intro v hv; simp only [List.flatten_cons, List.flatten_nil, List.append_nil, List.mem_map] at hv
        obtain ⟨r', hr', rfl⟩ := hv; exact hp.1 r' hr')
    (by intro v hv; simp only [List.flatten_cons, List.flatten_nil, List.append_nil, List.mem_map] at hv
        obtain ⟨r', hr', rfl⟩ := hv; exact hp.2 r' hr')
    i (by simpa using hlt)
    (by rw [getD_map_of_getElem? _ _ _ _ _ hi]; exact hg)
    (by rw [getD_map_of_getElem? _ _ _ _ _ hi, hs]; rfl)).2
  simp only [List.flatten_cons, List.flatten_nil, List.append_nil, cumRows_of_rows,
    getD_map_of_getElem? (·.code) rows i r 0 hi] at h
  exact h

/-- **rolling max / min, mask = filtering first (translated source)** -/
theorem source_rolling_max_mask_eq_filter (k : Kind) (wantMax : Bool) (w : Nat) (hw : 0 < w) (minp : Option Nat)
    (hminp : 0 < minp.getD w) (ng : Int) (rows : List CRow) (hwf : ∀ r ∈ rows, WF k r.val)
    (hnan : ∀ r ∈ rows, r.val = .nan → nullValue k = .nan) (i : Nat) (r : CRow)
    (hi : rows[i]? = some r) (hg : 0 ≤ r.code) (hs : r.sel = true) :
    srcRollMax k wantMax w minp ng rows (i : Int) = srcRollMax k wantMax w minp ng (filterSel rows) (rankSel rows i : Int) :=
  (srcRollMax_window k wantMax w hw minp hminp ng).mask_eq_filter
    (fun rows hp => ⟨fun r hr => hp.1 r (List.mem_filter.mp hr).1, fun r hr => hp.2 r (List.mem_filter.mp hr).1⟩)
    rows i r ⟨hwf, hnan⟩ hi hg hs

end GV.C05
