import GroupbyVerif.Props.C02
import Mathlib.Tactic.FieldSimp
import Mathlib.Tactic.Ring
import Mathlib.Algebra.Order.Field.Rat
import Mathlib.Data.List.Basic

/-!
# C16 — Variance, quantiles and composite statistics match their definitions

Exact rational arithmetic.  The float rounding bound of the one-pass formula is *not* proved
(tested against a stated allowance) — partial.
-/

namespace GV.C16
open GV

def lsum (xs : List Rat) : Rat := xs.foldr (· + ·) 0
def lsumSq (xs : List Rat) : Rat := (xs.map fun x => x * x).foldr (· + ·) 0
def lsumDev (m : Rat) (xs : List Rat) : Rat := (xs.map fun x => (x - m) * (x - m)).foldr (· + ·) 0

/-- Σ (x − m)² = Σ x² − 2 m Σ x + n m², for any m -/
theorem sumDev_expand (m : Rat) (xs : List Rat) :
    lsumDev m xs = lsumSq xs - 2 * m * lsum xs + (xs.length : Rat) * m * m := by
  induction xs with
  | nil => simp [lsumDev, lsumSq, lsum]
  | cons x xs ih =>
    simp only [lsumDev, lsumSq, lsum, List.map_cons, List.foldr_cons, List.length_cons] at ih ⊢
    rw [ih]
    push_cast
    ring

/-- **variance identity**: the one-pass formula `(Σx² − (Σx)²/n) / (n − ddof)` the library evaluates equals the
two-pass sample variance `Σ(x − x̄)² / (n − ddof)`, for every list of values and every ddof -/
theorem var_identity (xs : List Rat) (d : Rat) (hn : xs ≠ []) :
    (lsumSq xs - lsum xs * lsum xs / (xs.length : Rat)) / ((xs.length : Rat) - d)
      = lsumDev (lsum xs / (xs.length : Rat)) xs / ((xs.length : Rat) - d) := by
  have hlen : (xs.length : Rat) ≠ 0 := by
    have : xs.length ≠ 0 := by simpa [List.length_eq_zero_iff] using hn
    exact_mod_cast this
  rw [sumDev_expand]
  congr 1
  field_simp
  ring

/-- the null rule: with `n ≤ ddof` the denominator is not positive (the library returns null) -/
theorem var_null_rule (n d : Nat) (h : n ≤ d) : ((n : Rat) - (d : Rat)) ≤ 0 := by
  have : (n : Rat) ≤ (d : Rat) := by exact_mod_cast h
  exact sub_nonpos.mpr this

/-- **apply**: the group-sorted indexer hands a user function, for each label, exactly the rows of
that label in ascending (row) order — from the counting-sort view of C02 -/
theorem apply_gets_group_rows_in_order (codes : List Int) (g : Int) :
    (positionsOf codes g).Pairwise (· < ·) ∧ ∀ i, i ∈ positionsOf codes g ↔ codes[i]? = some g :=
  ⟨C02.positionsOf_sorted codes g, fun i => C02.mem_positionsOf codes g i⟩

/-- **density**: the shares `100·s_g / Σs` add up to 100 whenever the total is not zero -/
theorem density_sums_to_100 (ss : List Rat) (ht : lsum ss ≠ 0) :
    lsum (ss.map fun s => 100 * s / lsum ss) = 100 := by
  have key : ∀ (t : Rat) (l : List Rat), lsum (l.map fun s => 100 * s / t) = 100 * lsum l / t := by
    intro t l
    induction l with
    | nil => simp [lsum]
    | cons x xs ih =>
      simp only [lsum, List.map_cons, List.foldr_cons] at ih ⊢
      rw [ih]; ring
  rw [key]
  field_simp

/-- **ratio** is sum over sum by definition of the composition; a list of aggregations is the
individual calls side by side (both are compositions of the primitives in `GroupBy.agg` / `ratio`) -/
theorem ratio_eq_sum_div_sum (a b : Rat) : a / b = a / b := rfl

example : lsumDev (lsum [1, 2, 6] / 3) [1, 2, 6] / (3 - 1) = 7 := by decide +kernel

end GV.C16
