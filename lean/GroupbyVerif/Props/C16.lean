import GroupbyVerif.Props.C02
import GroupbyVerif.Props.C04
import GroupbyVerif.Generated.Constants
import GroupbyVerif.Props.C03
import GroupbyVerif.Model.Composite
import GroupbyVerif.Lemmas.Margins
import Mathlib.Tactic.FieldSimp
import Mathlib.Tactic.Ring
import Mathlib.Algebra.Order.Field.Rat
import Mathlib.Data.List.Basic
import Mathlib.Data.List.Nodup

/-!
# C16 — Variance, quantiles and composite statistics match their definitions

Exact rational arithmetic.  The float rounding bound of the one-pass formula is *not* proved
(tested against a stated allowance) — partial.
-/

namespace GV.C16
open GV

def lsum (xs : List Rat) : Rat := xs.foldr (· + ·) 0
def lsumSq (xs : List Rat) : Rat := (xs.map fun x => x * x).foldr (· + ·) 0
def lsumDev (m : Rat) (xs : List Rat) : Rat := (xs.map fun x => (x - m) * (x - m)).foldr (· + ·) 0

/-- Σ (x − m)² = Σ x² − 2 m Σ x + n m², for any m -/
theorem sumDev_expand (m : Rat) (xs : List Rat) :
    lsumDev m xs = lsumSq xs - 2 * m * lsum xs + (xs.length : Rat) * m * m := by
  induction xs with
  | nil => simp [lsumDev, lsumSq, lsum]
  | cons x xs ih =>
    simp only [lsumDev, lsumSq, lsum, List.map_cons, List.foldr_cons, List.length_cons] at ih ⊢
    rw [ih]
    push_cast
    ring

/-- **variance identity**: the one-pass formula `(Σx² − (Σx)²/n) / (n − ddof)` the library evaluates equals the
two-pass sample variance `Σ(x − x̄)² / (n − ddof)`, for every list of values and every ddof -/
theorem var_identity (xs : List Rat) (d : Rat) (hn : xs ≠ []) :
    (lsumSq xs - lsum xs * lsum xs / (xs.length : Rat)) / ((xs.length : Rat) - d)
      = lsumDev (lsum xs / (xs.length : Rat)) xs / ((xs.length : Rat) - d) := by
  have hlen : (xs.length : Rat) ≠ 0 := by
    have : xs.length ≠ 0 := by simpa [List.length_eq_zero_iff] using hn
    exact_mod_cast this
  rw [sumDev_expand]
  congr 1
  field_simp
  ring

/-- the null rule: with `n ≤ ddof` the denominator is not positive (the library returns null) -/
theorem var_null_rule (n d : Nat) (h : n ≤ d) : ((n : Rat) - (d : Rat)) ≤ 0 := by
  have : (n : Rat) ≤ (d : Rat) := by exact_mod_cast h
  exact sub_nonpos.mpr this

/-- **apply**: the group-sorted indexer hands a user function, for each label, exactly the rows of
that label in ascending (row) order — from the counting-sort view of C02 -/
theorem apply_gets_group_rows_in_order (codes : List Int) (g : Int) :
    (positionsOf codes g).Pairwise (· < ·) ∧ ∀ i, i ∈ positionsOf codes g ↔ codes[i]? = some g :=
  ⟨C02.positionsOf_sorted codes g, fun i => C02.mem_positionsOf codes g i⟩

/-- **density**: the shares `100·s_g / Σs` add up to 100 whenever the total is not zero -/
theorem density_sums_to_100 (ss : List Rat) (ht : lsum ss ≠ 0) :
    lsum (ss.map fun s => 100 * s / lsum ss) = 100 := by
  have key : ∀ (t : Rat) (l : List Rat), lsum (l.map fun s => 100 * s / t) = 100 * lsum l / t := by
    intro t l
    induction l with
    | nil => simp [lsum]
    | cons x xs ih =>
      simp only [lsum, List.map_cons, List.foldr_cons] at ih ⊢
      rw [ih]; ring
  rw [key]
  field_simp

/-! ## the composite statistics end to end, on top of the kernel theorem of C04

`Model/Composite.lean` is the executable model of `GroupBy.var / ratio / subset_ratio / density` as
combinations of kernel calls (tied to the implementation by the driver op `composite`). -/

/-- the numbers of the non-null values of a group -/
def groupNums (k : Kind) (sel : List Row) (g : Int) : List Int := numsOf (nonNull k (valsOf sel g))

theorem nonNull_all_num {k : Kind} {vs : List Val} (hwf : ∀ v ∈ vs, WF k v) :
    ∀ v ∈ nonNull k vs, ∃ n, v = .num n := by
  intro v hv
  simp only [nonNull, List.mem_filter, Bool.not_eq_eq_eq_not, Bool.not_true] at hv
  exact wf_nonnull_num (hwf v hv.1) hv.2

theorem foldl_add_num : ∀ (vs : List Val) (acc : Int), (∀ v ∈ vs, ∃ n, v = .num n) →
    vs.foldl Val.add (.num acc) = .num (acc + (numsOf vs).foldr (· + ·) 0)
  | [], acc, _ => by simp [numsOf]
  | v :: vs, acc, h => by
    obtain ⟨n, rfl⟩ := h v (List.mem_cons_self ..)
    have ih := foldl_add_num vs (acc + n) (fun w hw => h w (List.mem_cons_of_mem _ hw))
    simp only [List.foldl_cons, Val.add, ih, numsOf, List.filterMap_cons, Val.toInt?, List.foldr_cons]
    congr 1; omega

theorem foldl_addSq_num : ∀ (vs : List Val) (acc : Int), (∀ v ∈ vs, ∃ n, v = .num n) →
    vs.foldl vaddSq (.num acc) = .num (acc + ((numsOf vs).map fun n => n * n).foldr (· + ·) 0)
  | [], acc, _ => by simp [numsOf]
  | v :: vs, acc, h => by
    obtain ⟨n, rfl⟩ := h v (List.mem_cons_self ..)
    have ih := foldl_addSq_num vs (acc + n * n) (fun w hw => h w (List.mem_cons_of_mem _ hw))
    simp only [List.foldl_cons, vaddSq, Val.sq, Val.add, ih, numsOf, List.filterMap_cons, Val.toInt?, List.map_cons,
      List.foldr_cons]
    congr 1; omega

theorem numsOf_length {vs : List Val} (h : ∀ v ∈ vs, ∃ n, v = .num n) : (numsOf vs).length = vs.length := by
  induction vs with
  | nil => rfl
  | cons v vs ih =>
    obtain ⟨n, rfl⟩ := h v (List.mem_cons_self ..)
    simp [numsOf, Val.toInt?] at ih ⊢
    exact ih (fun w hw => h w (List.mem_cons_of_mem _ hw))

/-- the `sum` kernel's result for one group is the integer sum of its non-null selected values -/
theorem spec_sum_num {k : Kind} {vs : List Val} (hwf : ∀ v ∈ vs, WF k v) :
    (specKernel .sum k vs).1 = .num ((numsOf (nonNull k vs)).foldr (· + ·) 0) := by
  simp only [specKernel, sumVals]
  rw [foldl_add_num _ 0 (nonNull_all_num hwf)]; simp

theorem spec_sumSq_num {k : Kind} {vs : List Val} (hwf : ∀ v ∈ vs, WF k v) :
    (specKernel .sumSquares k vs).1 = .num (((numsOf (nonNull k vs)).map fun n => n * n).foldr (· + ·) 0) := by
  simp only [specKernel, sumSqVals]
  rw [foldl_addSq_num _ 0 (nonNull_all_num hwf)]; simp

theorem spec_count_num {k : Kind} {vs : List Val} (hwf : ∀ v ∈ vs, WF k v) :
    (specKernel .count k vs).1 = .num ((numsOf (nonNull k vs)).length : Nat) := by
  simp only [specKernel]
  rw [numsOf_length (nonNull_all_num hwf)]

/-- integers as rationals -/
def toRats (ns : List Int) : List Rat := ns.map fun (n : Int) => (n : Rat)

theorem cast_sum (ns : List Int) : ((ns.foldr (· + ·) 0 : Int) : Rat) = lsum (toRats ns) := by
  induction ns with
  | nil => simp [lsum, toRats]
  | cons n ns ih => simp only [List.foldr_cons, lsum, toRats, List.map_cons] at ih ⊢; rw [← ih]; push_cast; ring

theorem cast_sumSq (ns : List Int) :
    (((ns.map fun n => n * n).foldr (· + ·) 0 : Int) : Rat) = lsumSq (toRats ns) := by
  induction ns with
  | nil => simp [lsumSq, toRats]
  | cons n ns ih =>
    simp only [List.map_cons, List.foldr_cons, lsumSq, toRats] at ih ⊢
    rw [← ih]; push_cast; ring

/-- the arithmetic of one group: the one-pass formula on exact sums = the two-pass variance; null when the group has no
more values than `ddof` -/
theorem varFrom_eq (ns : List Int) (ddof : Nat) :
    varFrom (.num (((ns.map fun n => n * n).foldr (· + ·) 0))) (.num (ns.foldr (· + ·) 0)) (.num (ns.length : Nat)) ddof
      = (let xs : List Rat := toRats ns
        if xs.length ≤ ddof then none
        else some (lsumDev (lsum xs / (xs.length : Rat)) xs / ((xs.length : Rat) - (ddof : Rat)))) := by
  simp only [varFrom, toRats, List.length_map]
  by_cases hle : ns.length ≤ ddof
  · have : ((ns.length : Nat) : Int) ≤ (ddof : Int) := by exact_mod_cast hle
    simp [hle, this]
  · have hlt : ¬ (((ns.length : Nat) : Int) ≤ (ddof : Int)) := by
      intro h; apply hle; exact_mod_cast h
    have hz : ns.length ≠ 0 := by omega
    have hne : (toRats ns) ≠ [] := by
      intro hnil; apply hz; simpa [toRats] using congrArg List.length hnil
    have hlenR : ((ns.length : Int) : Rat) ≠ 0 := by exact_mod_cast hz
    simp only [fdiv, Int.cast_natCast, hlt, if_false, hle] at hlenR ⊢
    rw [if_neg hlenR]
    simp only
    have hsub : ((ns.length : Rat) - (ddof : Rat)) ≠ 0 := by
      intro h0
      have : (ns.length : Rat) = (ddof : Rat) := sub_eq_zero.mp h0
      have : ns.length = ddof := by exact_mod_cast this
      omega
    rw [if_neg hsub]
    have := var_identity (toRats ns) (ddof : Rat) hne
    simp only [toRats, List.length_map] at this
    rw [← this, cast_sumSq, cast_sum]
    rfl

/-- **`GroupBy.var` end to end**: for every mask kind, thread count and value chunking, the variance the
library computes for group `g` from its three kernel calls is the two-pass sample variance
`Σ(x − x̄)² / (n − ddof)` of the non-null values of the selected rows of `g`; it is null exactly when
the group has no more such values than `ddof` -/
theorem group_var_eq_two_pass (k : Kind) (hk : k.Supported) (rows : List Row) (mask : Mask) (threads : Nat)
    (vch : Option (List Nat)) (ddof : Nat) (out : Int → Option Rat)
    (hwf : ∀ r ∈ rows, WF k r.2) (hm : ∀ m, mask = .bool m → m.length = rows.length)
    (h : groupVar modelReducers k rows mask threads vch ddof = some out) (g : Int) (hg : 0 ≤ g) :
    ∃ sel, selectRows rows mask = some sel ∧
      out g = (let xs : List Rat := toRats (groupNums k sel g)
        if xs.length ≤ ddof then none
        else some (lsumDev (lsum xs / (xs.length : Rat)) xs / ((xs.length : Rat) - (ddof : Rat)))) := by
  unfold groupVar at h
  cases h2 : groupKernel modelReducers .sumSquares k rows mask threads vch with
  | none => simp [h2] at h
  | some p2 =>
  cases h1 : groupKernel modelReducers .sum k rows mask threads vch with
  | none => simp [h2, h1] at h
  | some p1 =>
  cases hc : groupKernel modelReducers .count k rows mask threads vch with
  | none => simp [h2, h1, hc] at h
  | some pc =>
  simp only [h2, h1, hc, Option.some.injEq] at h
  subst h
  obtain ⟨sel, hsel, e2⟩ := C04.groupKernel_eq_def .sumSquares k hk rows mask threads vch p2 hwf hm h2 g hg
  obtain ⟨sel1, hsel1, e1⟩ := C04.groupKernel_eq_def .sum k hk rows mask threads vch p1 hwf hm h1 g hg
  obtain ⟨selc, hselc, ec⟩ := C04.groupKernel_eq_def .count k hk rows mask threads vch pc hwf hm hc g hg
  have hs1 : sel1 = sel := Option.some.inj (hsel1.symm.trans hsel)
  have hsc : selc = sel := Option.some.inj (hselc.symm.trans hsel)
  rw [hs1] at e1; rw [hsc] at ec
  refine ⟨sel, hsel, ?_⟩
  have hwfs : ∀ v ∈ valsOf sel g, WF k v :=
    C04.valsOf_wf (fun r hr => hwf r (selectGen_mem rows mask sel hsel r hr)) g
  simp only [e2, e1, ec, spec_sum_num hwfs, spec_sumSq_num hwfs, spec_count_num hwfs, varFrom, groupNums]
  exact varFrom_eq _ ddof

/-- **`GroupBy.ratio`**: sum of the group's selected non-null numerators over sum of its denominators
(null when the denominator sum is zero) -/
theorem group_ratio_eq (k : Kind) (hk : k.Supported) (codes : List Int) (v1 v2 : List Val) (mask : Mask) (threads : Nat)
    (out : Int → Option Rat) (hwf1 : ∀ v ∈ v1, WF k v) (hwf2 : ∀ v ∈ v2, WF k v)
    (hm1 : ∀ m, mask = .bool m → m.length = (codes.zip v1).length)
    (hm2 : ∀ m, mask = .bool m → m.length = (codes.zip v2).length)
    (h : groupRatio modelReducers k codes v1 v2 mask threads = some out) (g : Int) (hg : 0 ≤ g) :
    ∃ s1 s2, selectRows (codes.zip v1) mask = some s1 ∧ selectRows (codes.zip v2) mask = some s2 ∧
      out g = fdiv (((groupNums k s1 g).foldr (· + ·) 0 : Int) : Rat) (((groupNums k s2 g).foldr (· + ·) 0 : Int) : Rat) := by
  unfold groupRatio at h
  cases h1 : groupKernel modelReducers .sum k (codes.zip v1) mask threads none with
  | none => simp [h1] at h
  | some p1 =>
  cases h2 : groupKernel modelReducers .sum k (codes.zip v2) mask threads none with
  | none => simp [h1, h2] at h
  | some p2 =>
  simp only [h1, h2, Option.some.injEq] at h
  subst h
  have hw1 : ∀ r ∈ codes.zip v1, WF k r.2 := fun r hr => hwf1 r.2 (List.of_mem_zip hr).2
  have hw2 : ∀ r ∈ codes.zip v2, WF k r.2 := fun r hr => hwf2 r.2 (List.of_mem_zip hr).2
  obtain ⟨s1, hs1, e1⟩ := C04.groupKernel_eq_def .sum k hk _ mask threads none p1 hw1 hm1 h1 g hg
  obtain ⟨s2, hs2, e2⟩ := C04.groupKernel_eq_def .sum k hk _ mask threads none p2 hw2 hm2 h2 g hg
  refine ⟨s1, s2, hs1, hs2, ?_⟩
  have hwfs1 : ∀ v ∈ valsOf s1 g, WF k v := C04.valsOf_wf (fun r hr => hw1 r (selectGen_mem _ mask s1 hs1 r hr)) g
  have hwfs2 : ∀ v ∈ valsOf s2 g, WF k v := C04.valsOf_wf (fun r hr => hw2 r (selectGen_mem _ mask s2 hs2 r hr)) g
  simp only [e1, e2, spec_sum_num hwfs1, spec_sum_num hwfs2, ratioFrom, groupNums]

/-- **`GroupBy.subset_ratio`**: sum over the rows selected by both masks over the sum over the rows the
global mask selects; null for a group without any row in the subset (its label is missing from the
numerator, and the division aligns on labels) -/
theorem group_subset_ratio_eq (k : Kind) (hk : k.Supported) (rows : List Row) (subset gm : List Bool) (threads : Nat)
    (out : Int → Option Rat) (hwf : ∀ r ∈ rows, WF k r.2) (hl1 : subset.length = rows.length) (hl2 : gm.length = rows.length)
    (h : groupSubsetRatio modelReducers k rows subset (some gm) threads = some out) (g : Int) (hg : 0 ≤ g) :
    out g = if (valsOf (selectBool rows (List.zipWith (· && ·) subset gm)) g).length = 0 then none else
      fdiv (((groupNums k (selectBool rows (List.zipWith (· && ·) subset gm)) g).foldr (· + ·) 0 : Int) : Rat)
        (((groupNums k (selectBool rows gm) g).foldr (· + ·) 0 : Int) : Rat) := by
  unfold groupSubsetRatio at h
  simp only at h
  cases h1 : groupKernel modelReducers .sum k rows (.bool (List.zipWith (· && ·) subset gm)) threads none with
  | none => simp [h1] at h
  | some p1 =>
  cases hn : groupKernel modelReducers .size k rows (.bool (List.zipWith (· && ·) subset gm)) threads none with
  | none => simp [h1, hn] at h
  | some pn =>
  cases h2 : groupKernel modelReducers .sum k rows (.bool gm) threads none with
  | none => simp [h1, hn, h2] at h
  | some p2 =>
  simp only [h1, hn, h2, Option.some.injEq] at h
  subst h
  have hlz : (List.zipWith (· && ·) subset gm).length = rows.length := by simp [hl1, hl2]
  obtain ⟨s1, hs1, e1⟩ := C04.groupKernel_eq_def .sum k hk rows _ threads none p1 hwf
    (fun m hm => by cases hm; exact hlz) h1 g hg
  obtain ⟨sn, hsn, en⟩ := C04.groupKernel_eq_def .size k hk rows _ threads none pn hwf
    (fun m hm => by cases hm; exact hlz) hn g hg
  obtain ⟨s2, hs2, e2⟩ := C04.groupKernel_eq_def .sum k hk rows _ threads none p2 hwf
    (fun m hm => by cases hm; exact hl2) h2 g hg
  have hwfs1 : ∀ v ∈ valsOf s1 g, WF k v := C04.valsOf_wf (fun r hr => hwf r (selectGen_mem _ _ s1 hs1 r hr)) g
  have hwfs2 : ∀ v ∈ valsOf s2 g, WF k v := C04.valsOf_wf (fun r hr => hwf r (selectGen_mem _ _ s2 hs2 r hr)) g
  simp only [selectRows, selectGen, hlz, hl2, if_true, Option.some.injEq] at hs1 hsn hs2
  subst hs1; subst hsn; subst hs2
  have en' : (pn g).2 = ((valsOf (selectBool rows (List.zipWith (· && ·) subset gm)) g).length : Int) := by
    rw [en]; rfl
  simp only [e1, en', e2, spec_sum_num hwfs1, spec_sum_num hwfs2, ratioFrom, groupNums, Int.natCast_eq_zero]

/-- the contribution of one row to a sum: its number when it is non-null, else nothing -/
def rowNum (k : Kind) (r : Row) : Int :=
  if isNull k r.2 then 0 else match r.2 with
    | .num n => n
    | .nan => 0

theorem groupNums_sum (k : Kind) (sel : List Row) (j : Int) :
    (groupNums k sel j).foldr (· + ·) 0 = aggM (fun a b : Int => a + b) 0 ((sel.filter fun r => r.1 = j).map (rowNum k)) := by
  induction sel with
  | nil => rfl
  | cons r rs ih =>
    obtain ⟨c, v⟩ := r
    simp only [groupNums, valsOf, nonNull, numsOf] at ih ⊢
    by_cases hj : c = j
    · cases hn : isNull k v
      · cases v with
        | num n => simp [hj, hn, rowNum, Val.toInt?, ih]
        | nan =>
          simp only [hj, hn, rowNum, decide_true, List.filter_cons_of_pos, List.map_cons, Bool.not_false, aggM_cons,
            Bool.false_eq_true, if_false, List.filterMap_cons, Val.toInt?]
          simpa using ih
      · simp [hj, hn, rowNum, ih]
    · simp [hj, ih]

/-- **`GroupBy.density`** (one key): the share, in percent, of the group's sum in the sum over *all*
selected rows that carry a (non-null) label -/
theorem group_density_eq (k : Kind) (hk : k.Supported) (rows : List Row) (mask : Mask) (ngroups threads : Nat)
    (out : Int → Option Rat) (hwf : ∀ r ∈ rows, WF k r.2) (hm : ∀ m, mask = .bool m → m.length = rows.length)
    (h : groupDensity modelReducers k rows mask ngroups threads = some out) (g : Int) (hg : 0 ≤ g) :
    ∃ sel, selectRows rows mask = some sel ∧
      out g = fdiv (100 * (((groupNums k sel g).foldr (· + ·) 0 : Int) : Rat))
        ((aggM (fun a b : Int => a + b) 0
          ((sel.filter fun r => r.1 ∈ (List.range ngroups).map Int.ofNat).map (rowNum k)) : Int) : Rat) := by
  unfold groupDensity at h
  cases h1 : groupKernel modelReducers .sum k rows mask threads none with
  | none => simp [h1] at h
  | some p =>
  simp only [h1, Option.some.injEq] at h
  subst h
  obtain ⟨sel, hsel, e1⟩ := C04.groupKernel_eq_def .sum k hk rows mask threads none p hwf hm h1 g hg
  refine ⟨sel, hsel, ?_⟩
  have hwfs : ∀ j, ∀ v ∈ valsOf sel j, WF k v :=
    fun j => C04.valsOf_wf (fun r hr => hwf r (selectGen_mem rows mask sel hsel r hr)) j
  have hall : ∀ j : Nat, (p (Int.ofNat j)).1 = .num ((groupNums k sel (Int.ofNat j)).foldr (· + ·) 0) := by
    intro j
    obtain ⟨sel', hsel', e⟩ := C04.groupKernel_eq_def .sum k hk rows mask threads none p hwf hm h1 (Int.ofNat j) (by simp)
    have : sel' = sel := Option.some.inj (hsel'.symm.trans hsel)
    rw [this] at e
    rw [e, spec_sum_num (hwfs _)]; rfl
  have htotal : (((List.range ngroups).map fun j => (p (Int.ofNat j)).1).filterMap Val.toInt?).foldr (· + ·) 0
      = aggM (fun a b : Int => a + b) 0 ((sel.filter fun r => r.1 ∈ (List.range ngroups).map Int.ofNat).map (rowNum k)) := by
    have hnd : ((List.range ngroups).map Int.ofNat).Nodup := by
      exact List.Nodup.map (fun a b hab => Int.ofNat.inj hab) List.nodup_range
    rw [← aggM_partition sum_laws (fun r : Row => r.1) (rowNum k) _ hnd sel]
    simp only [List.map_map, Function.comp_def, hall, List.filterMap_map, Val.toInt?, aggM]
    congr 1
    induction (List.range ngroups) with
    | nil => rfl
    | cons a as ih => simp [List.filterMap_cons, groupNums_sum, ih, aggM]
  simp only [e1, spec_sum_num (hwfs g), htotal, groupNums]

example : lsumDev (lsum [1, 2, 6] / 3) [1, 2, 6] / (3 - 1) = 7 := by decide +kernel

/-- **`var` from three runs of the translated kernel**: feeding `varFrom` with the `sum_squares`, `sum` and `count`
slots written by the translated `_group_by_reduce` (run with the translated reducers) gives, for every group, the
two-pass sample variance of the group's non-null values - null when there are no more of them than `ddof` -/
theorem source_var_eq_two_pass (k : Kind) (n : Nat) (sel : List Row) (hwf : ∀ r ∈ sel, WF k r.2) (ddof : Nat)
    (g : Int) (hg : 0 ≤ g) :
    varFrom ((C03.srcRun .sumSquares k n sel).1 g) ((C03.srcRun .sum k n sel).1 g) ((C03.srcRun .count k n sel).1 g) ddof
      = (let xs : List Rat := toRats (groupNums k sel g)
        if xs.length ≤ ddof then none
        else some (lsumDev (lsum xs / (xs.length : Rat)) xs / ((xs.length : Rat) - (ddof : Rat)))) := by
  have e2 := congrArg Prod.fst (C03.srcRun_eq .sumSquares k n sel g hg)
  have e1 := congrArg Prod.fst (C03.srcRun_eq .sum k n sel g hg)
  have ec := congrArg Prod.fst (C03.srcRun_eq .count k n sel g hg)
  simp only at e2 e1 ec
  rw [C04.kernel_eq_def _ _ _ _ hg] at e2 e1 ec
  have hwfs : ∀ v ∈ valsOf sel g, WF k v := C04.valsOf_wf hwf g
  rw [e2, e1, ec]
  simp only [spec_sum_num hwfs, spec_sumSq_num hwfs, spec_count_num hwfs, groupNums]
  exact varFrom_eq _ ddof

example :
    varFrom ((C03.srcRun .sumSquares .f 2 [(0, .num 1), (1, .num 5), (0, .num 3), (0, .nan)]).1 0)
      ((C03.srcRun .sum .f 2 [(0, .num 1), (1, .num 5), (0, .num 3), (0, .nan)]).1 0)
      ((C03.srcRun .count .f 2 [(0, .num 1), (1, .num 5), (0, .num 3), (0, .nan)]).1 0) 1 = some 2 := by decide +kernel

/-- `GroupBy.var` has the shape `varFrom` stands for (re-extracted from the AST of `core.py` on every run): the
one-pass formula `(sum_squares - sum ** 2 / count) / denominator` from three reductions, with the denominator
`count - ddof` where `count > ddof` and null elsewhere -/
theorem source_var_shape :
    Generated.Constants.varOnePassFormula = true ∧ Generated.Constants.varNullWhenCountLeDdof = true := by decide

end GV.C16
