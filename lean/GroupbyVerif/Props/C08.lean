import GroupbyVerif.Model.Cumulative
import GroupbyVerif.Props.C04
import GroupbyVerif.LoopBridge.Cumulative

/-!
# C08 — Cumulative operations are per-group prefix reductions
-/

namespace GV.C08
open GV

theorem selVals_cons (r : CRow) (rs : List CRow) (g : Int) :
    selVals (r :: rs) g = (if r.code = g ∧ r.sel = true then [r.val] else []) ++ selVals rs g := by
  unfold selVals
  by_cases h : r.code = g ∧ r.sel = true <;> simp [List.filter_cons, h]

/-- the loop's output at row `i` (non-null key `g`) is the running partial of group `g` over the
selected rows of the prefix `rows[0..i]` — for *any* starting state -/
theorem cumGo_at (red : Red) (st : Int → Partial) (rows : List CRow) (i : Nat) (r : CRow)
    (hi : rows[i]? = some r) (hg : 0 ≤ r.code) :
    (cumGo red st rows)[i]? = some (some ((selVals (rows.take (i + 1)) r.code).foldl (pstep red) (st r.code)).1) := by
  induction rows generalizing st i with
  | nil => simp at hi
  | cons x xs ih =>
    cases i with
    | zero =>
      simp only [List.getElem?_cons_zero, Option.some.injEq] at hi
      subst hi
      have hneg : ¬ x.code < 0 := by omega
      by_cases hs : x.sel = true
      · simp [cumGo, hneg, hs, selVals, pstep]
      · have hs' : x.sel = false := by simpa using hs
        simp [cumGo, hneg, hs', selVals]
    | succ j =>
      simp only [List.getElem?_cons_succ] at hi
      simp only [List.take_succ_cons, selVals_cons]
      by_cases hneg : x.code < 0
      · have hne : ¬ (x.code = r.code ∧ x.sel = true) := by intro h; omega
        simp only [cumGo, hneg, if_true, List.getElem?_cons_succ, hne, if_false, List.nil_append]
        exact ih st j hi
      · by_cases hs : x.sel = true
        · simp only [cumGo, hneg, if_false, hs, Bool.not_true, Bool.false_eq_true, List.getElem?_cons_succ]
          rw [ih _ j hi]
          by_cases hc : x.code = r.code
          · simp [hc, hs, upd, pstep]
          · have hc' : ¬ r.code = x.code := fun e => hc e.symm
            simp [hc, upd, hc']
        · have hs' : x.sel = false := by simpa using hs
          simp only [cumGo, hneg, if_false, hs', Bool.not_false, if_true, List.getElem?_cons_succ]
          rw [ih st j hi]
          simp [hs']

/-- null-key rows receive a marker that depends on nothing else -/
theorem cumGo_null_key (red : Red) (st : Int → Partial) (rows : List CRow) (i : Nat) (r : CRow)
    (hi : rows[i]? = some r) (hg : r.code < 0) : (cumGo red st rows)[i]? = some none := by
  induction rows generalizing st i with
  | nil => simp at hi
  | cons x xs ih =>
    cases i with
    | zero =>
      simp only [List.getElem?_cons_zero, Option.some.injEq] at hi
      subst hi
      simp [cumGo, hg]
    | succ j =>
      simp only [List.getElem?_cons_succ] at hi
      by_cases hneg : x.code < 0
      · simp only [cumGo, hneg, if_true, List.getElem?_cons_succ]; exact ih st j hi
      · by_cases hs : x.sel = true
        · simp only [cumGo, hneg, if_false, hs, Bool.not_true, Bool.false_eq_true, List.getElem?_cons_succ]
          exact ih _ j hi
        · have hs' : x.sel = false := by simpa using hs
          simp only [cumGo, hneg, if_false, hs', Bool.not_false, if_true, List.getElem?_cons_succ]
          exact ih st j hi

theorem cumGo_length (red : Red) (st : Int → Partial) (rows : List CRow) : (cumGo red st rows).length = rows.length := by
  induction rows generalizing st with
  | nil => rfl
  | cons x xs ih =>
    simp only [cumGo]
    split
    · simp [ih]
    · split <;> simp [ih]

/-- single-pass reducer over a list of values = per-group definition (from C04, restated per value list) -/
theorem runRed_eq_spec (kn : Kernel) (k : Kind) (vs : List Val) :
    runRed (kn.red modelReducers k) (kn.init k) vs = specKernel kn k vs := by
  have h := C04.kernel_eq_def kn k (vs.map fun v => ((0 : Int), v)) 0 (by omega)
  rw [groupByReduce_at _ _ _ _ (by omega)] at h
  have hv : valsOf (vs.map fun v => ((0 : Int), v)) 0 = vs := by
    simp [valsOf, List.filter_map, Function.comp_def]
  rw [hv] at h
  exact h

/-- **cumsum / cummin / cummax / cumcount (null-skipping) = per-group prefix reduction**, for every
interleaving of groups, null placement and mask: the whole output equals the specification -/
theorem cum_eq_prefix (op : CumOp) (k : Kind) (rows : List CRow) :
    cumulativeReduce (op.red modelReducers k true) (op.init k) rows = specCum op k rows := by
  apply List.ext_getElem?
  intro i
  unfold cumulativeReduce specCum
  by_cases hi : i < rows.length
  · have hr : rows[i]? = some rows[i] := List.getElem?_eq_getElem hi
    rw [List.getElem?_map, List.getElem?_range hi]
    simp only [Option.map_some, hr]
    by_cases hneg : rows[i].code < 0
    · rw [cumGo_null_key _ _ _ _ _ hr hneg]; simp [hneg]
    · rw [cumGo_at _ _ _ _ _ hr (by omega)]
      simp only [hneg, if_false]
      congr 2
      have := runRed_eq_spec (op.kernel true) k (selVals (rows.take (i + 1)) rows[i].code)
      unfold runRed at this
      cases op <;> simpa [CumOp.red, CumOp.init, CumOp.kernel, Kernel.red, Kernel.init] using congrArg Prod.fst this
  · have h1 : (cumGo (op.red modelReducers k true) (fun _ => (op.init k, 0)) rows)[i]? = none := by
      rw [List.getElem?_eq_none_iff, cumGo_length]; omega
    rw [h1]
    simp only [List.getElem?_map]
    rw [List.getElem?_eq_none_iff.mpr (by simp; omega)]
    rfl

/-- values of other groups and of unselected rows never enter a group's running value -/
theorem other_rows_inert (red : Red) (init : Val) (rows rows' : List CRow) (i : Nat) (r : CRow)
    (hi : rows[i]? = some r) (hi' : rows'[i]? = some r) (hg : 0 ≤ r.code)
    (h : selVals (rows.take (i + 1)) r.code = selVals (rows'.take (i + 1)) r.code) :
    (cumulativeReduce red init rows)[i]? = (cumulativeReduce red init rows')[i]? := by
  unfold cumulativeReduce
  rw [cumGo_at _ _ _ _ _ hi hg, cumGo_at _ _ _ _ _ hi' hg, h]

/-- the last cumulative value of a group is the group reduction over the whole input -/
theorem last_cum_eq_reduction (op : CumOp) (k : Kind) (rows : List CRow) (i : Nat) (r : CRow)
    (hi : rows[i]? = some r) (hg : 0 ≤ r.code)
    (hlast : selVals (rows.drop (i + 1)) r.code = []) :
    (specCum op k rows)[i]? = some (some (specKernel (op.kernel true) k (selVals rows r.code)).1) := by
  have hlt : i < rows.length := by
    rcases Nat.lt_or_ge i rows.length with h | h
    · exact h
    · rw [List.getElem?_eq_none_iff.mpr h] at hi; simp at hi
  unfold specCum
  rw [List.getElem?_map, List.getElem?_range hlt]
  have hneg : ¬ r.code < 0 := by omega
  simp only [Option.map_some, hi, hneg, if_false]
  have happ : ∀ a b : List CRow, selVals (a ++ b) r.code = selVals a r.code ++ selVals b r.code := by
    intro a b; simp [selVals, List.filter_append]
  have hsplit : selVals rows r.code = selVals (rows.take (i + 1)) r.code ++ selVals (rows.drop (i + 1)) r.code := by
    have := happ (rows.take (i + 1)) (rows.drop (i + 1))
    rw [List.take_append_drop] at this
    exact this
  rw [hsplit, hlast, List.append_nil]

/-- a null makes the non-skipping running sum null from there on (float kind) -/
theorem cumsum_noskip_sticky_null (vs : List Val) (h : Val.nan ∈ vs) :
    (runRed (Scalar.sum .f) (.num 0) vs).1 = .nan := by
  rw [runRed_sum]
  simp only [sumVals]
  have hgen : ∀ (a : Val) (l : List Val), (a = .nan ∨ Val.nan ∈ l) → l.foldl Val.add a = .nan := by
    intro a l
    induction l generalizing a with
    | nil => intro h; rcases h with h | h; exact h; simp at h
    | cons x xs ih =>
      intro h
      simp only [List.foldl_cons]
      apply ih
      rcases h with h | h
      · left; subst h; cases x <;> rfl
      · simp only [List.mem_cons] at h
        rcases h with h | h
        · left; subst h; cases a <;> rfl
        · right; exact h
  exact hgen _ _ (Or.inr h)

/-- null-key rows are skipped by the loop (`if key < 0` guard present in the source) and the
count is kept in at least 32 bits -/
theorem source_facts : Generated.Constants.guardCumulative = true ∧ 32 ≤ Generated.Constants.cumCountWidth := by decide

/-- the cumulative loop of the current source has the shape the model `cumGo` stands for: one running row counter over
the (chunked) values in order, the reducer is applied to the output at the group's previously written position and writes
the current row, that position is recorded per group, a masked row copies the group's previous output -/
theorem source_loop_shape :
    Generated.Constants.cumUpdatesFromLastSeen = true ∧ Generated.Constants.cumLastSeenTracked = true ∧
    Generated.Constants.cumMaskedPassThrough = true ∧ Generated.Constants.cumRowCounter = true ∧
    Generated.Constants.cumRowsInOrder = true := by decide

/-- non-vacuity: two interleaved groups, a null value, a null key, a masked row -/
example : cumulativeReduce (Scalar.nansum .f) (.num 0)
    [⟨0, .num 1, true⟩, ⟨1, .num 5, true⟩, ⟨-1, .num 9, true⟩, ⟨0, .nan, true⟩, ⟨0, .num 7, false⟩, ⟨0, .num 2, true⟩]
    = [some (.num 1), some (.num 5), none, some (.num 1), some (.num 1), some (.num 3)] := by decide

/-! ### the loop of the current source, end to end -/

/-- every reducer of the table counts at most one per row (needed for the `uint32` count array of the source) -/
theorem model_redCountOK (k : Kind) (name : String) : LoopBridge.RedCountOK (modelReducers k name) := by
  intro a v c
  unfold modelReducers
  split <;>
    simp only [Scalar.sum, Scalar.nansum, Scalar.nansum_squares, Scalar.max, Scalar.nanmax, Scalar.min, Scalar.nanmin,
      Scalar.nancount, Scalar.count, Scalar.first, Scalar.last, nanR] <;>
    (repeat' split) <;> simp

/-- **the translated `_cumulative_reduce`, run with the translated null-skipping reducer, is the per-group prefix
reduction**: `Generated.Loops.cumulative_reduce` is regenerated from `groupby_lib/groupby/numba.py` on every run;
for every chunking of the values, every mask and below `2^32` rows, the cell of every row holds the specification's
value (`specCum`), a null-key row keeps the target's initial value (it is overwritten with the null marker by
`_apply_cumulative` iff the returned flag is set, and the flag is set iff some key is null) -/
theorem source_loop_eq_spec (op : CumOp) (k : Kind) (codes : List Int) (chunks : List (List Val)) (msk : List Bool)
    (masked : Bool) (ng ml : Int) (hlen : codes.length = chunks.flatten.length)
    (hn : (codes.length : Int) < 2 ^ 32) :
    let rows := LoopBridge.cumRows codes chunks.flatten masked msk
    let r := Generated.Loops.cumulative_reduce k codes.length (arrOf codes 0) chunks (op.red generatedReducers k true) ng
      codes.length (fun _ => op.init k) masked ml (arrOf msk true)
    r.2 = false ∧ r.1.2 = rows.any (fun r => decide (r.code < 0)) ∧
      ∀ j, j < codes.length → r.1.1 (j : Int) = LoopBridge.outAt (op.init k) (specCum op k rows) j := by
  intro rows r
  have hok : LoopBridge.RedCountOK (op.red generatedReducers k true) := by
    rw [C04.generated_eq_model]
    cases op <;> simp only [CumOp.red] <;> exact model_redCountOK k _
  have h := LoopBridge.cumulative_reduce_eq k (op.red generatedReducers k true) hok (op.init k) codes chunks msk masked
    ng ml hlen hn
  obtain ⟨h1, h2, h3⟩ := h
  refine ⟨h1, h2, fun j hj => ?_⟩
  rw [h3 j hj, C04.generated_eq_model, cum_eq_prefix]

/-- non-vacuity: two chunks, two groups, a null key, a masked row, a NaN: cumsum -/
example :
    let r := Generated.Loops.cumulative_reduce .f 5 (arrOf [0, 1, -1, 0, 1] 0)
      [[.num 1, .num 10], [.num 7, .nan, .num 5]] (CumOp.sum.red generatedReducers .f true) 2 5
      (fun _ => CumOp.sum.init .f) true 5 (arrOf [true, true, true, true, false] true)
    ((List.range 5).map fun (j : Nat) => r.1.1 (j : Int), r.1.2) = ([.num 1, .num 10, .num 0, .num 1, .num 10], true) := by
  decide

end GV.C08
