import GroupbyVerif.Lemmas.Factorize
import GroupbyVerif.Lemmas.Monotonic
import GroupbyVerif.LoopBridge.CountingSort
import GroupbyVerif.LoopBridge.WeightCode
import GroupbyVerif.LoopBridge.MonoFact
import GroupbyVerif.LoopBridge.CombineFact

/-!
# C02 — Factorization is a faithful partition of the rows

Theorems about the factorization model (`Model/Factorize.lean`).  `factorizeFirst` is the
assumed behaviour of `pd.factorize`; the theorems show that it — and what the repository
builds on top of it — satisfies the four relations of the property for every key list.
The same four relations are evaluated directly on the implementation's output, for every
route, by the correspondence run (they need no model).
-/

namespace GV.C02
open GV

variable {κ : Type} [DecidableEq κ]

theorem codes_length (keys : List (Option κ)) : (factorizeFirst keys).1.length = keys.length := by
  simp [factorizeFirst]

theorem labels_nodup (keys : List (Option κ)) : (factorizeFirst keys).2.Nodup := nodup_dedup _

/-- no label without a row: every label is the key of some row -/
theorem labels_observed (keys : List (Option κ)) (l : κ) (h : l ∈ (factorizeFirst keys).2) : some l ∈ keys := by
  simp only [factorizeFirst, mem_dedup, List.mem_filterMap, id] at h
  obtain ⟨a, ha, rfl⟩ := h
  exact ha

theorem code_at (keys : List (Option κ)) (i : Nat) (h : i < keys.length) :
    (factorizeFirst keys).1[i]'(by rw [codes_length]; exact h) = codeOf (factorizeFirst keys).2 keys[i] := by
  simp [factorizeFirst]

/-- a row gets the null code exactly when its key is null -/
theorem null_code_iff_null_key (keys : List (Option κ)) (i : Nat) (h : i < keys.length) :
    (factorizeFirst keys).1[i]'(by rw [codes_length]; exact h) = -1 ↔ keys[i] = none := by
  rw [code_at _ _ h, codeOf_eq_neg_one_iff]

/-- codes are `-1` or valid label positions -/
theorem code_range (keys : List (Option κ)) (i : Nat) (h : i < keys.length) :
    -1 ≤ (factorizeFirst keys).1[i]'(by rw [codes_length]; exact h) ∧
    (factorizeFirst keys).1[i]'(by rw [codes_length]; exact h) < (factorizeFirst keys).2.length := by
  rw [code_at _ _ h]
  cases hk : keys[i] with
  | none => simp [codeOf]; omega
  | some x =>
    have hm : some x ∈ keys := hk ▸ List.getElem_mem h
    have := List.idxOf_lt_length_of_mem (key_mem_labels hm)
    simp [codeOf]; omega

/-- the label at a row's code equals the row's key -/
theorem label_at_code (keys : List (Option κ)) (i : Nat) (h : i < keys.length) (x : κ) (hk : keys[i] = some x) :
    ∃ c : Nat, (factorizeFirst keys).1[i]'(by rw [codes_length]; exact h) = (c : Int) ∧
      (factorizeFirst keys).2[c]? = some x := by
  refine ⟨(factorizeFirst keys).2.idxOf x, ?_, ?_⟩
  · rw [code_at _ _ h, hk]; rfl
  · exact getElem?_idxOf (key_mem_labels (hk ▸ List.getElem_mem h))

/-- two rows share a code exactly when their keys are equal -/
theorem codes_eq_iff_keys_eq (keys : List (Option κ)) (i j : Nat) (hi : i < keys.length) (hj : j < keys.length) :
    (factorizeFirst keys).1[i]'(by rw [codes_length]; exact hi) = (factorizeFirst keys).1[j]'(by rw [codes_length]; exact hj)
      ↔ keys[i] = keys[j] := by
  rw [code_at _ _ hi, code_at _ _ hj]
  constructor
  · intro hc
    cases hki : keys[i] with
    | none =>
      cases hkj : keys[j] with
      | none => rfl
      | some y => rw [hki, hkj] at hc; simp [codeOf] at hc
    | some x =>
      cases hkj : keys[j] with
      | none => rw [hki, hkj] at hc; simp [codeOf] at hc
      | some y =>
        rw [hki, hkj] at hc
        simp only [codeOf, Int.natCast_inj] at hc
        have hx := key_mem_labels (hki ▸ List.getElem_mem hi)
        have hy := key_mem_labels (hkj ▸ List.getElem_mem hj)
        rw [idxOf_inj hx hy hc]
  · intro hk; rw [hk]

/-! ### derived views: positions per group, the group-sorted indexer -/

theorem mem_positionsOf (codes : List Int) (g : Int) (i : Nat) :
    i ∈ positionsOf codes g ↔ codes[i]? = some g := by
  simp only [positionsOf, List.mem_map, List.mem_filter, decide_eq_true_eq]
  constructor
  · rintro ⟨⟨c, j⟩, ⟨hm, hc⟩, rfl⟩
    simp only at hc
    subst hc
    exact List.mk_mem_zipIdx_iff_getElem?.mp hm
  · intro h
    exact ⟨(g, i), ⟨List.mk_mem_zipIdx_iff_getElem?.mpr h, rfl⟩, rfl⟩

/-- positions inside a group are strictly ascending (hence each row is listed once) -/
theorem positionsOf_sorted (codes : List Int) (g : Int) : (positionsOf codes g).Pairwise (· < ·) := by
  unfold positionsOf
  have h : ∀ (k : Nat), (((codes.zipIdx k).filter (fun p => p.1 = g)).map (·.2)).Pairwise (· < ·) ∧
      ∀ x ∈ (((codes.zipIdx k).filter (fun p => p.1 = g)).map (·.2)), k ≤ x := by
    induction codes with
    | nil => intro k; simp
    | cons c cs ih =>
      intro k
      obtain ⟨ih1, ih2⟩ := ih (k + 1)
      simp only [List.zipIdx_cons, List.filter_cons]
      split
      · simp only [List.map_cons, List.pairwise_cons, List.mem_cons]
        refine ⟨⟨fun x hx => ?_, ih1⟩, ?_⟩
        · have := ih2 x hx; omega
        · rintro x (rfl | hx)
          · exact Nat.le_refl _
          · have := ih2 x hx; omega
      · exact ⟨ih1, fun x hx => by have := ih2 x hx; omega⟩
  exact (h 0).1

/-- the group listing covers exactly the rows with a valid non-null code -/
theorem mem_groupSortedIndexer (codes : List Int) (ng : Nat) (i : Nat) :
    i ∈ groupSortedIndexer codes ng ↔ ∃ g : Nat, g < ng ∧ codes[i]? = some (g : Int) := by
  simp only [groupSortedIndexer, List.mem_flatten, List.mem_map, List.mem_range]
  constructor
  · rintro ⟨l, ⟨g, hg, rfl⟩, hi⟩
    exact ⟨g, hg, (mem_positionsOf _ _ _).mp hi⟩
  · rintro ⟨g, hg, hc⟩
    exact ⟨_, ⟨g, hg, rfl⟩, (mem_positionsOf _ _ _).mpr hc⟩

/-- rows with a null (negative) code are never listed in any group -/
theorem null_rows_not_listed (codes : List Int) (ng : Nat) (i : Nat) (c : Int) (hc : codes[i]? = some c) (hneg : c < 0) :
    i ∉ groupSortedIndexer codes ng := by
  rw [mem_groupSortedIndexer]
  rintro ⟨g, _, hg⟩
  rw [hc] at hg
  simp at hg
  omega

/-! ### several keys: the mixed radix is injective and propagates nulls from *every* position -/

theorem weightCodeSum_none_iff (cs : List Int) (shape : List Nat) (hl : cs.length = shape.length) :
    weightCodeSum cs shape = none ↔ ∃ c ∈ cs, c < 0 := by
  induction cs generalizing shape with
  | nil => simp [weightCodeSum]
  | cons c cs ih =>
    cases shape with
    | nil => simp at hl
    | cons s ss =>
      simp only [List.length_cons, Nat.add_right_cancel_iff] at hl
      simp only [weightCodeSum, List.mem_cons, exists_eq_or_imp]
      by_cases hc : c < 0
      · simp [hc]
      · simp only [hc, if_false, false_or]
        rw [← ih ss hl]
        cases weightCodeSum cs ss <;> simp

def prodList (ss : List Nat) : Nat := ss.foldl (· * ·) 1

theorem foldl_mul (ss : List Nat) (a : Nat) : ss.foldl (· * ·) a = a * prodList ss := by
  unfold prodList
  induction ss generalizing a with
  | nil => simp
  | cons s ss ih => simp only [List.foldl_cons]; rw [ih, ih (1 * s)]; simp [Nat.mul_assoc]

theorem prodList_cons (s : Nat) (ss : List Nat) : prodList (s :: ss) = s * prodList ss := by
  unfold prodList; simp only [List.foldl_cons]; rw [foldl_mul]; simp [prodList]

/-- digits bounded by the shape -/
def Bounded : List Int → List Nat → Prop
  | [], [] => True
  | c :: cs, s :: ss => c < s ∧ Bounded cs ss
  | _, _ => False

theorem weightCodeSum_lt (cs : List Int) (shape : List Nat) (v : Nat) (hb : Bounded cs shape)
    (h : weightCodeSum cs shape = some v) : v < prodList shape := by
  induction cs generalizing shape v with
  | nil =>
    cases shape with
    | nil => simp [weightCodeSum] at h; subst h; simp [prodList]
    | cons s ss => simp [Bounded] at hb
  | cons c cs ih =>
    cases shape with
    | nil => simp [Bounded] at hb
    | cons s ss =>
      obtain ⟨hc, hb'⟩ := hb
      simp only [weightCodeSum] at h
      by_cases hneg : c < 0
      · simp [hneg] at h
      · simp only [hneg, if_false] at h
        cases hr : weightCodeSum cs ss with
        | none => simp [hr] at h
        | some r =>
          simp only [hr, Option.some.injEq] at h
          have hrlt := ih ss r hb' hr
          subst h
          rw [prodList_cons]
          have hcn : c.toNat < s := by omega
          have : c.toNat * prodList ss + r < (c.toNat + 1) * prodList ss := by
            rw [Nat.add_mul]; omega
          have h2 : (c.toNat + 1) * prodList ss ≤ s * prodList ss := Nat.mul_le_mul_right _ hcn
          show c.toNat * List.foldl (· * ·) 1 ss + r < s * prodList ss
          change c.toNat * prodList ss + r < s * prodList ss
          omega

/-- distinct code rows get distinct combined values (so equal combined codes ⇔ equal key tuples) -/
theorem weightCodeSum_injective (cs cs' : List Int) (shape : List Nat) (v : Nat)
    (hb : Bounded cs shape) (hb' : Bounded cs' shape)
    (h : weightCodeSum cs shape = some v) (h' : weightCodeSum cs' shape = some v) : cs = cs' := by
  induction cs generalizing cs' shape v with
  | nil =>
    cases shape with
    | nil => cases cs' with
      | nil => rfl
      | cons c' cs' => simp [Bounded] at hb'
    | cons s ss => simp [Bounded] at hb
  | cons c cs ih =>
    cases shape with
    | nil => simp [Bounded] at hb
    | cons s ss =>
      cases cs' with
      | nil => simp [Bounded] at hb'
      | cons c' cs' =>
        obtain ⟨hc, hbt⟩ := hb
        obtain ⟨hc', hbt'⟩ := hb'
        simp only [weightCodeSum] at h h'
        by_cases hneg : c < 0
        · simp [hneg] at h
        by_cases hneg' : c' < 0
        · simp [hneg'] at h'
        simp only [hneg, hneg', if_false] at h h'
        cases hr : weightCodeSum cs ss with
        | none => simp [hr] at h
        | some r =>
          cases hr' : weightCodeSum cs' ss with
          | none => simp [hr'] at h'
          | some r' =>
            simp only [hr, hr', Option.some.injEq] at h h'
            have hrlt := weightCodeSum_lt cs ss r hbt hr
            have hrlt' := weightCodeSum_lt cs' ss r' hbt' hr'
            change c.toNat * prodList ss + r = v at h
            change c'.toNat * prodList ss + r' = v at h'
            have hP : 0 < prodList ss := by omega
            have e1 : (c.toNat * prodList ss + r) / prodList ss = c.toNat := by
              rw [Nat.mul_comm, Nat.mul_add_div hP, Nat.div_eq_of_lt hrlt]; simp
            have e2 : (c'.toNat * prodList ss + r') / prodList ss = c'.toNat := by
              rw [Nat.mul_comm, Nat.mul_add_div hP, Nat.div_eq_of_lt hrlt']; simp
            have hcc : c.toNat = c'.toNat := by rw [← e1, ← e2, h, h']
            have hrr : r = r' := by
              have := h.trans h'.symm
              rw [hcc] at this
              omega
            have : c = c' := by omega
            subst this
            subst hrr
            rw [ih cs' ss r hbt hbt' hr hr']

/-! ### non-vacuity -/

example : factorizeFirst [some 7, none, some 3, some 7] = ([0, -1, 1, 0], [7, 3]) := by decide
example : weightCodeSum [1, 0, 2] [2, 2, 3] = some 8 ∧ Bounded [1, 0, 2] [2, 2, 3] :=
  ⟨by decide, by simp [Bounded]⟩
/-- a null in the LAST key yields the null code (the pinned `_weight_code_sum` returned a valid code here) -/
example : weightCodeSum [1, -1] [2, 3] = none := by decide
example : groupSortedIndexer [1, -1, 0, 1] 2 = [2, 0, 3] := by decide

/-! ## the sorted-prefix route (`_monotonic_factorization`) -/

/-- the run detection on a sorted prefix is a faithful factorization of that prefix, for every input: the prefix
`xs[:cut]` is null-free and non-decreasing and cannot be extended (the next element is a null or smaller), there is one
code per prefix row, the labels are strictly increasing (hence pairwise distinct), and the label at a row's code
has the row's key.  `lt` / `gt` may answer anything when a null is involved. -/
theorem monotonic_factorization_faithful {α : Type} (key : α → Nat) (isNull : α → Bool) (lt gt : α → α → Bool)
    (hord : Mono.OrderOK key isNull lt gt) (xs : List α) :
    Mono.Post key isNull xs (monotonicFactorization lt gt isNull xs) :=
  Mono.monotonic_post key isNull lt gt hord xs

/-- equal codes within the prefix mean equal keys, and vice versa -/
theorem monotonic_codes_eq_iff {α : Type} (key : α → Nat) (isNull : α → Bool) (lt gt : α → α → Bool)
    (hord : Mono.OrderOK key isNull lt gt) (xs : List α) (i j : Nat)
    (hi : i < (monotonicFactorization lt gt isNull xs).1) (hj : j < (monotonicFactorization lt gt isNull xs).1)
    (ci cj : Nat) (xi xj : α)
    (hci : (monotonicFactorization lt gt isNull xs).2.1[i]? = some ci) (hcj : (monotonicFactorization lt gt isNull xs).2.1[j]? = some cj)
    (hxi : xs[i]? = some xi) (hxj : xs[j]? = some xj) :
    ci = cj ↔ key xi = key xj := by
  have post := Mono.monotonic_post key isNull lt gt hord xs
  obtain ⟨c1, l1, x1, a1, a2, a3, a4⟩ := post.faithful i hi
  obtain ⟨c2, l2, x2, b1, b2, b3, b4⟩ := post.faithful j hj
  rw [hci] at a1; rw [hcj] at b1; rw [hxi] at a3; rw [hxj] at b3
  cases a1; cases b1; cases a3; cases b3
  constructor
  · intro h; subst h; rw [a2] at b2; cases b2; rw [← a4, ← b4]
  · intro h
    -- strictly increasing labels: equal keys force equal positions
    have hinc := post.labels_inc
    have h1 := List.getElem?_eq_some_iff.mp a2
    have h2 := List.getElem?_eq_some_iff.mp b2
    obtain ⟨hl1, e1⟩ := h1
    obtain ⟨hl2, e2⟩ := h2
    rcases Nat.lt_trichotomy ci cj with hlt | heq | hgt
    · have := List.pairwise_iff_getElem.mp hinc ci cj hl1 hl2 hlt
      rw [e1, e2, a4, b4, h] at this; exact absurd this (Nat.lt_irrefl _)
    · exact heq
    · have := List.pairwise_iff_getElem.mp hinc cj ci hl2 hl1 hgt
      rw [e1, e2, a4, b4, h] at this; exact absurd this (Nat.lt_irrefl _)

/-- a null first key gives the empty prefix (the caller then takes the general route) -/
theorem monotonic_null_first {α : Type} (key : α → Nat) (isNull : α → Bool) (lt gt : α → α → Bool)
    (hord : Mono.OrderOK key isNull lt gt) (x : α) (xs : List α) :
    (monotonicFactorization lt gt isNull (x :: xs)).1 = 0 ↔ isNull x = true :=
  Mono.monotonic_cut_zero key isNull lt gt hord x xs

/-- non-vacuity: float-like keys (`none` = NaN; comparisons with NaN are false) -/
example :
    monotonicFactorization (fun a b => match a, b with | some x, some y => decide (x < y) | _, _ => false)
      (fun a b => match a, b with | some x, some y => decide (x > y) | _, _ => false) (fun a => a.isNone)
      [some 1, some 1, some 4, none, some 5] = (3, [0, 0, 1], [some 1, some 4]) := by decide

end GV.C02

/-! ## several keys: `factorize_2d` end to end -/

namespace GV.C02.F2
open GV GV.C02

variable {κ : Type} [DecidableEq κ]

def labelsOf (col : List (Option κ)) : List κ := dedup (col.filterMap id)

def rowOf {α : Type} (cols : List (List α)) (i : Nat) : List α := cols.filterMap (·[i]?)

/-- the key of row `i` in one column (null when out of range) -/
def keyAt (col : List (Option κ)) (i : Nat) : Option κ := col[i]?.join

def codeRow (keyCols : List (List (Option κ))) (i : Nat) : List Int :=
  keyCols.map fun col => codeOf (labelsOf col) (keyAt col i)

def shapeOf (keyCols : List (List (Option κ))) : List Nat := keyCols.map fun col => (labelsOf col).length

theorem transpose_get {α : Type} (cols : List (List α)) (n i : Nat) (hi : i < n) :
    (transposeCols cols n)[i]? = some (rowOf cols i) := by
  simp [transposeCols, rowOf, List.getElem?_map, List.getElem?_range hi]

theorem rowOf_codes (keyCols : List (List (Option κ))) (n i : Nat) (hlen : ∀ c ∈ keyCols, c.length = n) (hi : i < n) :
    rowOf (keyCols.map fun col => (factorizeFirst col).1) i = codeRow keyCols i := by
  induction keyCols with
  | nil => rfl
  | cons col cols ih =>
    have hl : col.length = n := hlen col (List.mem_cons_self ..)
    have hic : i < col.length := by omega
    have ih' := ih (fun c hc => hlen c (List.mem_cons_of_mem _ hc))
    unfold rowOf codeRow at ih' ⊢
    simp only [List.map_cons, List.filterMap_cons]
    have h1 : (factorizeFirst col).1[i]? = some (codeOf (labelsOf col) (keyAt col i)) := by
      simp [factorizeFirst, labelsOf, keyAt, List.getElem?_map, List.getElem?_eq_getElem hic]
    rw [h1]
    simp only [ih']

theorem keyAt_mem (col : List (Option κ)) (i : Nat) (x : κ) (h : keyAt col i = some x) : x ∈ labelsOf col := by
  unfold keyAt at h
  cases hc : col[i]? with
  | none => simp [hc] at h
  | some v =>
    simp [hc] at h
    subst h
    unfold labelsOf
    rw [mem_dedup, List.mem_filterMap]
    exact ⟨some x, List.mem_of_getElem? hc, rfl⟩

theorem codeOf_inj (labels : List κ) (a b : Option κ) (ha : ∀ x, a = some x → x ∈ labels) (hb : ∀ x, b = some x → x ∈ labels) :
    codeOf labels a = codeOf labels b ↔ a = b := by
  cases a with
  | none => cases b with
    | none => simp
    | some y => simp [codeOf]
  | some x => cases b with
    | none => simp [codeOf]
    | some y =>
      simp only [codeOf, Option.some.injEq]
      constructor
      · intro h
        have : labels.idxOf x = labels.idxOf y := by exact_mod_cast h
        exact idxOf_inj (ha x rfl) (hb y rfl) this
      · intro h; subst h; rfl

theorem codeRow_bounded (keyCols : List (List (Option κ))) (i : Nat) (hnn : ∀ col ∈ keyCols, keyAt col i ≠ none) :
    Bounded (codeRow keyCols i) (shapeOf keyCols) := by
  induction keyCols with
  | nil => simp [codeRow, shapeOf, Bounded]
  | cons col cols ih =>
    simp only [codeRow, shapeOf, List.map_cons, Bounded]
    refine ⟨?_, ih (fun c hc => hnn c (List.mem_cons_of_mem _ hc))⟩
    cases hk : keyAt col i with
    | none => exact absurd hk (hnn col (List.mem_cons_self ..))
    | some x =>
      simp only [codeOf]
      have := List.idxOf_lt_length_of_mem (keyAt_mem col i x hk)
      exact_mod_cast this

theorem codeRow_none_iff (keyCols : List (List (Option κ))) (i : Nat) :
    weightCodeSum (codeRow keyCols i) (shapeOf keyCols) = none ↔ ∃ col ∈ keyCols, keyAt col i = none := by
  rw [weightCodeSum_none_iff _ _ (by simp [codeRow, shapeOf])]
  simp only [codeRow, List.mem_map]
  constructor
  · rintro ⟨c, ⟨col, hcol, rfl⟩, hneg⟩
    exact ⟨col, hcol, (codeOf_neg_iff _ _).mp hneg⟩
  · rintro ⟨col, hcol, hk⟩
    exact ⟨_, ⟨col, hcol, rfl⟩, (codeOf_neg_iff _ _).mpr hk⟩

theorem codeRow_eq_iff (keyCols : List (List (Option κ))) (i j : Nat) :
    codeRow keyCols i = codeRow keyCols j ↔ ∀ col ∈ keyCols, keyAt col i = keyAt col j := by
  unfold codeRow
  rw [List.map_inj_left]
  constructor
  · intro h col hcol
    exact (codeOf_inj (labelsOf col) _ _ (keyAt_mem col i) (keyAt_mem col j)).mp (h col hcol)
  · intro h col hcol
    rw [h col hcol]

end GV.C02.F2

namespace GV.C02
open GV GV.C02.F2

variable {κ : Type} [DecidableEq κ]

/-- **`factorize_2d`, end to end**: two rows get the same combined code exactly when both have a null in some key, or
neither has and they agree in every key column -/
theorem factorize2d_codes_eq_iff (keyCols : List (List (Option κ))) (n : Nat) (hlen : ∀ c ∈ keyCols, c.length = n)
    (i j : Nat) (hi : i < n) (hj : j < n) :
    (factorize2d keyCols n).1[i]? = (factorize2d keyCols n).1[j]? ↔
      ((∃ col ∈ keyCols, keyAt col i = none) ∧ (∃ col ∈ keyCols, keyAt col j = none)) ∨
      ((¬ ∃ col ∈ keyCols, keyAt col i = none) ∧ (¬ ∃ col ∈ keyCols, keyAt col j = none) ∧ ∀ col ∈ keyCols, keyAt col i = keyAt col j) := by
  -- the combined keys
  have hcomb : ∀ t, t < n →
      ((transposeCols ((keyCols.map factorizeFirst).map (·.1)) n).map (weightCodeSum · ((keyCols.map factorizeFirst).map (·.2.length))))[t]?
        = some (weightCodeSum (codeRow keyCols t) (shapeOf keyCols)) := by
    intro t ht
    rw [List.getElem?_map, transpose_get _ n t ht]
    simp only [Option.map_some, List.map_map]
    have h1 : (keyCols.map ((fun x => x.1) ∘ factorizeFirst)) = keyCols.map (fun col => (factorizeFirst col).1) := rfl
    have h2 : (keyCols.map ((fun x => x.2.length) ∘ factorizeFirst)) = shapeOf keyCols := rfl
    rw [h1, h2, rowOf_codes keyCols n t hlen ht]
  generalize hck : (transposeCols ((keyCols.map factorizeFirst).map (·.1)) n).map (weightCodeSum · ((keyCols.map factorizeFirst).map (·.2.length))) = ck at hcomb
  have hcklen : ck.length = n := by rw [← hck]; simp [transposeCols]
  have hcodes : (factorize2d keyCols n).1 = (factorizeFirst ck).1 := by
    unfold factorize2d
    simp only [hck]
  rw [hcodes]
  have hi' : i < ck.length := by omega
  have hj' : j < ck.length := by omega
  have hci := hcomb i hi
  have hcj := hcomb j hj
  rw [List.getElem?_eq_getElem hi'] at hci
  rw [List.getElem?_eq_getElem hj'] at hcj
  have hci' : ck[i] = weightCodeSum (codeRow keyCols i) (shapeOf keyCols) := Option.some.inj hci
  have hcj' : ck[j] = weightCodeSum (codeRow keyCols j) (shapeOf keyCols) := Option.some.inj hcj
  have hli : i < (factorizeFirst ck).1.length := by rw [codes_length]; exact hi'
  have hlj : j < (factorizeFirst ck).1.length := by rw [codes_length]; exact hj'
  rw [List.getElem?_eq_getElem hli, List.getElem?_eq_getElem hlj, Option.some.injEq,
    codes_eq_iff_keys_eq ck i j hi' hj', hci', hcj']
  -- now pure arithmetic on the mixed radix
  by_cases hni : ∃ col ∈ keyCols, keyAt col i = none
  · have h1 := (codeRow_none_iff keyCols i).mpr hni
    rw [h1]
    constructor
    · intro h
      exact Or.inl ⟨hni, (codeRow_none_iff keyCols j).mp h.symm⟩
    · rintro (⟨_, hnj⟩ | ⟨hc, _⟩)
      · exact ((codeRow_none_iff keyCols j).mpr hnj).symm
      · exact absurd hni hc
  · by_cases hnj : ∃ col ∈ keyCols, keyAt col j = none
    · have h2 := (codeRow_none_iff keyCols j).mpr hnj
      rw [h2]
      constructor
      · intro h; exact absurd ((codeRow_none_iff keyCols i).mp h) hni
      · rintro (⟨h, _⟩ | ⟨_, hc, _⟩)
        · exact absurd h hni
        · exact absurd hnj hc
    · have hbi := codeRow_bounded keyCols i (fun col hcol hk => hni ⟨col, hcol, hk⟩)
      have hbj := codeRow_bounded keyCols j (fun col hcol hk => hnj ⟨col, hcol, hk⟩)
      cases hvi : weightCodeSum (codeRow keyCols i) (shapeOf keyCols) with
      | none => exact absurd ((codeRow_none_iff keyCols i).mp hvi) hni
      | some vi =>
        constructor
        · intro h
          have := weightCodeSum_injective _ _ _ vi hbi hbj hvi h.symm
          exact Or.inr ⟨hni, hnj, (codeRow_eq_iff keyCols i j).mp this⟩
        · rintro (⟨h, _⟩ | ⟨_, _, hall⟩)
          · exact absurd h hni
          · rw [← hvi, (codeRow_eq_iff keyCols i j).mpr hall]


/-! ### the counting sort of the current source, end to end -/

/-- **the translated `_build_group_sorted_indexer_numba` lists, per group, exactly the ascending positions of its
rows**: `Generated.Loops.build_group_sorted_indexer` is regenerated from `groupby_lib/groupby/core.py` on every run.
For any chunking of the codes, any mask, codes below `ngroups` and the true group sizes, entry `j` of the segment of
group `g` (which starts at the sum of the sizes of the groups before it) is the `j`-th position of `g` - so the
segments partition the non-null-key rows (`mem_positionsOf`, `positionsOf_sorted`, `null_rows_not_listed`) -/
theorem source_counting_sort (k : Kind) (chunks : List (List Int)) (msk : List Bool) (masked : Bool)
    (cnt : Int → Int) (ng : Nat) (ml kml : Int) (km : Int → Int)
    (hrange : ∀ c ∈ chunks.flatten, c < (ng : Int))
    (hcnt : ∀ g : Nat, g < ng →
      cnt (g : Int) = ((positionsOf (effCodes masked chunks.flatten msk) (g : Int)).length : Int))
    (hc0 : ∀ g : Nat, 0 ≤ cnt (g : Int)) (g : Nat) (hg : g < ng) (j : Nat)
    (hj : j < (positionsOf (effCodes masked chunks.flatten msk) (g : Int)).length) :
    let r := Generated.Loops.build_group_sorted_indexer k chunks ng cnt false kml km masked ml (arrOf msk true)
    r.2 = false ∧
      r.1 (LoopBridge.pre cnt g + (j : Int)) =
        (((positionsOf (effCodes masked chunks.flatten msk) (g : Int))[j] : Nat) : Int) :=
  LoopBridge.build_group_sorted_indexer_eq k chunks msk masked cnt ng ml kml km hrange hcnt hc0 g hg j hj

/-- **the translated `_weight_code_sum` is the mixed-radix combination of the per-key codes, with the null code as soon
as ANY key is null**: `Generated.Loops.weight_code_sum` is regenerated from `factorization.py` on every run; for the
weights `factorize_2d` passes it returns `-1` iff some component code is `-1` (also the *last* one) and otherwise the
injective mixed-radix value (`weightCodeSum_injective`) -/
theorem source_weight_code_sum (k : Kind) (cs : List Int) (shape : List Nat) (hlen : cs.length = shape.length)
    (hm : cs ≠ []) (hge : ∀ c ∈ cs, -1 ≤ c) :
    let r := Generated.Loops.weight_code_sum k cs.length (arrOf cs 0) (LoopBridge.weightsOf shape).length
      (arrOf (LoopBridge.weightsOf shape) 0)
    r.2 = false ∧ r.1 = (match weightCodeSum cs shape with | none => (-1 : Int) | some v => (v : Int)) ∧
      (r.1 = -1 ↔ ∃ c ∈ cs, c = -1) := by
  intro r
  have h := LoopBridge.weight_code_sum_eq k cs shape hlen hm hge
  refine ⟨h.1, h.2, ?_⟩
  rw [h.2]
  obtain ⟨h1, h2⟩ := LoopBridge.weightCodeSum_char cs shape hlen hge
  by_cases ha : cs.any (fun c => c == -1) = true
  · rw [h1 ha]
    simp only [true_iff]
    simpa using ha
  · have ha' : cs.any (fun c => c == -1) = false := by
      cases hh : cs.any (fun c => c == -1) <;> simp_all
    obtain ⟨v, hv, _⟩ := h2 ha'
    rw [hv]
    constructor
    · intro hneg
      have : (0 : Int) ≤ (v : Int) := Int.natCast_nonneg v
      simp only at hneg
      omega
    · intro hex
      have : cs.any (fun c => c == -1) = true := by simpa using hex
      rw [ha'] at this; cases this

/-- **the translated `_monotonic_factorization` is the run detection `monotonicFactorization` on the concatenated
chunks** (cut-off, codes of the sorted prefix, labels), for any chunking - empty chunks anywhere - below `2^32` rows:
`Generated.Loops.monotonic_factorization` is regenerated from `factorization.py` on every run.  With
`monotonic_factorization_faithful` / `monotonic_codes_eq_iff` / `monotonic_null_first` this makes the sorted-prefix
route a statement about the source: the prefix ends at the first decrease or the first null (`x != x`), labels are
strictly increasing and the label at a row's code is the row's key.  The translation's error flag is raised only for
a one-row input (`return i + 1` reads the variable of a loop that did not run; numba returns the right value) -/
theorem source_monotonic_eq_model (k : Kind) (chunks : List (List Val)) (htot : (chunks.flatten.length : Int) < 2 ^ 32) :
    let r := Generated.Loops.monotonic_factorization k chunks chunks.flatten.length
    LoopBridge.MAgree r.1 (monotonicFactorization Val.lt Val.gt (fun x => Val.neF x x) chunks.flatten) ∧
      (chunks.flatten.length ≠ 1 → r.2 = false) :=
  LoopBridge.monotonic_factorization_eq k chunks htot

/-- non-vacuity: chunks [[], [1, 1], [], [3, NaN, 5]]: prefix of length 3, codes 0 0 1, labels 1 3 -/
example :
    let r := Generated.Loops.monotonic_factorization .f [[], [.num 1, .num 1], [], [.num 3, .nan, .num 5]] 5
    (r.1.1, (List.range 3).map (fun (j : Nat) => r.1.2.1 (j : Int)), (List.range 2).map (fun (j : Nat) => r.1.2.2.1 (j : Int)),
      r.1.2.2.2, r.2) = (3, [0, 0, 1], [.num 1, .num 3], 2, false) := by decide

/-- non-vacuity: codes (2, -1) and (2, 1) under shape (3, 4) -/
example : (Generated.Loops.weight_code_sum .f 2 (arrOf [2, -1] 0) 2 (arrOf [4, 1] 0),
    Generated.Loops.weight_code_sum .f 2 (arrOf [2, 1] 0) 2 (arrOf [4, 1] 0)) = ((-1, false), (9, false)) := by decide

/-- non-vacuity: two chunks, a null key, sizes 1 and 2: the indexer is [2, 0, 3] -/
example :
    let r := Generated.Loops.build_group_sorted_indexer .f [[1, -1], [0, 1]] 2 (arrOf [1, 2] 0) false 0 (fun _ => 0)
      false 0 (arrOf [] true)
    ((List.range 3).map fun (p : Nat) => r.1 (p : Int)) = [2, 0, 3] := by decide

/-! ### `_combine_factorizations` (array tracker), translated from `factorization.py` on every run -/

/-- the code matrix as the array the kernel reads (`rows[i][c]`) -/
def matOf (rows : List (List Int)) : Int → Int → Int := fun i c => (rows.getD i.toNat []).getD c.toNat 0

/-- mixed-radix key of a row of per-key codes, `-1` when some key is null -/
def mixedKey (shape : List Nat) (r : List Int) : Int :=
  match weightCodeSum r shape with | none => -1 | some v => (v : Int)

/-- the keys the translated loop computes are the mixed-radix keys of the model -/
theorem combine_keys (k : Kind) (rows : List (List Int)) (shape : List Nat) (hs : shape ≠ [])
    (hlen : ∀ r ∈ rows, r.length = shape.length) (hge : ∀ r ∈ rows, ∀ c ∈ r, -1 ≤ c) :
    (∀ i : Nat, i < rows.length →
      Generated.Loops.weight_code_sum k shape.length (matOf rows (i : Int)) (LoopBridge.weightsOf shape).length
        (arrOf (LoopBridge.weightsOf shape) 0) = (mixedKey shape (rows.getD i []), false)) ∧
    LoopBridge.cfKeys k rows.length shape.length (matOf rows) (LoopBridge.weightsOf shape).length
      (arrOf (LoopBridge.weightsOf shape) 0) = rows.map (mixedKey shape) := by
  have hrowfn : ∀ i : Nat, matOf rows (i : Int) = arrOf (rows.getD i []) 0 := by
    intro i; funext c; simp [matOf, arrOf]
  have hmem : ∀ i : Nat, i < rows.length → rows.getD i [] ∈ rows := by
    intro i hi; rw [List.getD_eq_getElem?_getD, List.getElem?_eq_getElem hi]; exact List.getElem_mem hi
  have hw : ∀ i : Nat, i < rows.length →
      Generated.Loops.weight_code_sum k shape.length (matOf rows (i : Int)) (LoopBridge.weightsOf shape).length
        (arrOf (LoopBridge.weightsOf shape) 0) = (mixedKey shape (rows.getD i []), false) := by
    intro i hi
    have hr := hmem i hi
    have hne : rows.getD i [] ≠ [] := by
      intro h0; have := hlen _ hr; rw [h0] at this; exact hs (List.length_eq_zero_iff.mp this.symm)
    have h := LoopBridge.weight_code_sum_eq k (rows.getD i []) shape (hlen _ hr) hne (hge _ hr)
    rw [hrowfn i, ← hlen _ hr]
    exact Prod.ext h.2 h.1
  refine ⟨hw, ?_⟩
  apply List.ext_getElem?
  intro i
  by_cases hi : i < rows.length
  · rw [LoopBridge.cfKeys_get _ _ _ _ _ _ i hi]
    unfold LoopBridge.cfKey
    rw [hw i hi]
    simp [List.getD_eq_getElem?_getD, List.getElem?_eq_getElem hi]
  · rw [List.getElem?_eq_none_iff.mpr (by rw [LoopBridge.cfKeys_length]; omega),
      List.getElem?_eq_none_iff.mpr (by simp; omega)]

/-- **several keys, the combination step at the source level**: for every matrix of per-key codes (every row as long
as the shape, entries `-1` or below the shape's digit bound), the translated `_combine_factorizations`, run with the
weights `factorize_2d` passes and an array tracker of `prod(shape) > 0` cells initialised to `-1`, numbers the rows'
mixed-radix keys in order of first appearance: the code of a row is `-1` iff some key of the row is null, otherwise the
position of its key among the distinct keys (so two rows get the same code iff their keys are equal), and `uniques[g]`
is the code row where the `g`-th distinct key first appears; no error is flagged.  The aliasing `uniques = codes` of
the source is part of what is proved (rows not yet visited are never overwritten). -/
theorem source_combine_factorizations (k : Kind) (rows : List (List Int)) (shape : List Nat) (hs : shape ≠ [])
    (hp : 0 < prodList shape)
    (hlen : ∀ r ∈ rows, r.length = shape.length) (hge : ∀ r ∈ rows, ∀ c ∈ r, -1 ≤ c)
    (hb : ∀ r ∈ rows, ∀ v, weightCodeSum r shape = some v → v < prodList shape)
    (tracker : Int → Int) (htr : ∀ x : Int, 0 ≤ x → x < (prodList shape : Int) → tracker x = -1) :
    let keys := rows.map (mixedKey shape)
    let L := dedup (keys.filter (fun x => decide (x ≠ -1)))
    let r := Generated.Loops.combine_factorizations_arr k rows.length shape.length (matOf rows)
      (LoopBridge.weightsOf shape).length (arrOf (LoopBridge.weightsOf shape) 0) (prodList shape : Int) tracker
    r.2 = false ∧ r.1.2.2 = (L.length : Int) ∧
      (∀ j : Nat, j < rows.length → r.1.1 (j : Int) = if keys.getD j 0 = -1 then -1 else (L.idxOf (keys.getD j 0) : Int)) ∧
      (∀ g : Nat, g < L.length → ∀ c : Int, r.1.2.1 (g : Int) c = matOf rows ((keys.idxOf (L.getD g 0) : Nat) : Int) c) := by
  intro keys L r
  obtain ⟨hw, hkeys⟩ := combine_keys k rows shape hs hlen hge
  have hmem : ∀ i : Nat, i < rows.length → rows.getD i [] ∈ rows := by
    intro i hi; rw [List.getD_eq_getElem?_getD, List.getElem?_eq_getElem hi]; exact List.getElem_mem hi
  have hkey : ∀ i : Nat, i < rows.length →
      LoopBridge.cfKey k shape.length (matOf rows) (LoopBridge.weightsOf shape).length (arrOf (LoopBridge.weightsOf shape) 0) i
        = mixedKey shape (rows.getD i []) := by
    intro i hi; unfold LoopBridge.cfKey; rw [hw i hi]
  have hkd : ∀ i : Nat, i < rows.length → keys.getD i 0 = mixedKey shape (rows.getD i []) := by
    intro i hi; simp [keys, List.getD_eq_getElem?_getD, List.getElem?_eq_getElem hi]
  have hL : LoopBridge.cfLabels k rows.length shape.length (matOf rows) (LoopBridge.weightsOf shape).length
      (arrOf (LoopBridge.weightsOf shape) 0) rows.length = L := by
    unfold LoopBridge.cfLabels
    rw [hkeys, List.take_of_length_le (by simp)]
  have hpos : (0 : Int) < (prodList shape : Int) := by exact_mod_cast hp
  have h := LoopBridge.combine_factorizations_arr_eq k rows.length shape.length (matOf rows)
    (LoopBridge.weightsOf shape).length (arrOf (LoopBridge.weightsOf shape) 0) (prodList shape : Int) tracker hpos htr
    (fun i hi => by rw [hw i hi])
    (fun i hi => by
      rw [hkey i hi]
      unfold mixedKey
      cases hv : weightCodeSum (rows.getD i []) shape with
      | none => left; rfl
      | some v =>
        right
        have := hb _ (hmem i hi) v hv
        exact ⟨Int.natCast_nonneg v, by show ((v : Nat) : Int) < _; exact_mod_cast this⟩)
  simp only [hL, hkeys] at h
  obtain ⟨h1, h2, h3, h4⟩ := h
  refine ⟨h1, h2, fun j hj => ?_, h4⟩
  rw [h3 j hj, hkey j hj, hkd j hj]

/-- the same with the dict tracker (`nb.typed.Dict`, empty at entry): no bound on the keys is needed and no `KeyError`
is raised -/
theorem source_combine_factorizations_dict (k : Kind) (rows : List (List Int)) (shape : List Nat) (hs : shape ≠ [])
    (hlen : ∀ r ∈ rows, r.length = shape.length) (hge : ∀ r ∈ rows, ∀ c ∈ r, -1 ≤ c) :
    let keys := rows.map (mixedKey shape)
    let L := dedup (keys.filter (fun x => decide (x ≠ -1)))
    let r := Generated.Loops.combine_factorizations_dict k rows.length shape.length (matOf rows)
      (LoopBridge.weightsOf shape).length (arrOf (LoopBridge.weightsOf shape) 0) 0 (fun _ => none)
    r.2 = false ∧ r.1.2.2 = (L.length : Int) ∧
      (∀ j : Nat, j < rows.length → r.1.1 (j : Int) = if keys.getD j 0 = -1 then -1 else (L.idxOf (keys.getD j 0) : Int)) ∧
      (∀ g : Nat, g < L.length → ∀ c : Int, r.1.2.1 (g : Int) c = matOf rows ((keys.idxOf (L.getD g 0) : Nat) : Int) c) := by
  intro keys L r
  obtain ⟨hw, hkeys⟩ := combine_keys k rows shape hs hlen hge
  have hkey : ∀ i : Nat, i < rows.length →
      LoopBridge.cfKey k shape.length (matOf rows) (LoopBridge.weightsOf shape).length (arrOf (LoopBridge.weightsOf shape) 0) i
        = mixedKey shape (rows.getD i []) := by
    intro i hi; unfold LoopBridge.cfKey; rw [hw i hi]
  have hkd : ∀ i : Nat, i < rows.length → keys.getD i 0 = mixedKey shape (rows.getD i []) := by
    intro i hi; simp [keys, List.getD_eq_getElem?_getD, List.getElem?_eq_getElem hi]
  have hL : LoopBridge.cfLabels k rows.length shape.length (matOf rows) (LoopBridge.weightsOf shape).length
      (arrOf (LoopBridge.weightsOf shape) 0) rows.length = L := by
    unfold LoopBridge.cfLabels
    rw [hkeys, List.take_of_length_le (by simp)]
  have h := LoopBridge.combine_factorizations_dict_eq k rows.length shape.length (matOf rows)
    (LoopBridge.weightsOf shape).length (arrOf (LoopBridge.weightsOf shape) 0) (fun i hi => by rw [hw i hi])
  simp only [hL, hkeys] at h
  obtain ⟨h1, h2, h3, h4⟩ := h
  refine ⟨h1, h2, fun j hj => ?_, h4⟩
  rw [h3 j hj, hkey j hj, hkd j hj]

/-- non-vacuity: two keys with shape (2, 3); rows (1,2) (0,1) (1,-1) (1,2) (0,1) (0,0): codes 0 1 -1 0 1 2, three
distinct keys, `uniques` holds the rows (1,2) (0,1) (0,0) -/
example :
    let rows : List (List Int) := [[1, 2], [0, 1], [1, -1], [1, 2], [0, 1], [0, 0]]
    let r := Generated.Loops.combine_factorizations_arr .f 6 2 (matOf rows) 2 (arrOf (LoopBridge.weightsOf [2, 3]) 0) 6
      (fun _ => -1)
    ((List.range 6).map (fun (j : Nat) => r.1.1 (j : Int)), r.1.2.2,
      (List.range 3).map (fun (g : Nat) => (r.1.2.1 (g : Int) 0, r.1.2.1 (g : Int) 1)), r.2)
      = ([0, 1, -1, 0, 1, 2], 3, [(1, 2), (0, 1), (0, 0)], false) := by decide

end GV.C02
