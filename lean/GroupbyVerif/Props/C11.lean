import GroupbyVerif.Props.C01

/-!
# C11 — Result labelling, order and shape are determined by the inputs
-/

namespace GV.C11
open GV

/-! ### lexicographic order on key tuples is a total preorder -/

theorem keyLe_total (a b : Key) : (keyLe a b || keyLe b a) = true := by
  induction a generalizing b with
  | nil => simp [keyLe]
  | cons x xs ih =>
    cases b with
    | nil => simp [keyLe]
    | cons y ys =>
      simp only [keyLe]
      by_cases h1 : x < y
      · simp [h1]
      · by_cases h2 : y < x
        · simp [h1, h2]
        · simp [h1, h2, ih ys]

theorem keyLe_trans (a b c : Key) (h1 : keyLe a b = true) (h2 : keyLe b c = true) : keyLe a c = true := by
  induction a generalizing b c with
  | nil => simp [keyLe]
  | cons x xs ih =>
    cases b with
    | nil => simp [keyLe] at h1
    | cons y ys =>
      cases c with
      | nil => simp [keyLe] at h2
      | cons z zs =>
        simp only [keyLe] at h1 h2 ⊢
        by_cases hxy : x < y
        · by_cases hyz : y < z
          · have : x < z := by omega
            simp [this]
          · by_cases hzy : z < y
            · simp [hyz, hzy] at h2
            · have : y = z := by omega
              subst this; simp [hxy]
        · by_cases hyx : y < x
          · simp [hxy, hyx] at h1
          · have hxy' : x = y := by omega
            subst hxy'
            by_cases hxz : x < z
            · simp [hxz]
            · by_cases hzx : z < x
              · simp [hxz, hzx] at h2
              · simp only [hxz, hzx, if_false] at h2 ⊢
                simp only [hxy, hyx, if_false] at h1
                exact ih ys zs h1 h2

/-- **labels come in ascending (lexicographic) order and nothing is lost or invented by sorting** -/
theorem labels_sorted (ls : List Key) :
    (sortLabels ls).Pairwise (fun a b => keyLe a b = true) ∧ (sortLabels ls).Perm ls := by
  constructor
  · exact List.pairwise_mergeSort (fun a b c => keyLe_trans a b c) (fun a b => keyLe_total a b) ls
  · exact List.mergeSort_perm ls keyLe

/-- with sorting on, the specification lists exactly the observed labels, in ascending order -/
theorem spec_labels_sorted (kn : Kernel) (k : Kind) (keys : List (Option Key)) (vals : List Val) (mask : Mask)
    (r : List (Key × Partial)) (h : specReduce kn k keys vals mask true = some r) :
    (r.map (·.1)).Pairwise (fun a b => keyLe a b = true) := by
  simp only [specReduce] at h
  split at h
  · simp at h
  · simp only [if_true, Option.some.injEq] at h
    subst h
    simp only [List.map_map, Function.comp_def, List.map_id']
    exact (labels_sorted _).1

/-- with sorting off the labels keep the order of first appearance in the input (a sub-list of the
de-duplicated keys) -/
theorem spec_labels_first_appearance (kn : Kernel) (k : Kind) (keys : List (Option Key)) (vals : List Val) (mask : Mask)
    (r : List (Key × Partial)) (h : specReduce kn k keys vals mask false = some r) :
    (r.map (·.1)).Sublist (dedup (keys.filterMap id)) := by
  simp only [specReduce] at h
  split at h
  · simp at h
  · simp only [Bool.false_eq_true, if_false, Option.some.injEq] at h
    subst h
    simp only [List.map_map, Function.comp_def, List.map_id']
    exact List.filter_sublist

/-! ### shape: Series or DataFrame, column naming (decision logic of `_maybe_squeeze_to_1d` / `_col_names_from_value_names`) -/

inductive ValuesShape where
  | array1d (named : Bool)        -- ndarray / Series / Index / arrow array / polars Series
  | listOfScalars
  | collection (n : Nat)          -- list / tuple / dict of arrays
  | frame (ncols : Nat)           -- DataFrame / 2-D array
deriving DecidableEq, Repr

inductive OutShape where
  | series | dataFrame (ncols : Nat)
deriving DecidableEq, Repr

def nValues : ValuesShape → Nat
  | .array1d _ => 1 | .listOfScalars => 1 | .collection n => n | .frame n => n

/-- `_maybe_squeeze_to_1d`: squeeze iff a single 1-D input (or a list of scalars, i.e. one array) -/
def shapeOf : ValuesShape → OutShape
  | .array1d _ => .series
  | .listOfScalars => .series
  | .collection n => .dataFrame n
  | .frame n => .dataFrame n

theorem series_iff_single_1d (v : ValuesShape) :
    shapeOf v = .series ↔ (∃ b, v = .array1d b) ∨ v = .listOfScalars := by
  cases v <;> simp [shapeOf]

theorem columns_one_per_input (v : ValuesShape) (n : Nat) (h : shapeOf v = .dataFrame n) : n = nValues v := by
  cases v <;> simp [shapeOf, nValues] at h ⊢ <;> omega

/-- column names: the input's name, `_arr_<i>` for unnamed inputs — positions are kept, so columns
come in input order -/
def colNames (names : List (Option String)) : List String :=
  names.zipIdx.map fun p => match p.1 with | some s => s | none => s!"_arr_{p.2}"

theorem colNames_length (names : List (Option String)) : (colNames names).length = names.length := by
  simp [colNames]

/-- **column independence**: every value column is reduced on its own, so column `j` of the result is
the result for input `j` alone -/
theorem column_independent {α β : Type} (reduce : α → β) (vs : List α) (j : Nat) (h : j < vs.length) :
    (vs.map reduce)[j]'(by simpa using h) = reduce vs[j] := by simp

example : keyLe [1, 5] [2, 0] = true ∧ keyLe [1, 5] [1, 2] = false := by decide
example : colNames [some "x", none, some "y"] = ["x", "_arr_1", "y"] := by decide

end GV.C11
