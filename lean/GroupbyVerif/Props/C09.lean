import GroupbyVerif.Lemmas.Ring
import GroupbyVerif.Lemmas.RingMax
import GroupbyVerif.Props.C08
import GroupbyVerif.Generated.Constants
import GroupbyVerif.LoopBridge.RollingMax

/-!
# C09 — Rolling operations are per-group sliding-window reductions

Proved here: the loop's output at every selected row is computed from the ring state of the
row's group after exactly that group's selected rows; the ring state satisfies `RInv` (buffer =
last `window` values in ring order, running sum and non-null count agree with it); hence
rolling sum / mean equal the window reduction with the `min_periods` rule, and shift / diff
return the value `window` group-rows earlier / the difference to it.
Rolling max / min: `Lemmas/RingMax.lean` proves the invariant `MInv` of `mstep` (the kept extremum is the extremum
of the window's non-null values: incremental while filling, replaced by a better value, otherwise recomputed by a
scan of the circular buffer, which holds exactly the window) and `rolling_max_eq_window` / `rolling_min_eq_window`
follow; `rolling_shift_diff_eq_window` covers shift and diff.  (Earlier note:) rolling min/max (`mstep`) is part of the
executable model and tied by correspondence only — *partial*.
-/

namespace GV.C09
open GV

/-- output at row `i`: computed from the group's ring state folded over its selected prefix -/
theorem rollGo_at (k : Kind) (op : RollOp) (w minp : Nat) (st : Int → RS) (rows : List CRow) (i : Nat) (r : CRow)
    (hi : rows[i]? = some r) (hg : 0 ≤ r.code) (hs : r.sel = true) :
    (rollGo k op w minp st rows)[i]? =
      let before := (selVals (rows.take i) r.code).foldl (rollStep k op w) (st r.code)
      some (some (rollOut k op w minp before (rollStep k op w before r.val) r.val)) := by
  induction rows generalizing st i with
  | nil => simp at hi
  | cons x xs ih =>
    cases i with
    | zero =>
      simp only [List.getElem?_cons_zero, Option.some.injEq] at hi
      subst hi
      have hneg : ¬ x.code < 0 := by omega
      simp [rollGo, hneg, hs, selVals]
    | succ j =>
      simp only [List.getElem?_cons_succ] at hi
      simp only [List.take_succ_cons, C08.selVals_cons]
      by_cases hskip : (x.code < 0 || !x.sel) = true
      · have hne : ¬ (x.code = r.code ∧ x.sel = true) := by
          intro ⟨h1, h2⟩
          simp only [Bool.or_eq_true, decide_eq_true_eq, Bool.not_eq_true'] at hskip
          rcases hskip with h | h
          · omega
          · rw [h2] at h; cases h
        simp only [rollGo, hskip, if_true, List.getElem?_cons_succ, hne, if_false, List.nil_append]
        exact ih st j hi
      · have hskip' : (x.code < 0 || !x.sel) = false := by simpa using hskip
        simp only [Bool.or_eq_false_iff, decide_eq_false_iff_not, Bool.not_eq_false'] at hskip'
        simp only [rollGo, hskip, Bool.false_eq_true, if_false, List.getElem?_cons_succ]
        rw [ih _ j hi]
        by_cases hc : x.code = r.code
        · simp [hc, hskip'.2, upd]
        · have hc' : ¬ r.code = x.code := fun e => hc e.symm
          simp [hc, upd, hc']

theorem selVals_take_succ (rows : List CRow) (i : Nat) (r : CRow) (hi : rows[i]? = some r) (hs : r.sel = true) :
    selVals (rows.take (i + 1)) r.code = selVals (rows.take i) r.code ++ [r.val] := by
  have hlt : i < rows.length := by
    rcases Nat.lt_or_ge i rows.length with h | h
    · exact h
    · rw [List.getElem?_eq_none_iff.mpr h] at hi; simp at hi
  have hr : rows[i] = r := by
    have := List.getElem?_eq_getElem hlt
    rw [this] at hi; exact Option.some.inj hi
  rw [List.take_succ_eq_append_getElem hlt, hr]
  simp [selVals, List.filter_append, hs]

/-- **rolling sum** (and the `min_periods` rule): at every selected row, the sum of the non-null
values among the last `window` selected rows of the same group, null unless ≥ `min_periods` are non-null -/
theorem rolling_sum_eq_window (k : Kind) (w minp : Nat) (hw : 0 < w) (rows : List CRow) (i : Nat) (r : CRow)
    (hi : rows[i]? = some r) (hg : 0 ≤ r.code) (hs : r.sel = true) :
    (rolling k .sum w minp rows)[i]? = some (some (specRollAt k .sum w minp (selVals (rows.take (i + 1)) r.code))) := by
  unfold rolling
  rw [rollGo_at k .sum w minp _ rows i r hi hg hs]
  have hstep : rollStep k RollOp.sum w = rstep k w := by funext s v; rfl
  simp only [hstep]
  have hinv := rinv_fold k w hw (selVals (rows.take i) r.code ++ [r.val])
  rw [List.foldl_append] at hinv
  simp only [List.foldl_cons, List.foldl_nil] at hinv
  rw [selVals_take_succ rows i r hi hs]
  simp only [rollOut, specRollAt, hinv.sum, hinv.nn, sumNN_eq, cntNN_eq]
  simp

/-- **rolling mean** = window sum / window non-null count, same `min_periods` rule -/
theorem rolling_mean_eq_window (k : Kind) (w minp : Nat) (hw : 0 < w) (rows : List CRow) (i : Nat) (r : CRow)
    (hi : rows[i]? = some r) (hg : 0 ≤ r.code) (hs : r.sel = true) :
    (rolling k .mean w minp rows)[i]? = some (some (specRollAt k .mean w minp (selVals (rows.take (i + 1)) r.code))) := by
  unfold rolling
  rw [rollGo_at k .mean w minp _ rows i r hi hg hs]
  have hstep : rollStep k RollOp.mean w = rstep k w := by funext s v; rfl
  simp only [hstep]
  have hinv := rinv_fold k w hw (selVals (rows.take i) r.code ++ [r.val])
  rw [List.foldl_append] at hinv
  simp only [List.foldl_cons, List.foldl_nil] at hinv
  rw [selVals_take_succ rows i r hi hs]
  simp only [rollOut, specRollAt, hinv.sum, hinv.nn, sumNN_eq, cntNN_eq]
  simp

/-- **rolling max / min**: at every selected row, the greatest / least non-null value among the last `window`
selected rows of the same group (null unless ≥ `min_periods` ≥ 1 of them are non-null) - through the
incremental update, the replacement by a better value and the recomputation from the circular buffer -/
theorem rolling_extremum_eq_window (k : Kind) (wantMax : Bool) (w minp : Nat) (hw : 0 < w) (hminp : 0 < minp) (rows : List CRow)
    (hwf : ∀ r ∈ rows, WF k r.val) (i : Nat) (r : CRow)
    (hi : rows[i]? = some r) (hg : 0 ≤ r.code) (hs : r.sel = true) :
    (rolling k (if wantMax then .max else .min) w minp rows)[i]? =
      some (some (specRollAt k (if wantMax then .max else .min) w minp (selVals (rows.take (i + 1)) r.code))) := by
  unfold rolling
  rw [rollGo_at k _ w minp _ rows i r hi hg hs]
  have hstep : rollStep k (if wantMax then RollOp.max else RollOp.min) w = mstep k w wantMax := by
    funext s v; cases wantMax <;> rfl
  simp only [hstep]
  have hhist : selVals (rows.take (i + 1)) r.code = selVals (rows.take i) r.code ++ [r.val] := selVals_take_succ rows i r hi hs
  have hwfh : ∀ x ∈ selVals (rows.take i) r.code ++ [r.val], WF k x := by
    intro x hx
    rw [← hhist] at hx
    unfold selVals at hx
    obtain ⟨r', hr', rfl⟩ := List.mem_map.mp hx
    exact hwf r' ((List.take_sublist _ _).subset (List.mem_filter.mp hr').1)
  have hinv := minv_fold k w wantMax hw (selVals (rows.take i) r.code ++ [r.val]) hwfh
  rw [List.foldl_append] at hinv
  simp only [List.foldl_cons, List.foldl_nil] at hinv
  rw [hhist]
  have hlen := nnInts_length k (lastN w (selVals (rows.take i) r.code ++ [r.val]))
  have hout : ∀ (op : RollOp), (op = .max ∨ op = .min) → (op = .max → wantMax = true) → (op = .min → wantMax = false) →
      rollOut k op w minp ((selVals (rows.take i) r.code).foldl (mstep k w wantMax) (rinit k w))
        (mstep k w wantMax ((selVals (rows.take i) r.code).foldl (mstep k w wantMax) (rinit k w)) r.val) r.val =
      specRollAt k op w minp (selVals (rows.take i) r.code ++ [r.val]) := by
    intro op hop h1 h2
    have hnn := hinv.nn
    have hcnt : ((nnInts k (lastN w (selVals (rows.take i) r.code ++ [r.val]))).length : Int)
        = (mstep k w wantMax ((selVals (rows.take i) r.code).foldl (mstep k w wantMax) (rinit k w)) r.val).nn := by
      rw [hnn, hlen]
    have hspec_len : ((nonNull k (lastN w (selVals (rows.take i) r.code ++ [r.val]))).map valInt).length
        = (nnInts k (lastN w (selVals (rows.take i) r.code ++ [r.val]))).length := rfl
    by_cases hge : (mstep k w wantMax ((selVals (rows.take i) r.code).foldl (mstep k w wantMax) (rinit k w)) r.val).nn ≥ (minp : Int)
    · have hne : nnInts k (lastN w (selVals (rows.take i) r.code ++ [r.val])) ≠ [] := by
        intro hc
        rw [hc] at hcnt
        simp at hcnt
        omega
      obtain ⟨m, hm1, hm2⟩ := hinv.best hne
      have hext := (extremum_isExt wantMax _ m).mpr hm2
      have hge' : (nnInts k (lastN w (selVals (rows.take i) r.code ++ [r.val]))).length ≥ minp := by omega
      rcases hop with rfl | rfl
      · have := h1 rfl; subst this
        simp only [rollOut, specRollAt, hge, if_true, hm1]
        unfold nnInts at hext hge'
        simp only [hext, ge_iff_le, hge', if_true]
      · have := h2 rfl; subst this
        simp only [rollOut, specRollAt, hge, if_true, hm1]
        unfold nnInts at hext hge'
        simp only [hext, ge_iff_le, hge', if_true]
    · have hlt : ¬ (nnInts k (lastN w (selVals (rows.take i) r.code ++ [r.val]))).length ≥ minp := by omega
      rcases hop with rfl | rfl
      · simp only [rollOut, specRollAt, hge, if_false]
        unfold nnInts at hlt
        simp only [ge_iff_le, hlt, if_false]
      · simp only [rollOut, specRollAt, hge, if_false]
        unfold nnInts at hlt
        simp only [ge_iff_le, hlt, if_false]
  cases wantMax
  · simp only [Bool.false_eq_true, if_false]
    rw [hout .min (Or.inr rfl) (by intro h; cases h) (by intro _; rfl)]
  · simp only [if_true]
    rw [hout .max (Or.inl rfl) (by intro _; rfl) (by intro h; cases h)]

theorem rolling_max_eq_window (k : Kind) (w minp : Nat) (hw : 0 < w) (hminp : 0 < minp) (rows : List CRow)
    (hwf : ∀ r ∈ rows, WF k r.val) (i : Nat) (r : CRow) (hi : rows[i]? = some r) (hg : 0 ≤ r.code) (hs : r.sel = true) :
    (rolling k .max w minp rows)[i]? = some (some (specRollAt k .max w minp (selVals (rows.take (i + 1)) r.code))) := by
  simpa using rolling_extremum_eq_window k true w minp hw hminp rows hwf i r hi hg hs

theorem rolling_min_eq_window (k : Kind) (w minp : Nat) (hw : 0 < w) (hminp : 0 < minp) (rows : List CRow)
    (hwf : ∀ r ∈ rows, WF k r.val) (i : Nat) (r : CRow) (hi : rows[i]? = some r) (hg : 0 ≤ r.code) (hs : r.sel = true) :
    (rolling k .min w minp rows)[i]? = some (some (specRollAt k .min w minp (selVals (rows.take (i + 1)) r.code))) := by
  simpa using rolling_extremum_eq_window k false w minp hw hminp rows hwf i r hi hg hs

/-- the slot about to be overwritten holds the value `window` group-rows earlier -/
theorem slot_is_kth_previous (k : Kind) (w : Nat) (hw : 0 < w) (hist : List Val) (hge : w ≤ hist.length) :
    let s := hist.foldl (rstep k w) (rinit k w)
    s.nSeen ≥ w ∧ s.buf.getD s.pos (nullValue k) = hist[hist.length - w]'(by omega) := by
  have inv := rinv_fold k w hw hist
  refine ⟨by rw [inv.seen]; omega, ?_⟩
  have := inv.slot (hist.length - w) (by omega) (by omega)
  have hm : (hist.length - w) % w = hist.length % w := by
    conv => rhs; rw [show hist.length = (hist.length - w) + w by omega]
    simp
  rw [hm, ← inv.pos] at this
  simp [List.getD, this]

/-- before `window` rows of the group have been seen, shift and diff are null -/
theorem shift_null_until_window (k : Kind) (w : Nat) (hw : 0 < w) (hist : List Val) (hlt : hist.length < w) :
    (hist.foldl (rstep k w) (rinit k w)).nSeen < w := by
  have inv := rinv_fold k w hw hist
  rw [inv.seen]; omega

/-- **shift / diff** (float view: null = NaN): at every selected row the value `window` selected rows of the same
group earlier (null before there are that many), resp. the difference to it (null if either side is null) -/
theorem rolling_shift_diff_eq_window (op : RollOp) (hop : op = .shift ∨ op = .diff) (w minp : Nat) (hw : 0 < w) (rows : List CRow)
    (i : Nat) (r : CRow) (hi : rows[i]? = some r) (hg : 0 ≤ r.code) (hs : r.sel = true) :
    (rolling .f op w minp rows)[i]? = some (some (specRollAt .f op w minp (selVals (rows.take (i + 1)) r.code))) := by
  unfold rolling
  rw [rollGo_at .f op w minp _ rows i r hi hg hs]
  have hstep : rollStep .f op w = rstep .f w := by
    funext s v; rcases hop with rfl | rfl <;> rfl
  simp only [hstep]
  rw [selVals_take_succ rows i r hi hs]
  generalize selVals (rows.take i) r.code = hist
  have inv := rinv_fold .f w hw hist
  have hlen : (hist ++ [r.val]).length = hist.length + 1 := by simp
  by_cases hge : w ≤ hist.length
  · obtain ⟨h1, h2⟩ := slot_is_kth_previous .f w hw hist hge
    have hgt : (hist ++ [r.val]).length > w := by omega
    have hidx : (hist ++ [r.val]).length - 1 - w = hist.length - w := by omega
    have hget : (hist ++ [r.val]).getD (hist.length - w) Val.nan = hist[hist.length - w]'(by omega) := by
      have hlt' : hist.length - w < hist.length := by omega
      simp [List.getD, List.getElem?_append_left hlt', List.getElem?_eq_getElem hlt']
    have hlast : (hist ++ [r.val]).getD ((hist ++ [r.val]).length - 1) Val.nan = r.val := by
      simp [List.getD]
    rcases hop with rfl | rfl
    · simp only [rollOut, specRollAt, h1, if_true, h2, hgt, hidx, hget]
      cases hist[hist.length - w]'(by omega) <;> simp [isNull, valInt]
    · simp only [rollOut, specRollAt, h1, if_true, h2, hgt, hidx, hget, hlast]
      cases hv : r.val <;> cases ho : hist[hist.length - w]'(by omega) <;> simp [isNull, valInt, Val.sub]
  · have hlt : hist.length < w := by omega
    have hns := shift_null_until_window .f w hw hist hlt
    have hngt : ¬ (hist ++ [r.val]).length > w := by omega
    have hnge : ¬ (hist.foldl (rstep .f w) (rinit .f w)).nSeen ≥ w := by omega
    rcases hop with rfl | rfl
    · simp only [rollOut, specRollAt, hnge, if_false, hngt]
    · simp only [rollOut, specRollAt, hnge, if_false, hngt]

/-- source facts the model relies on: the loops skip null keys; the ring counters are wide enough
for every window below 2^15 (the dtype the source allocates, extracted by the translator) -/
theorem source_facts :
    Generated.Constants.guardRollSum = true ∧ Generated.Constants.guardRollMax = true ∧
    Generated.Constants.guardRollShift = true ∧
    16 ≤ Generated.Constants.rollSumPosWidth ∧ 16 ≤ Generated.Constants.rollSumSeenWidth ∧
    16 ≤ Generated.Constants.rollSumNonNullWidth ∧ 16 ≤ Generated.Constants.rollMaxPosWidth ∧
    16 ≤ Generated.Constants.rollMaxSeenWidth ∧ 16 ≤ Generated.Constants.rollMaxNonNullWidth ∧
    16 ≤ Generated.Constants.rollShiftPosWidth ∧ 16 ≤ Generated.Constants.rollShiftCountWidth := by decide

/-- non-vacuity: interleaved groups, a null, a null key, window 2 -/
example : rolling .f .sum 2 1
    [⟨0, .num 1, true⟩, ⟨1, .num 5, true⟩, ⟨-1, .num 9, true⟩, ⟨0, .nan, true⟩, ⟨0, .num 7, true⟩, ⟨0, .num 2, true⟩]
    = [some (.num 1), some (.num 5), none, some (.num 1), some (.num 7), some (.num 9)] := by decide

/-! ### the loops of the current source, end to end

`Generated.Loops.rolling_sum_or_mean` / `rolling_shift_or_diff` are regenerated from `groupby_lib/groupby/numba.py` on
every run; `LoopBridge/Rolling.lean` proves them equal to the ring-buffer models; composed with the window theorems
above, the statements are about the source as it is now.  The mean's division is an uninterpreted function `divf`
(IEEE division is outside the model): the cell holds `divf (window sum) (window non-null count)`. -/

theorem cumRows_getElem (codes : List Int) (vals : List Val) (masked : Bool) (msk : List Bool) (i : Nat)
    (hi : i < codes.length) :
    (LoopBridge.cumRows codes vals masked msk)[i]? =
      some ⟨codes.getD i 0, vals.getD i .nan, !(masked && !(msk.getD i true))⟩ := by
  simp [LoopBridge.cumRows, hi]

/-- the model's output at a selected row of `cumRows`, in the form the source-level theorems use -/
theorem rolling_sum_mean_at (k : Kind) (op : RollOp) (hop : op = .sum ∨ op = .mean) (w minp : Nat) (hw : 0 < w)
    (codes : List Int) (vals : List Val) (msk : List Bool) (masked : Bool) (i : Nat) (hi : i < codes.length)
    (hg : 0 ≤ codes.getD i 0) (hs : (masked && !(msk.getD i true)) = false) :
    (rolling k op w minp (LoopBridge.cumRows codes vals masked msk))[i]? =
      some (some (specRollAt k op w minp
        (selVals ((LoopBridge.cumRows codes vals masked msk).take (i + 1)) (codes.getD i 0)))) := by
  have hrow := cumRows_getElem codes vals masked msk i hi
  rcases hop with rfl | rfl
  · have := rolling_sum_eq_window k w minp hw _ i _ hrow hg (by rw [hs]; rfl)
    exact this
  · have := rolling_mean_eq_window k w minp hw _ i _ hrow hg (by rw [hs]; rfl)
    exact this

/-- **the translated `_rolling_sum_or_mean_1d` computes the sliding-window sum / mean of the source's own rows**: at
every selected row with a non-null key, the reduction of the non-null values among the last `window` selected rows of
the same group ending at that row, `null_value` unless at least `min_periods` of them are non-null -/
theorem source_rolling_sum_mean_eq_window (k : Kind) (divf : Val → Int → Val) (op : RollOp) (hop : op = .sum ∨ op = .mean)
    (w : Nat) (hw : 0 < w) (minp : Option Nat) (codes : List Int) (chunks : List (List Val)) (msk : List Bool)
    (masked : Bool) (ng ml : Int) (nullv : Val) (hlen : codes.length = chunks.flatten.length)
    (hwf : ∀ v ∈ chunks.flatten, LoopBridge.NumOrNull k v) (hnv : LoopBridge.NumOrNull k nullv)
    (hnull : nullv = nullValue k) (i : Nat) (hi : i < codes.length) (hg : 0 ≤ codes.getD i 0)
    (hs : (masked && !(msk.getD i true)) = false) :
    (Generated.Loops.rolling_sum_or_mean k divf codes.length (arrOf codes 0) chunks ng w minp.isSome (minp.getD 0)
      masked ml (arrOf msk true) nullv (decide (op = .mean))).1 (i : Int) = LoopBridge.cellVal divf nullv
      (specRollAt k op w (minp.getD w)
        (selVals ((LoopBridge.cumRows codes chunks.flatten masked msk).take (i + 1)) (codes.getD i 0))) := by
  have h := (LoopBridge.rolling_sum_or_mean_eq k divf op hop w hw minp codes chunks msk masked ng ml nullv hlen hwf hnv
    hnull).2 i hi
  have hspec := rolling_sum_mean_at k op hop w (minp.getD w) hw codes chunks.flatten msk masked i hi hg hs
  rw [h, LoopBridge.cellAt, hspec]

/-- **the translated `_rolling_shift_or_diff_1d`** (float view): the value `window` selected group-rows earlier, resp.
the difference to it -/
theorem source_rolling_shift_diff_eq_window (op : RollOp) (hop : op = .shift ∨ op = .diff) (w : Nat) (hw : 0 < w)
    (codes : List Int) (chunks : List (List Val)) (msk : List Bool) (masked : Bool) (ng ml : Int)
    (hlen : codes.length = chunks.flatten.length) (i : Nat) (hi : i < codes.length) (hg : 0 ≤ codes.getD i 0)
    (hs : (masked && !(msk.getD i true)) = false) :
    (Generated.Loops.rolling_shift_or_diff .f codes.length (arrOf codes 0) chunks ng w masked ml (arrOf msk true)
      (nullValue .f) (decide (op = .shift))).1 (i : Int) = LoopBridge.cellVal (fun a _ => a) (nullValue .f)
      (specRollAt .f op w 0
        (selVals ((LoopBridge.cumRows codes chunks.flatten masked msk).take (i + 1)) (codes.getD i 0))) := by
  have h := (LoopBridge.rolling_shift_or_diff_eq .f op hop w hw 0 codes chunks msk masked ng ml hlen
    (fun _ _ _ => rfl)).2 i hi
  have hrow := cumRows_getElem codes chunks.flatten masked msk i hi
  have hspec := rolling_shift_diff_eq_window op hop w 0 hw _ i _ hrow hg (by rw [hs]; rfl)
  rw [h, LoopBridge.cellAt, hspec]

/-- **the translated `_rolling_max_or_min_1d` (with the translated helper `min_or_max_and_position`) computes the
sliding-window extremum**: at every selected row with a non-null key the largest / smallest non-null value among the
last `window` selected rows of the same group, `null_value` unless at least `min_periods >= 1` of them are non-null;
the kernel raises nothing and the helper's `while` loop stays within its bound -/
theorem source_rolling_max_min_eq_window (k : Kind) (wantMax : Bool) (w : Nat) (hw : 0 < w) (minp : Option Nat)
    (hminp : 0 < minp.getD w) (codes : List Int) (chunks : List (List Val)) (msk : List Bool) (masked : Bool) (ng ml : Int)
    (hlen : codes.length = chunks.flatten.length) (hwf : ∀ v ∈ chunks.flatten, WF k v)
    (hnan : ∀ v ∈ chunks.flatten, v = .nan → nullValue k = .nan)
    (i : Nat) (hi : i < codes.length) (hg : 0 ≤ codes.getD i 0) (hs : (masked && !(msk.getD i true)) = false) :
    let r := Generated.Loops.rolling_max_or_min k codes.length (arrOf codes 0) chunks ng w minp.isSome (minp.getD 0) masked ml
      (arrOf msk true) (nullValue k) wantMax
    r.2 = false ∧ r.1 (i : Int) = LoopBridge.cellVal (fun a _ => a) (nullValue k)
      (specRollAt k (if wantMax then RollOp.max else RollOp.min) w (minp.getD w)
        (selVals ((LoopBridge.cumRows codes chunks.flatten masked msk).take (i + 1)) (codes.getD i 0))) := by
  intro r
  have hb := LoopBridge.rolling_max_or_min_eq k wantMax w hw minp codes chunks msk masked ng ml hlen hnan
  refine ⟨hb.1, ?_⟩
  have h := hb.2 i hi
  have hrow := cumRows_getElem codes chunks.flatten masked msk i hi
  have hwf' : ∀ r ∈ LoopBridge.cumRows codes chunks.flatten masked msk, WF k r.val := by
    intro r hr
    simp only [LoopBridge.cumRows, List.mem_map, List.mem_range] at hr
    obtain ⟨j, hj, rfl⟩ := hr
    have hjl : j < chunks.flatten.length := by omega
    simp only
    rw [List.getD_eq_getElem?_getD, List.getElem?_eq_getElem hjl]
    exact hwf _ (List.getElem_mem hjl)
  have hspec : (rolling k (if wantMax then RollOp.max else RollOp.min) w (minp.getD w)
      (LoopBridge.cumRows codes chunks.flatten masked msk))[i]? = some (some (specRollAt k
        (if wantMax then RollOp.max else RollOp.min) w (minp.getD w)
        (selVals ((LoopBridge.cumRows codes chunks.flatten masked msk).take (i + 1)) (codes.getD i 0)))) := by
    cases wantMax
    · have := rolling_min_eq_window k w (minp.getD w) hw hminp _ hwf' i _ hrow hg (by rw [hs]; rfl)
      exact this
    · have := rolling_max_eq_window k w (minp.getD w) hw hminp _ hwf' i _ hrow hg (by rw [hs]; rfl)
      exact this
  rw [h, LoopBridge.cellAt, hspec]

/-- non-vacuity: rolling sum, window 2, two groups, a NaN, a null key, two chunks -/
example :
    let r := Generated.Loops.rolling_sum_or_mean .f (fun a _ => a) 6 (arrOf [0, 1, 0, -1, 0, 1] 0)
      [[.num 1, .num 10, .nan], [.num 7, .num 4, .num 20]] 2 2 true 1 false 0 (arrOf [] true) .nan false
    ((List.range 6).map fun (j : Nat) => r.1 (j : Int)) = [.num 1, .num 10, .num 1, .nan, .num 4, .num 30] := by decide

/-- non-vacuity: rolling max, window 2: the extremum leaves the window and the buffer is rescanned by the helper -/
example :
    let r := Generated.Loops.rolling_max_or_min .f 6 (arrOf [0, 0, 0, 1, 0, 0] 0)
      [[.num 9, .num 2, .num 1], [.num 5, .nan, .num 0]] 2 2 true 1 false 0 (arrOf [] true) .nan true
    (((List.range 6).map fun (j : Nat) => r.1 (j : Int)), r.2) = ([.num 9, .num 9, .num 2, .num 5, .num 1, .num 0], false) := by
  decide

end GV.C09
