import GroupbyVerif.Lemmas.RowSel
import GroupbyVerif.Generated.Constants
import GroupbyVerif.LoopBridge.FindNth
import GroupbyVerif.LoopBridge.FirstLast

/-!
# C15 — head/tail/nth select exactly the requested rows of each group

Kernel theorems for `_find_nth` / `_find_first_or_last_n` with a `w`-bit `seen` counter, for
every interleaving of groups and every `n`; the width hypothesis is displayed, and the
obligations `seen_width_*` tie `w` to the dtype the *current source* allocates.
-/

namespace GV.C15
open GV

/-- the counters are 64-bit in the current source, so the width hypothesis of the theorems
below (`rows < 2^63`) holds for every array NumPy can hold -/
theorem seen_width_nth : Generated.Constants.seenWidthNth = 64 := by decide
theorem seen_width_first_last : Generated.Constants.seenWidthFirstLast = 64 := by decide
/-- null-key rows are skipped by the scan loops (`if k < 0: continue` is present in the source) -/
theorem guards_present : Generated.Constants.guardFindNth = true ∧ Generated.Constants.guardFirstLast = true := by decide

/-- **nth**: for every group, `_find_nth` returns the n-th row of the group from the start
(`n ≥ 0`) or from the end (`n < 0`), `-1` when the group is too short; the `assert` never fires -/
theorem nth_eq_spec (w : Nat) (hw : 0 < w) (codes : List Int) (n : Int) (g : Int) (hg : 0 ≤ g)
    (hlen : (codes.length : Int) < 2 ^ (w - 1)) :
    (findNth w codes n g).out = specNth codes n g ∧ (findNth w codes n g).failed = false := by
  unfold findNth
  rw [groupFold_spec _ _ _ _ hg, scan_positions]
  have hle := posOfGroup_length_le codes g
  by_cases hn : 0 ≤ n
  · have hnn : ((n.toNat : Nat) : Int) = n := Int.toNat_of_nonneg hn
    simp only [hn, decide_true, if_true]
    have := nthRun_eq w hw n.toNat (posOfGroup codes g) (by omega)
    rw [hnn] at this
    show (List.foldl (nthStep w n) nthInit (posOfGroup codes g)).out = _ ∧ _
    rw [this]
    simp only [specNth, hn, if_true, and_true]
  · have hn' : 0 ≤ -n - 1 := by omega
    have hnn : (((-n - 1).toNat : Nat) : Int) = -n - 1 := Int.toNat_of_nonneg hn'
    simp only [hn, decide_false, if_false, Bool.false_eq_true]
    have := nthRun_eq w hw (-n - 1).toNat (posOfGroup codes g).reverse (by simp; omega)
    rw [hnn] at this
    show (List.foldl (nthStep w (-n - 1)) nthInit (posOfGroup codes g).reverse).out = _ ∧ _
    rw [this]
    simp only [specNth, hn, if_false, and_true]

/-- **head**: the first `n` rows of every group, in ascending position, `-1`-padded -/
theorem head_eq_spec (w : Nat) (hw : 0 < w) (codes : List Int) (n : Nat) (g : Int) (hg : 0 ≤ g)
    (hn : (n : Int) < 2 ^ (w - 1)) :
    findFirstOrLastN w codes n true g = specHead codes n g := by
  unfold findFirstOrLastN
  simp only [if_true]
  rw [groupFold_spec _ _ _ _ hg, scan_positions]
  simp only [if_true]
  rw [flRun_eq w hw n hn]
  rfl

/-- **tail**: the last `n` rows of every group, in ascending position, right-aligned -/
theorem tail_eq_spec (w : Nat) (hw : 0 < w) (codes : List Int) (n : Nat) (g : Int) (hg : 0 ≤ g)
    (hn : (n : Int) < 2 ^ (w - 1)) :
    findFirstOrLastN w codes n false g = specTail codes n g := by
  unfold findFirstOrLastN
  simp only [Bool.false_eq_true, if_false]
  rw [groupFold_spec _ _ _ _ hg, scan_positions]
  simp only [Bool.false_eq_true, if_false]
  rw [flRun_eq w hw n hn]
  simp only [flClosed, specTail, padTo, List.reverse_append, List.reverse_replicate, List.length_map,
    List.length_take, List.length_reverse, List.length_drop]
  have hlen : min n (posOfGroup codes g).length = (posOfGroup codes g).length - ((posOfGroup codes g).length - n) := by omega
  congr 1
  · congr 1; omega
  · rw [← List.map_reverse, List.reverse_take, List.reverse_reverse]
    congr 2
    simp

/-- a row with a null (negative) key is never selected: selected positions carry code `g ≥ 0` -/
theorem selected_rows_belong_to_group (codes : List Int) (g : Int) (p : Nat) (hp : p ∈ posOfGroup codes g) :
    codes[p]? = some g := by
  simp only [posOfGroup, List.mem_map, List.mem_filter, decide_eq_true_eq] at hp
  obtain ⟨⟨c, j⟩, ⟨hm, hc⟩, rfl⟩ := hp
  simp only at hc; subst hc
  exact List.mk_mem_zipIdx_iff_getElem?.mp hm

/-- with 16-bit counters the width bound is necessary: small-width analogue (width 3, range −4..3):
a group of 10 rows, `n = 1` — `seen` wraps and hits 1 again at row 9 -/
example : (findNth 3 [0,0,0,0,0,0,0,0,0,0] 1 0).out = 9 ∧ (findNth 3 [0,0,0,0,0,0,0,0,0,0] 1 0).failed = true
    ∧ specNth [0,0,0,0,0,0,0,0,0,0] 1 0 = 1 := by decide

/-- non-vacuity: interleaved groups, a null key, negative n -/
example : (findNth 64 [1, -1, 0, 1, 0, 1] (-1) 1).out = 5 ∧ findFirstOrLastN 64 [1, -1, 0, 1, 0, 1] 2 false 1 = [3, 5]
    ∧ findFirstOrLastN 64 [1, -1, 0, 1, 0, 1] 2 true 0 = [2, 4] := by decide

/-! ### the loops of the current source, end to end

`Generated.Loops.find_nth` / `find_first_or_last_n` are regenerated from `groupby_lib/groupby/numba.py` on every run;
`LoopBridge/FindNth.lean` / `FirstLast.lean` prove them equal to `findNth` / `findFirstOrLastN`.  A row that the mask
drops behaves like a null-key row (`effCodes`). -/

/-- **the translated `_find_nth` returns the n-th row of every group** (from the start for `n ≥ 0`, from the end for
`n < 0`, `-1` if the group is too short), for groups of any size below `2^63` rows, and never trips its `assert` -/
theorem source_nth_eq_spec (k : Kind) (codes : List Int) (msk : List Bool) (masked : Bool) (n : Int) (ng ml : Int)
    (hlen : (codes.length : Int) < 2 ^ 63) (g : Int) (hg : 0 ≤ g) :
    let r := Generated.Loops.find_nth k codes.length (arrOf codes 0) ng n masked ml (arrOf msk true)
    r.1 g = specNth (effCodes masked codes msk) n g ∧ r.2 = false := by
  apply LoopBridge.find_nth_eq_spec k codes msk masked n ng ml hlen _ g hg
  intro g' hg'
  exact nth_eq_spec 64 (by omega) _ n g' hg' (by simpa using hlen)

/-- **the translated `_find_first_or_last_n(forward=True)` returns the first `n` rows of every group** -/
theorem source_head_eq_spec (k : Kind) (codes : List Int) (msk : List Bool) (masked : Bool) (n : Nat)
    (hn : (n : Int) < 2 ^ 63) (ng ml : Int) (g : Int) (hg : 0 ≤ g) :
    let r := Generated.Loops.find_first_or_last_n k codes.length (arrOf codes 0) ng n masked ml (arrOf msk true) true
    LoopBridge.rowOf r.1 g n = specHead (effCodes masked codes msk) n g ∧ r.2 = false := by
  intro r
  have h := LoopBridge.find_first_or_last_n_eq k codes msk masked n hn ng ml true g hg
  exact ⟨h.1.trans (head_eq_spec 64 (by omega) _ n g hg (by simpa using hn)), h.2⟩

/-- **the translated `_find_first_or_last_n(forward=False)` returns the last `n` rows of every group**, ascending -/
theorem source_tail_eq_spec (k : Kind) (codes : List Int) (msk : List Bool) (masked : Bool) (n : Nat)
    (hn : (n : Int) < 2 ^ 63) (ng ml : Int) (g : Int) (hg : 0 ≤ g) :
    let r := Generated.Loops.find_first_or_last_n k codes.length (arrOf codes 0) ng n masked ml (arrOf msk true) false
    LoopBridge.rowOf r.1 g n = specTail (effCodes masked codes msk) n g ∧ r.2 = false := by
  intro r
  have h := LoopBridge.find_first_or_last_n_eq k codes msk masked n hn ng ml false g hg
  exact ⟨h.1.trans (tail_eq_spec 64 (by omega) _ n g hg (by simpa using hn)), h.2⟩

/-- non-vacuity: nth(-1) and head(2) over two interleaved groups, a null key and a masked row -/
example :
    let r := Generated.Loops.find_nth .f 6 (arrOf [0, 1, -1, 0, 1, 0] 0) 2 (-1) true 6
      (arrOf [true, true, true, true, true, false] true)
    (r.1 0, r.1 1, r.2) = (3, 4, false) := by decide

example :
    let r := Generated.Loops.find_first_or_last_n .f 6 (arrOf [0, 1, -1, 0, 1, 0] 0) 2 2 false 0 (arrOf [] true) false
    (LoopBridge.rowOf r.1 0 2, LoopBridge.rowOf r.1 1 2) = ([3, 5], [1, 4]) := by decide

end GV.C15
