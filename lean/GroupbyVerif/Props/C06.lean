import GroupbyVerif.Generated.Constants
import GroupbyVerif.Props.C05
import GroupbyVerif.Props.C02
import GroupbyVerif.Props.C10
import GroupbyVerif.LoopBridge.Nearby
import GroupbyVerif.Lemmas.Nearby

/-!
# C06 — Rows with a null key never influence any group
-/

namespace GV.C06
open GV

/-- **reductions**: deleting the rows with a null (negative) code changes no group's result -/
theorem null_rows_inert_reduction (kn : Kernel) (k : Kind) (rows : List Row) (g : Int) (hg : 0 ≤ g) :
    groupByReduce (kn.red modelReducers k) (kn.init k) rows g
      = groupByReduce (kn.red modelReducers k) (kn.init k) (rows.filter (fun r => 0 ≤ r.1)) g :=
  C04.neg_codes_ignored kn k rows g hg

/-- a row gets the null code exactly when its key — or, for several keys, ANY component — is null -/
theorem null_code_iff_any_component_null (cs : List Int) (shape : List Nat) (hl : cs.length = shape.length) :
    weightCodeSum cs shape = none ↔ ∃ c ∈ cs, c < 0 :=
  C02.weightCodeSum_none_iff cs shape hl

/-! ### row-aligned operations -/

def dropNull (rows : List CRow) : List CRow := rows.filter (fun r => decide (0 ≤ r.code))

def rankNonNull (rows : List CRow) (i : Nat) : Nat := (dropNull (rows.take i)).length

theorem selVals_dropNull (rows : List CRow) (g : Int) (hg : 0 ≤ g) : selVals (dropNull rows) g = selVals rows g := by
  simp only [selVals, dropNull, List.filter_filter]
  congr 1
  apply List.filter_congr
  intro r _
  by_cases h : r.code = g
  · subst h; simp [hg]
  · simp [h]

theorem dropNull_at_rank (rows : List CRow) (i : Nat) (r : CRow) (hi : rows[i]? = some r) (hc : 0 ≤ r.code) :
    (dropNull rows)[rankNonNull rows i]? = some r ∧
    ∀ g, 0 ≤ g → selVals ((dropNull rows).take (rankNonNull rows i + 1)) g = selVals (rows.take (i + 1)) g := by
  have hlt : i < rows.length := by
    rcases Nat.lt_or_ge i rows.length with h | h
    · exact h
    · rw [List.getElem?_eq_none_iff.mpr h] at hi; simp at hi
  have hr : rows[i] = r := by
    have := List.getElem?_eq_getElem hlt
    rw [this] at hi; exact Option.some.inj hi
  have hsplit : dropNull rows = dropNull (rows.take i) ++ r :: dropNull (rows.drop (i + 1)) := by
    conv => lhs; rw [← List.take_append_drop i rows, List.drop_eq_getElem_cons hlt, hr]
    simp [dropNull, List.filter_append, List.filter_cons, hc]
  constructor
  · rw [hsplit]; simp [rankNonNull]
  · intro g hg
    have htake : (dropNull rows).take (rankNonNull rows i + 1) = dropNull (rows.take i) ++ [r] := by
      rw [hsplit]
      simp [rankNonNull, List.take_append, List.take_of_length_le]
    rw [htake, List.take_succ_eq_append_getElem hlt, hr]
    have happ : ∀ a b : List CRow, selVals (a ++ b) g = selVals a g ++ selVals b g := by
      intro a b; simp [selVals, List.filter_append]
    rw [happ, happ, selVals_dropNull _ _ hg]

/-- **cumulative operations**: deleting the null-key rows leaves every other row's output unchanged -/
theorem cum_null_rows_inert (op : CumOp) (k : Kind) (rows : List CRow) (i : Nat) (r : CRow)
    (hi : rows[i]? = some r) (hc : 0 ≤ r.code) :
    (cumulativeReduce (op.red modelReducers k true) (op.init k) rows)[i]?
      = (cumulativeReduce (op.red modelReducers k true) (op.init k) (dropNull rows))[rankNonNull rows i]? := by
  rw [C08.cum_eq_prefix, C08.cum_eq_prefix]
  obtain ⟨hf, hv⟩ := dropNull_at_rank rows i r hi hc
  have hlt : i < rows.length := by
    rcases Nat.lt_or_ge i rows.length with h | h
    · exact h
    · rw [List.getElem?_eq_none_iff.mpr h] at hi; simp at hi
  have hlt' : rankNonNull rows i < (dropNull rows).length := by
    rcases Nat.lt_or_ge (rankNonNull rows i) (dropNull rows).length with h | h
    · exact h
    · rw [List.getElem?_eq_none_iff.mpr h] at hf; simp at hf
  unfold specCum
  rw [List.getElem?_map, List.getElem?_map, List.getElem?_range hlt, List.getElem?_range hlt']
  simp only [Option.map_some, hi, hf, hv r.code hc]

/-- null-key rows get a marker that depends on no other row (cumulative loop) -/
theorem cum_null_row_marker (red : Red) (init : Val) (rows : List CRow) (i : Nat) (r : CRow)
    (hi : rows[i]? = some r) (hg : r.code < 0) : (cumulativeReduce red init rows)[i]? = some none :=
  C08.cumGo_null_key red _ rows i r hi hg

/-- **rolling sum / mean**: the window of a group is made of that group's selected rows only -/
theorem rolling_sum_null_rows_inert (k : Kind) (w minp : Nat) (hw : 0 < w) (rows : List CRow) (i : Nat) (r : CRow)
    (hi : rows[i]? = some r) (hg : 0 ≤ r.code) (hs : r.sel = true) :
    (rolling k .sum w minp rows)[i]? = (rolling k .sum w minp (dropNull rows))[rankNonNull rows i]? := by
  obtain ⟨hf, hv⟩ := dropNull_at_rank rows i r hi hg
  rw [C09.rolling_sum_eq_window k w minp hw rows i r hi hg hs,
    C09.rolling_sum_eq_window k w minp hw (dropNull rows) (rankNonNull rows i) r hf hg hs, hv r.code hg]

/-- **rolling max / min**: likewise -/
theorem rolling_extremum_null_rows_inert (k : Kind) (wantMax : Bool) (w minp : Nat) (hw : 0 < w) (hminp : 0 < minp) (rows : List CRow)
    (hwf : ∀ r ∈ rows, WF k r.val) (i : Nat) (r : CRow)
    (hi : rows[i]? = some r) (hg : 0 ≤ r.code) (hs : r.sel = true) :
    (rolling k (if wantMax then .max else .min) w minp rows)[i]? =
      (rolling k (if wantMax then .max else .min) w minp (dropNull rows))[rankNonNull rows i]? := by
  obtain ⟨hf, hv⟩ := dropNull_at_rank rows i r hi hg
  have hwf' : ∀ r ∈ dropNull rows, WF k r.val := fun r hr => hwf r (List.mem_filter.mp hr).1
  rw [C09.rolling_extremum_eq_window k wantMax w minp hw hminp rows hwf i r hi hg hs,
    C09.rolling_extremum_eq_window k wantMax w minp hw hminp (dropNull rows) hwf' (rankNonNull rows i) r hf hg hs, hv r.code hg]

/-- **shift / diff** (float view): the row `window` group-rows earlier never is a null-key row -/
theorem rolling_shift_diff_null_rows_inert (op : RollOp) (hop : op = .shift ∨ op = .diff) (w minp : Nat) (hw : 0 < w) (rows : List CRow)
    (i : Nat) (r : CRow) (hi : rows[i]? = some r) (hg : 0 ≤ r.code) (hs : r.sel = true) :
    (rolling .f op w minp rows)[i]? = (rolling .f op w minp (dropNull rows))[rankNonNull rows i]? := by
  obtain ⟨hf, hv⟩ := dropNull_at_rank rows i r hi hg
  rw [C09.rolling_shift_diff_eq_window op hop w minp hw rows i r hi hg hs,
    C09.rolling_shift_diff_eq_window op hop w minp hw (dropNull rows) (rankNonNull rows i) r hf hg hs, hv r.code hg]

/-- **EMA (plain and time-weighted) and every loop of the `loopGo` shape**: a null-key row gets a constant
marker and the output at any other row is a function of the rows of its own group only — so in
particular it does not depend on any null-key row -/
theorem ema_null_rows_inert (β : Rat) (rows rows' : List (Int × Option Rat)) (i i' : Nat) (r : Int × Option Rat)
    (hi : rows[i]? = some r) (hi' : rows'[i']? = some r) (hg : 0 ≤ r.1)
    (hsame : C10.groupVals (rows.take i) r.1 = C10.groupVals (rows'.take i') r.1) :
    (emaGrouped β rows)[i]? = (emaGrouped β rows')[i']? := by
  rw [C10.grouped_eq_single_group β rows i r hi hg, C10.grouped_eq_single_group β rows' i' r hi' hg, hsame]

theorem ema_null_row_marker (β : Rat) (rows : List (Int × Option Rat)) (i : Nat) (r : Int × Option Rat)
    (hi : rows[i]? = some r) (hg : r.1 < 0) : (emaGrouped β rows)[i]? = some none :=
  C10.loopGo_null_key _ _ _ rows i r hi hg

/-- every kernel loop skips negative codes in the current source (facts extracted by the translator) -/
theorem all_guards_present :
    Generated.Constants.guardReduce = true ∧ Generated.Constants.guardFindNth = true ∧
    Generated.Constants.guardFirstLast = true ∧ Generated.Constants.guardRollSum = true ∧
    Generated.Constants.guardRollMax = true ∧ Generated.Constants.guardRollShift = true ∧
    Generated.Constants.guardCumulative = true ∧ Generated.Constants.guardEmaGrouped = true ∧
    Generated.Constants.guardEmaGroupedTimed = true := by decide

/-! ### stated about the translated source -/

/-- **reductions (translated source)**: the translated `_group_by_reduce` gives every group the same result on the
rows with the null-key rows deleted -/
theorem source_null_rows_inert_reduction (kn : Kernel) (k : Kind) (n : Nat) (rows : List Row) (g : Int) (hg : 0 ≤ g) :
    let r := C03.srcRun kn k n rows
    let q := C03.srcRun kn k n (rows.filter (fun r => 0 ≤ r.1))
    (r.1 g, r.2 g) = (q.1 g, q.2 g) := by
  intro r q
  show ((C03.srcRun kn k n rows).1 g, (C03.srcRun kn k n rows).2 g)
    = ((C03.srcRun kn k n (rows.filter (fun r => 0 ≤ r.1))).1 g, (C03.srcRun kn k n (rows.filter (fun r => 0 ≤ r.1))).2 g)
  rw [C03.srcRun_eq kn k n rows g hg, C03.srcRun_eq kn k n _ g hg]
  exact null_rows_inert_reduction kn k rows g hg

/-- **cumulative operations (translated source)**: at every row with a non-null key the translated
`_cumulative_reduce` writes what it writes, at the row's rank, on the data with the null-key rows deleted -/
theorem source_cum_null_rows_inert (op : CumOp) (k : Kind) (ng : Int) (rows : List CRow)
    (hn : (rows.length : Int) < 2 ^ 32) (i : Nat) (r : CRow) (hi : rows[i]? = some r) (hc : 0 ≤ r.code) :
    (C05.srcCum op k ng rows).1.1 (i : Int) = (C05.srcCum op k ng (dropNull rows)).1.1 (rankNonNull rows i : Int) := by
  have hlt : i < rows.length := by
    rcases Nat.lt_or_ge i rows.length with h | h
    · exact h
    · rw [List.getElem?_eq_none_iff.mpr h] at hi; simp at hi
  obtain ⟨hf, _⟩ := dropNull_at_rank rows i r hi hc
  have hlt' : rankNonNull rows i < (dropNull rows).length := by
    rcases Nat.lt_or_ge (rankNonNull rows i) (dropNull rows).length with h | h
    · exact h
    · rw [List.getElem?_eq_none_iff.mpr h] at hf; simp at hf
  have hle : (dropNull rows).length ≤ rows.length := List.length_filter_le _ _
  rw [C05.srcCum_eq op k ng rows hn i hlt, C05.srcCum_eq op k ng (dropNull rows) (by omega) _ hlt']
  unfold LoopBridge.outAt
  rw [cum_null_rows_inert op k rows i r hi hc]

/-- a null-key row of the translated cumulative loop keeps the target's initial value (it is overwritten with the
null marker afterwards): a constant that depends on no other row -/
theorem source_cum_null_row_marker (op : CumOp) (k : Kind) (ng : Int) (rows : List CRow)
    (hn : (rows.length : Int) < 2 ^ 32) (i : Nat) (r : CRow) (hi : rows[i]? = some r) (hc : r.code < 0) :
    (C05.srcCum op k ng rows).1.1 (i : Int) = op.init k := by
  have hlt : i < rows.length := by
    rcases Nat.lt_or_ge i rows.length with h | h
    · exact h
    · rw [List.getElem?_eq_none_iff.mpr h] at hi; simp at hi
  rw [C05.srcCum_eq op k ng rows hn i hlt]
  unfold LoopBridge.outAt
  rw [cum_null_row_marker _ _ rows i r hi hc]

/-- non-vacuity: cumsum, a null-key row between two rows of group 0 -/
example :
    let rows : List CRow := [⟨0, .num 3, true⟩, ⟨-1, .num 50, true⟩, ⟨0, .num 4, true⟩]
    ((C05.srcCum .sum .f 1 rows).1.1 2, (C05.srcCum .sum .f 1 (dropNull rows)).1.1 1, rankNonNull rows 2)
      = (.num 7, .num 7, 1) := by unfold C05.srcCum; decide

/-! ### `group_nearby_members` (translated from `numba.py` on every run) -/

/-- the outputs of the translated `group_nearby_members`, row by row -/
def srcNearby (k : Kind) (d : Val) (n : Int) (rows : List (Int × Val)) : List Int :=
  (List.range rows.length).map fun (j : Nat) =>
    (Generated.Loops.group_nearby_members k (rows.map (·.1)).length (arrOf (rows.map (·.1)) 0) (rows.map (·.2)).length
      (arrOf (rows.map (·.2)) .nan) d n).1 (j : Int)

theorem srcNearby_eq (k : Kind) (d : Val) (n : Int) (rows : List (Int × Val)) (hc : ∀ r ∈ rows, r.1 < n) :
    srcNearby k d n rows = nearby d rows := by
  have h := LoopBridge.group_nearby_members_eq k (rows.map (·.1)) (rows.map (·.2)) d n (by simp)
    (by intro c hc'; simp only [List.mem_map] at hc'; obtain ⟨r, hr, rfl⟩ := hc'; exact hc r hr)
  rw [C03.zip_fst_snd] at h
  apply List.ext_getElem?
  intro j
  unfold srcNearby
  rw [List.getElem?_map]
  have hlen : (nearby d rows).length = rows.length := nearbyRun_length d rows
  by_cases hj : j < rows.length
  · rw [List.getElem?_range hj, Option.map_some, h.2 j (by simpa using hj), List.getD_eq_getElem?_getD,
      List.getElem?_eq_getElem (by omega)]
    simp
  · rw [List.getElem?_eq_none_iff.mpr (by simpa using hj), List.getElem?_eq_none_iff.mpr (by omega)]
    rfl

/-- **what the translated `group_nearby_members` writes**: a null-key row gets `-1`; a row of group `g` continues the
sub-group of the group's previous row unless `abs(v - v_prev) > max_diff`, in which case - as for the group's first
row - it opens a new sub-group numbered one above every number handed out before -/
theorem source_nearby_spec (k : Kind) (d : Val) (n : Int) (rows : List (Int × Val)) (hc : ∀ r ∈ rows, r.1 < n)
    (i : Nat) (g : Int) (v : Val) (hi : rows[i]? = some (g, v)) :
    let outs := srcNearby k d n rows
    (g < 0 → outs[i]? = some (-1)) ∧
    (0 ≤ g → match lastSame (rows.take i) g with
      | none => outs[i]? = some (maxSoFar (outs.take i) + 1)
      | some (j, vj) =>
        if Val.gt (Val.abs (Val.sub v vj)) d then outs[i]? = some (maxSoFar (outs.take i) + 1)
        else outs[i]? = outs[j]?) := by
  rw [srcNearby_eq k d n rows hc]
  exact nearby_spec d rows i g v hi

/-- **null-key rows never influence a sub-group (translated source)**: deleting them leaves the number of every other
row unchanged (not merely the partition: the counter does not move on a null-key row) -/
theorem source_nearby_null_rows_inert (k : Kind) (d : Val) (n : Int) (rows : List (Int × Val))
    (hc : ∀ r ∈ rows, r.1 < n) :
    srcNearby k d n (rows.filter (fun r => decide (0 ≤ r.1)))
      = ((rows.zip (srcNearby k d n rows)).filter (fun p => decide (0 ≤ p.1.1))).map (·.2) := by
  rw [srcNearby_eq k d n rows hc, srcNearby_eq k d n _ (fun r hr => hc r (List.mem_filter.mp hr).1)]
  exact (nearbyRun_drop_null d rows).2

/-- non-vacuity: two interleaved groups, a null key in between, a jump beyond `max_diff` -/
example :
    srcNearby .f (.num 2) 2 [(0, .num 1), (1, .num 1), (-1, .num 2), (0, .num 2), (1, .num 9), (0, .num 3)]
      = [0, 1, -1, 0, 2, 0] := by unfold srcNearby; decide

/-! ### rolling kernels (translated source): null-key rows are inert -/

theorem WindowFn.null_rows_inert {P : List CRow → Prop} {out : List CRow → Int → Val} {F : List Val → Val}
    (h : C05.WindowFn P out F) (hP : ∀ rows, P rows → P (dropNull rows))
    (rows : List CRow) (i : Nat) (r : CRow) (hp : P rows) (hi : rows[i]? = some r) (hg : 0 ≤ r.code) (hs : r.sel = true) :
    out rows (i : Int) = out (dropNull rows) (rankNonNull rows i : Int) := by
  obtain ⟨hf, hv⟩ := dropNull_at_rank rows i r hi hg
  rw [h rows i r hp hi hg hs, h (dropNull rows) (rankNonNull rows i) r (hP rows hp) hf hg hs, hv r.code hg]

/-- **rolling sum / mean (translated source)**: deleting the null-key rows leaves every other row's cell unchanged -/
theorem source_rolling_sum_null_rows_inert (k : Kind) (divf : Val → Int → Val) (op : RollOp) (hop : op = .sum ∨ op = .mean)
    (w : Nat) (hw : 0 < w) (minp : Option Nat) (ng : Int) (hnv : LoopBridge.NumOrNull k (nullValue k))
    (rows : List CRow) (hwf : ∀ r ∈ rows, LoopBridge.NumOrNull k r.val) (i : Nat) (r : CRow)
    (hi : rows[i]? = some r) (hg : 0 ≤ r.code) (hs : r.sel = true) :
    C05.srcRollSum k divf op w minp ng rows (i : Int)
      = C05.srcRollSum k divf op w minp ng (dropNull rows) (rankNonNull rows i : Int) :=
  WindowFn.null_rows_inert (C05.srcRollSum_window k divf op hop w hw minp ng hnv)
    (fun rows hp r hr => hp r (List.mem_filter.mp hr).1) rows i r hwf hi hg hs

/-- **rolling max / min (translated source)**: the same -/
theorem source_rolling_max_null_rows_inert (k : Kind) (wantMax : Bool) (w : Nat) (hw : 0 < w) (minp : Option Nat)
    (hminp : 0 < minp.getD w) (ng : Int) (rows : List CRow) (hwf : ∀ r ∈ rows, WF k r.val)
    (hnan : ∀ r ∈ rows, r.val = .nan → nullValue k = .nan) (i : Nat) (r : CRow)
    (hi : rows[i]? = some r) (hg : 0 ≤ r.code) (hs : r.sel = true) :
    C05.srcRollMax k wantMax w minp ng rows (i : Int)
      = C05.srcRollMax k wantMax w minp ng (dropNull rows) (rankNonNull rows i : Int) :=
  WindowFn.null_rows_inert (C05.srcRollMax_window k wantMax w hw minp hminp ng)
    (fun rows hp => ⟨fun r hr => hp.1 r (List.mem_filter.mp hr).1, fun r hr => hp.2 r (List.mem_filter.mp hr).1⟩)
    rows i r ⟨hwf, hnan⟩ hi hg hs

/-- non-vacuity: rolling sum over window 2, a null-key row between the rows of group 0 -/
example :
    let rows : List CRow := [⟨0, .num 3, true⟩, ⟨-1, .num 50, true⟩, ⟨0, .num 4, true⟩, ⟨0, .num 5, true⟩]
    (C05.srcRollSum .f (fun a _ => a) .sum 2 none 1 rows 3,
      C05.srcRollSum .f (fun a _ => a) .sum 2 none 1 (dropNull rows) 2, rankNonNull rows 3) = (.num 9, .num 9, 2) := by
  unfold C05.srcRollSum; decide

/-! ### EMA (translated `_ema_grouped`): null-key rows are inert -/

/-- the translated `_ema_grouped` on a list of (code, value) rows, no mask -/
def srcEma (k : Kind) (β : Rat) (ng : Int) (rows : List (Int × FVal)) : Int → FVal :=
  (Generated.Loops.ema_grouped k (rows.map (·.1)).length (arrOf (rows.map (·.1)) 0) (rows.map (·.2)).length
    (arrOf (rows.map (·.2)) .nan) (.q (1 - β)) ng false 0 (arrOf [] true)).1

def dropNullP {α : Type} (rows : List (Int × α)) : List (Int × α) := rows.filter (fun r => decide (0 ≤ r.1))

def rankNonNullP {α : Type} (rows : List (Int × α)) (i : Nat) : Nat := (dropNullP (rows.take i)).length

theorem emaRows_of_rows (rows : List (Int × FVal)) :
    LoopBridge.emaRows (rows.map (·.1)) (rows.map (·.2)) false [] = rows.map fun r => (r.1, LoopBridge.obsOf r.2 false) := by
  unfold LoopBridge.emaRows
  apply List.ext_getElem?
  intro i
  rw [List.getElem?_map, List.length_map, List.getElem?_map]
  by_cases hi : i < rows.length
  · rw [List.getElem?_range hi, List.getElem?_eq_getElem hi]
    simp [List.getD_eq_getElem?_getD, List.getElem?_eq_getElem hi]
  · rw [List.getElem?_eq_none_iff.mpr (by simpa using hi), List.getElem?_eq_none_iff.mpr (by omega)]
    rfl

theorem dropNullP_at_rank {α : Type} (rows : List (Int × α)) (i : Nat) (r : Int × α) (hi : rows[i]? = some r)
    (hc : 0 ≤ r.1) :
    (dropNullP rows)[rankNonNullP rows i]? = some r ∧
      (dropNullP rows).take (rankNonNullP rows i) = dropNullP (rows.take i) := by
  have hlt : i < rows.length := by
    rcases Nat.lt_or_ge i rows.length with h | h
    · exact h
    · rw [List.getElem?_eq_none_iff.mpr h] at hi; simp at hi
  have hr : rows[i] = r := by
    have := List.getElem?_eq_getElem hlt
    rw [this] at hi; exact Option.some.inj hi
  have hsplit : dropNullP rows = dropNullP (rows.take i) ++ r :: dropNullP (rows.drop (i + 1)) := by
    conv => lhs; rw [← List.take_append_drop i rows, List.drop_eq_getElem_cons hlt, hr]
    simp [dropNullP, List.filter_append, List.filter_cons, hc]
  constructor
  · rw [hsplit]; simp [rankNonNullP]
  · rw [hsplit]; simp [rankNonNullP, List.take_append]

/-- **EMA (translated source)**: at every row with a non-null key the translated `_ema_grouped` writes what it writes,
at the row's rank, on the data with the null-key rows deleted; a null-key row gets NaN -/
theorem source_ema_null_rows_inert (k : Kind) (β : Rat) (hβ : 0 ≤ β) (ng : Int) (rows : List (Int × FVal))
    (i : Nat) (r : Int × FVal) (hi : rows[i]? = some r) (hc : 0 ≤ r.1) :
    srcEma k β ng rows (i : Int) = srcEma k β ng (dropNullP rows) (rankNonNullP rows i : Int) := by
  have hlt : i < rows.length := by
    rcases Nat.lt_or_ge i rows.length with h | h
    · exact h
    · rw [List.getElem?_eq_none_iff.mpr h] at hi; simp at hi
  obtain ⟨hf, htk⟩ := dropNullP_at_rank rows i r hi hc
  have hlt' : rankNonNullP rows i < (dropNullP rows).length := by
    rcases Nat.lt_or_ge (rankNonNullP rows i) (dropNullP rows).length with h | h
    · exact h
    · rw [List.getElem?_eq_none_iff.mpr h] at hf; simp at hf
  have h1 := C10.source_ema_eq_model k β hβ (rows.map (·.1)) (rows.map (·.2)) [] false ng 0 (by simp) i (by simpa using hlt)
  have h2 := C10.source_ema_eq_model k β hβ ((dropNullP rows).map (·.1)) ((dropNullP rows).map (·.2)) [] false ng 0
    (by simp) (rankNonNullP rows i) (by simpa using hlt')
  unfold srcEma
  rw [h1, h2, emaRows_of_rows, emaRows_of_rows]
  unfold LoopBridge.emaCell
  have hobs : ∀ l : List (Int × FVal), dropNullP (l.map fun r => (r.1, LoopBridge.obsOf r.2 false))
      = (dropNullP l).map fun r => (r.1, LoopBridge.obsOf r.2 false) := by
    intro l; simp [dropNullP, List.filter_map, Function.comp_def]
  rw [ema_null_rows_inert β (rows.map fun r => (r.1, LoopBridge.obsOf r.2 false))
    ((dropNullP rows).map fun r => (r.1, LoopBridge.obsOf r.2 false)) i (rankNonNullP rows i)
    (r.1, LoopBridge.obsOf r.2 false) (by simp [hi]) (by simp [hf]) hc ?_]
  -- the group's history is the same on both sides
  rw [← List.map_take, ← List.map_take, htk, ← hobs]
  simp only [C10.groupVals, dropNullP, List.filter_filter]
  congr 1
  apply List.filter_congr
  intro x _
  by_cases e : x.1 = r.1
  · simp [e, hc]
  · simp [e]

/-- non-vacuity: `alpha = 1/2`, a null-key row between the two rows of group 0 -/
example :
    let rows : List (Int × FVal) := [(0, .q 1), (-1, .q 50), (0, .q 3)]
    (srcEma .f (1 / 2) 1 rows 2, srcEma .f (1 / 2) 1 (dropNullP rows) 1, rankNonNullP rows 2) = (.q (7 / 3), .q (7 / 3), 1) := by
  unfold srcEma; decide +kernel

/-- the wrapper `_apply_cumulative` around the translated loop (facts re-extracted from its AST on every run): the target
has one cell per row and, iff the kernel reports a null key, the rows with a negative code are overwritten with the
null marker of the result dtype (`0` for counts) - the constant `source_cum_null_row_marker` speaks of -/
theorem source_cum_wrapper_shape :
    Generated.Constants.cumTargetOneCellPerRow = true ∧ Generated.Constants.cumNullKeyRowsGetNullMarker = true := by decide

end GV.C06
