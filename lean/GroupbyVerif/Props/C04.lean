import GroupbyVerif.Lemmas.Reducers
import GroupbyVerif.Lemmas.Dispatch
import GroupbyVerif.Model.GenTable
import GroupbyVerif.Bridge
import GroupbyVerif.Generated.Constants
import GroupbyVerif.LoopBridge.Reduce

/-!
# C04 — Block-wise reduction equals single-pass reduction (kernel contract)

Property theorems only (helper lemmas live in `Lemmas/`).  All statements are about the
model in `Model/Kernels.lean`; `Bridge` ties the reducers to the current source text and the
correspondence run (tools/harness) ties the loops and the dispatch to the compiled code.
-/

namespace GV.C04
open GV

/-- the reducers the driver executes (regenerated from the source) are the modelled ones -/
theorem generated_eq_model : generatedReducers = modelReducers := by
  funext k name
  unfold generatedReducers modelReducers
  split <;> simp only [Bridge.sum, Bridge.nansum, Bridge.nansum_squares, Bridge.max, Bridge.nanmax, Bridge.min,
    Bridge.nanmin, Bridge.nancount, Bridge.count, Bridge.first, Bridge.last]

/-- **single pass = per-group definition**, for every kernel, dtype class, list of rows
(any interleaving of groups, any placement of nulls and negative codes) and every group -/
theorem kernel_eq_def (kn : Kernel) (k : Kind) (rows : List Row) (g : Int) (hg : 0 ≤ g) :
    groupByReduce (kn.red modelReducers k) (kn.init k) rows g = specKernel kn k (valsOf rows g) := by
  rw [groupByReduce_at _ _ _ _ hg]
  cases kn <;> simp only [Kernel.red, Kernel.init, modelReducers, specKernel]
  · exact runRed_count k _
  · exact runRed_nancount k _
  · rw [Scalar.nansum, runRed_nanR, accOf_add]
  · exact runRed_sum k _
  · rw [Scalar.nansum_squares, runRed_nanR, accOf_addSq]
  · rw [Scalar.nanmin, runRed_nanR]
  · rw [Scalar.nanmax, runRed_nanR]
  · rw [Scalar.first, runRed_nanR, accOf_first]
  · exact runRed_last k _

/-- all cells of all blocks are well-formed for the dtype class -/
def BlocksWF (k : Kind) (blocks : List (List Row)) : Prop := ∀ b ∈ blocks, ∀ r ∈ b, WF k r.2

theorem valsOf_wf {k : Kind} {b : List Row} (h : ∀ r ∈ b, WF k r.2) (g : Int) : ∀ v ∈ valsOf b g, WF k v := by
  intro v hv
  simp only [valsOf, List.mem_map, List.mem_filter] at hv
  obtain ⟨r, ⟨hr, _⟩, rfl⟩ := hv
  exact h r hr

/-- the merge law every kernel satisfies, in the form the block theorem uses -/
theorem kernel_mergeOK (kn : Kernel) (k : Kind) (hk : k.Supported) :
    ∃ Good, MergeOK (pstep (kn.red modelReducers k)) (mergePair (kn.mergeRed modelReducers k))
      (kn.init k, 0) Good (WF k) := by
  have weaken : ∀ {step merge e Good}, MergeOK step merge e Good (fun _ => True) →
      MergeOK step merge e Good (WF k) := by
    intro step merge e Good h
    exact ⟨h.good_e, fun t v ht _ => h.good_step t v ht trivial, h.merge_e, h.e_merge,
      fun s t v hs ht _ => h.comm s t v hs ht trivial⟩
  cases kn <;> simp only [Kernel.red, Kernel.mergeRed, Kernel.init, modelReducers]
  · exact ⟨_, weaken (mergeOK_cnt k (Scalar.count k) (fun v => Or.inl (fun _ _ => rfl)))⟩
  · refine ⟨_, weaken (mergeOK_cnt k (Scalar.nancount k) (fun v => ?_))⟩
    by_cases hn : isNull k v = true
    · exact Or.inr (fun _ _ => by simp [Scalar.nancount, hn, Val.ofInt])
    · exact Or.inl (fun _ _ => by simp [Scalar.nancount, hn, Val.ofInt])
  · exact ⟨_, weaken (mergeOK_nansum k Val.add id (fun _ _ => rfl))⟩
  · exact ⟨_, weaken (mergeOK_sum k)⟩
  · exact ⟨_, weaken (mergeOK_nansum k vaddSq Val.sq (fun _ _ => rfl))⟩
  · exact ⟨_, mergeOK_sel k vminC vminC_ok _⟩
  · exact ⟨_, mergeOK_sel k vmaxC vmaxC_ok _⟩
  · exact ⟨_, mergeOK_sel k vfirstC vfirstC_ok _⟩
  · exact ⟨_, mergeOK_last k hk⟩

/-- **block-wise = single pass**: for every kernel and supported dtype class, every list of
consecutive blocks (any number, any boundaries, blocks may be empty, a group may be absent
from or all-null in any block): merging the per-block partial results gives, at every group,
exactly the single-pass result over the concatenated rows -/
theorem blockwise_eq_single_pass (kn : Kernel) (k : Kind) (hk : k.Supported)
    (b0 : List Row) (bs : List (List Row)) (hwf : BlocksWF k (b0 :: bs)) (g : Int) (hg : 0 ≤ g) :
    ∃ p, combine (kn.mergeRed modelReducers k)
        ((b0 :: bs).map (groupByReduce (kn.red modelReducers k) (kn.init k))) = some p ∧
      p g = groupByReduce (kn.red modelReducers k) (kn.init k) (b0 :: bs).flatten g := by
  refine ⟨_, rfl, ?_⟩
  obtain ⟨Good, hm⟩ := kernel_mergeOK kn k hk
  -- the array-level merge at `g` is the fold of `mergePair` over the partials at `g`
  have hpt : ∀ (p : Int → Partial) (qs : List (Int → Partial)),
      (qs.foldl (mergeArr (kn.mergeRed modelReducers k)) p) g
        = (qs.map (· g)).foldl (mergePair (kn.mergeRed modelReducers k)) (p g) := by
    intro p qs
    induction qs generalizing p with
    | nil => rfl
    | cons q qs ih => simp only [List.foldl_cons, List.map_cons]; rw [ih]; rfl
  show (List.foldl (mergeArr (kn.mergeRed modelReducers k)) (groupByReduce (kn.red modelReducers k) (kn.init k) b0)
    (bs.map (groupByReduce (kn.red modelReducers k) (kn.init k)))) g = _
  rw [hpt, groupByReduce_at _ _ _ _ hg, groupByReduce_at _ _ _ _ hg]
  simp only [List.map_map]
  have hmap : (bs.map ((fun x => x g) ∘ groupByReduce (kn.red modelReducers k) (kn.init k)))
      = (bs.map (valsOf · g)).map (·.foldl (pstep (kn.red modelReducers k)) (kn.init k, 0)) := by
    simp only [List.map_map]
    apply List.map_congr_left
    intro b _
    simp only [Function.comp]
    rw [groupByReduce_at _ _ _ _ hg]; rfl
  rw [hmap]
  unfold runRed
  rw [hm.merge_blocks (valsOf b0 g) (bs.map (valsOf · g))]
  · simp [valsOf_append, valsOf_flatten]
  · exact valsOf_wf (hwf b0 (List.mem_cons_self ..)) g
  · intro B hB
    simp only [List.mem_map] at hB
    obtain ⟨b, hb, rfl⟩ := hB
    exact valsOf_wf (hwf b (List.mem_cons_of_mem _ hb)) g

/-- block-wise result = per-group definition of the concatenation (corollary) -/
theorem blockwise_eq_def (kn : Kernel) (k : Kind) (hk : k.Supported)
    (b0 : List Row) (bs : List (List Row)) (hwf : BlocksWF k (b0 :: bs)) (g : Int) (hg : 0 ≤ g) :
    ∃ p, combine (kn.mergeRed modelReducers k)
        ((b0 :: bs).map (groupByReduce (kn.red modelReducers k) (kn.init k))) = some p ∧
      p g = specKernel kn k (valsOf (b0 :: bs).flatten g) := by
  obtain ⟨p, h1, h2⟩ := blockwise_eq_single_pass kn k hk b0 bs hwf g hg
  exact ⟨p, h1, by rw [h2, kernel_eq_def _ _ _ _ hg]⟩

/-- **end to end at the kernel level**: `group_<kernel>(codes, values, ngroups, mask, n_threads)` with
values contiguous or arrow-chunked returns, for every group, the per-group definition applied to
the rows `rows[mask]` selects — for every mask kind (boolean, slice, positions with repeats /
negative positions), every thread count and every chunking of the values -/
theorem groupKernel_eq_def (kn : Kernel) (k : Kind) (hk : k.Supported) (rows : List Row) (mask : Mask)
    (threads : Nat) (vch : Option (List Nat)) (p : Int → Partial)
    (hwf : ∀ r ∈ rows, WF k r.2) (hm : ∀ m, mask = .bool m → m.length = rows.length)
    (h : groupKernel modelReducers kn k rows mask threads vch = some p) (g : Int) (hg : 0 ≤ g) :
    ∃ sel, selectRows rows mask = some sel ∧ p g = specKernel kn k (valsOf sel g) := by
  unfold groupKernel at h
  cases hb : blocksOf rows mask threads vch with
  | none => simp [hb] at h
  | some blocks =>
    simp only [hb] at h
    obtain ⟨hsel, hne⟩ := blocksOf_flatten rows mask threads vch blocks hm hb
    refine ⟨blocks.flatten, hsel, ?_⟩
    have hmem := selectGen_mem rows mask blocks.flatten hsel
    cases blocks with
    | nil => exact absurd rfl hne
    | cons b0 bs =>
      have hwfb : BlocksWF k (b0 :: bs) := by
        intro b hb' r hr
        exact hwf r (hmem r (List.mem_flatten.mpr ⟨b, hb', hr⟩))
      cases bs with
      | nil =>
        simp only [Option.some.injEq] at h
        subst h
        simpa using kernel_eq_def kn k b0 g hg
      | cons b1 bs' =>
        obtain ⟨q, hq1, hq2⟩ := blockwise_eq_def kn k hk b0 (b1 :: bs') hwfb g hg
        simp only at h
        rw [hq1] at h
        simp only [Option.some.injEq] at h
        subst h
        exact hq2

/-- negative codes are ignored: deleting those rows changes no group's result -/
theorem neg_codes_ignored (kn : Kernel) (k : Kind) (rows : List Row) (g : Int) (hg : 0 ≤ g) :
    groupByReduce (kn.red modelReducers k) (kn.init k) rows g
      = groupByReduce (kn.red modelReducers k) (kn.init k) (rows.filter (fun r => 0 ≤ r.1)) g := by
  rw [kernel_eq_def _ _ _ _ hg, kernel_eq_def _ _ _ _ hg, valsOf_filter_nonneg _ _ hg]

/-- rows of other groups never enter a group's result -/
theorem other_groups_inert (kn : Kernel) (k : Kind) (rows rows' : List Row) (g : Int) (hg : 0 ≤ g)
    (h : valsOf rows g = valsOf rows' g) :
    groupByReduce (kn.red modelReducers k) (kn.init k) rows g
      = groupByReduce (kn.red modelReducers k) (kn.init k) rows' g := by
  rw [kernel_eq_def _ _ _ _ hg, kernel_eq_def _ _ _ _ hg, h]

/-! ### the definitions are the textbook ones -/

theorem foldl_vmaxC_char (xs : List Int) (a : Int) :
    ∃ m, (xs.map Val.num).foldl vmaxC (.num a) = .num m ∧ m ∈ a :: xs ∧ ∀ y ∈ a :: xs, y ≤ m := by
  induction xs generalizing a with
  | nil => exact ⟨a, rfl, by simp, by simp⟩
  | cons z zs ih =>
    simp only [List.map_cons, List.foldl_cons]
    by_cases hz : z > a
    · obtain ⟨m, hm, hmem, hub⟩ := ih z
      refine ⟨m, by simpa [vmaxC, Val.gt, hz] using hm, ?_, ?_⟩
      · simp only [List.mem_cons] at hmem ⊢
        rcases hmem with h | h <;> simp [h]
      · intro y hy
        simp only [List.mem_cons] at hy
        rcases hy with h | h | h
        · have := hub z (by simp); omega
        · exact hub y (by simp [h])
        · exact hub y (by simp [h])
    · obtain ⟨m, hm, hmem, hub⟩ := ih a
      refine ⟨m, by simpa [vmaxC, Val.gt, hz] using hm, ?_, ?_⟩
      · simp only [List.mem_cons] at hmem ⊢
        rcases hmem with h | h <;> simp [h]
      · intro y hy
        simp only [List.mem_cons] at hy
        rcases hy with h | h | h
        · exact hub y (by simp [h])
        · have := hub a (by simp); omega
        · exact hub y (by simp [h])

/-- `max` of a group is an element of its non-null values that bounds them all -/
theorem specMax_char (init : Val) (x : Int) (xs : List Int) :
    ∃ m, accOf vmaxC id init ((x :: xs).map Val.num) = .num m ∧ m ∈ x :: xs ∧ ∀ y ∈ x :: xs, y ≤ m := by
  simpa [accOf] using foldl_vmaxC_char xs x

theorem foldl_vminC_char (xs : List Int) (a : Int) :
    ∃ m, (xs.map Val.num).foldl vminC (.num a) = .num m ∧ m ∈ a :: xs ∧ ∀ y ∈ a :: xs, m ≤ y := by
  induction xs generalizing a with
  | nil => exact ⟨a, rfl, by simp, by simp⟩
  | cons z zs ih =>
    simp only [List.map_cons, List.foldl_cons]
    by_cases hz : z < a
    · obtain ⟨m, hm, hmem, hub⟩ := ih z
      refine ⟨m, by simpa [vminC, Val.lt, hz] using hm, ?_, ?_⟩
      · simp only [List.mem_cons] at hmem ⊢
        rcases hmem with h | h <;> simp [h]
      · intro y hy
        simp only [List.mem_cons] at hy
        rcases hy with h | h | h
        · have := hub z (by simp); omega
        · exact hub y (by simp [h])
        · exact hub y (by simp [h])
    · obtain ⟨m, hm, hmem, hub⟩ := ih a
      refine ⟨m, by simpa [vminC, Val.lt, hz] using hm, ?_, ?_⟩
      · simp only [List.mem_cons] at hmem ⊢
        rcases hmem with h | h <;> simp [h]
      · intro y hy
        simp only [List.mem_cons] at hy
        rcases hy with h | h | h
        · exact hub y (by simp [h])
        · have := hub a (by simp); omega
        · exact hub y (by simp [h])

/-- `min` of a group is an element of its non-null values that bounds them all from below -/
theorem specMin_char (init : Val) (x : Int) (xs : List Int) :
    ∃ m, accOf vminC id init ((x :: xs).map Val.num) = .num m ∧ m ∈ x :: xs ∧ ∀ y ∈ x :: xs, m ≤ y := by
  simpa [accOf] using foldl_vminC_char xs x

/-- `sum` of a group is the arithmetic sum of its non-null values -/
theorem specSum_char (xs : List Int) : sumVals (xs.map Val.num) = .num xs.sum := by
  suffices H : ∀ (a : Int), (xs.map Val.num).foldl Val.add (.num a) = .num (a + xs.sum) by
    simpa [sumVals] using H 0
  induction xs with
  | nil => intro a; simp
  | cons z zs ih => intro a; simp [Val.add, ih, Int.add_assoc]

/-! ### regression witnesses: the merge of the pinned tree (count fixed to 1) was not a monoid -/

/-- a group absent from the first block lost its maximum (float kind) -/
example : mergePairPinned (Scalar.nanmax .f) (.nan, 0) (.num 3, 1) = (.nan, 1) := by decide
example : mergePair (Scalar.nanmax .f) (.nan, 0) (.num 3, 1) = (.num 3, 1) := by decide
/-- a group absent from the second block took the fill value 255 as data (uint8 kind) -/
example : mergePairPinned (Scalar.nanmax (.u 8)) (.num 1, 1) (.num 255, 0) = (.num 255, 1) := by decide
example : mergePair (Scalar.nanmax (.u 8)) (.num 1, 1) (.num 255, 0) = (.num 1, 1) := by decide

/-! ### non-vacuity: the hypotheses are met by a concrete non-trivial input
(two blocks, group 1 absent from the first block, a null value, a negative code) -/

example : BlocksWF .f [[(0, .num 1), (-1, .num 9), (0, .nan)], [(1, .num 4), (0, .num 2)]] ∧ Kind.f.Supported := by
  constructor
  · intro b _ r _; trivial
  · exact Or.inl rfl

/-- the accumulation loop of the current source has the shape the model `groupFold` stands for (facts extracted
from the AST of `_group_by_reduce` on every run): the reducer reads and writes the row's own group slot
(`target[key], count[key] = reduce_func(target[key], values[i], count[key])` with `key = group_key[i]`), rows
are visited in array order or in the order of the indexer, negative keys are skipped, counts start at zero -/
theorem source_loop_shape :
    Generated.Constants.reduceUpdatesOwnSlot = true ∧ Generated.Constants.reduceKeyFromRow = true ∧
    Generated.Constants.reduceRowsInOrder = true ∧ Generated.Constants.reduceCountStartsAtZero = true ∧
    Generated.Constants.guardReduce = true := by decide

/-! ### the loops of the current source, end to end

`Generated.Loops.group_by_reduce` / `reduce_array_pair` are regenerated from `groupby_lib/groupby/numba.py` on every
run (tools/translate_loops.py); `LoopBridge/Reduce.lean` proves them equal to `groupByReduce` / `mergePair`.  Composed
with the reducers regenerated from `ScalarFuncs` and with `kernel_eq_def`, the statements below are about what the
source says *now*: no hand-written model is left between the source text and the per-group definition. -/

/-- **the translated `_group_by_reduce`, run with the translated reducer of kernel `kn`, returns the per-group
definition** at every group, for every interleaving of groups and nulls (rows in array order) -/
theorem source_kernel_eq_def (kn : Kernel) (k : Kind) (codes : List Int) (vals : List Val)
    (hlen : codes.length = vals.length) (tlen : Int) (cib : Bool) (g : Int) (hg : 0 ≤ g) :
    let r := Generated.Loops.group_by_reduce k codes.length (arrOf codes 0) vals.length (arrOf vals .nan) tlen
      (fun _ => kn.init k) (kn.red generatedReducers k) false [] cib
    r.2 = false ∧ (r.1.1 g, r.1.2 g) = specKernel kn k (valsOf (codes.zip vals) g) := by
  intro r
  have h := LoopBridge.group_by_reduce_plain k (kn.red generatedReducers k) (kn.init k) codes vals hlen tlen cib g hg
  refine ⟨h.1, ?_⟩
  rw [h.2, generated_eq_model, kernel_eq_def _ _ _ _ hg]

/-- the same through an indexer (positional mask, or a boolean mask after `nonzero`): the per-group definition on
`rows[indexer]` with array-indexing semantics (repeats, negative positions), and no bounds error is raised -/
theorem source_kernel_indexer_eq_def (kn : Kernel) (k : Kind) (codes : List Int) (vals : List Val)
    (hlen : codes.length = vals.length) (tlen : Int) (ps : List Int) (sel : List Row)
    (hsel : takePositions (codes.zip vals) ps = some sel) (g : Int) (hg : 0 ≤ g) :
    let r := Generated.Loops.group_by_reduce k codes.length (arrOf codes 0) vals.length (arrOf vals .nan) tlen
      (fun _ => kn.init k) (kn.red generatedReducers k) true ps true
    r.2 = false ∧ (r.1.1 g, r.1.2 g) = specKernel kn k (valsOf sel g) := by
  intro r
  have h := LoopBridge.group_by_reduce_indexer k (kn.red generatedReducers k) (kn.init k) codes vals hlen tlen ps sel
    hsel g hg
  refine ⟨h.1, ?_⟩
  rw [h.2, generated_eq_model, kernel_eq_def _ _ _ _ hg]

/-- the translated `reduce_array_pair` is the pairwise merge the block-wise theorems are about -/
theorem source_merge_eq_mergePair (kn : Kernel) (k : Kind) (n : Nat) (x y : Int → Val) (cx cy : Int → Int) (i : Nat)
    (hi : i < n) :
    let r := Generated.Loops.reduce_array_pair k n x n y (kn.mergeRed generatedReducers k) true n cx true n cy
    r.2 = false ∧ (r.1 i, cx i + cy i) = mergePair (kn.mergeRed modelReducers k) (x i, cx i) (y i, cy i) := by
  intro r
  have h := LoopBridge.reduce_array_pair_eq k (kn.mergeRed generatedReducers k) n x y cx cy i hi
  rw [generated_eq_model] at h
  exact h

/-- non-vacuity: two interleaved groups, a null key, a NaN -/
example :
    let r := Generated.Loops.group_by_reduce .f 4 (arrOf [1, 0, -1, 1] 0) 4
      (arrOf [.num 3, .nan, .num 9, .num 4] .nan) 3 (fun _ => (Kernel.max).init .f)
      ((Kernel.max).red generatedReducers .f) false [] true
    (r.1.1 1, r.1.2 1, r.1.1 0, r.1.2 0, r.2) = (.num 4, 2, .nan, 0, false) := by decide

end GV.C04
