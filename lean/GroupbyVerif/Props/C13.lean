import GroupbyVerif.Generated.Constants
import GroupbyVerif.Props.C04
import GroupbyVerif.Props.C03

/-!
# C13 — A GroupBy object can be reused: results are history-independent

The object's key representation is a list of code chunks, optionally with per-chunk pointer
tables from chunk-local to global codes; `_unify_group_key_chunks` rewrites it in place.
The abstraction `globalCodes` (what the codes *mean*) is invariant under every rewrite, and
every operation's model output is a function of the abstraction — hence of no earlier call.
-/

namespace GV.C13
open GV

structure KeyRepr where
  chunks : List (List Int)                 -- code chunks (chunk-local codes when `pointers` is present)
  pointers : Option (List (List Nat))      -- per-chunk tables local code -> global code
  flat : Bool                              -- stored as one contiguous array
deriving Repr, Inhabited

/-- map one chunk through its pointer table, keeping the null code -/
def mapChunk (p : List Nat) (c : List Int) : List Int :=
  c.map fun k => if k < 0 then -1 else ((p.getD k.toNat 0 : Nat) : Int)

/-- the abstraction: the global code of every row, in row order -/
def globalCodes (s : KeyRepr) : List Int :=
  match s.pointers with
  | some ps => ((ps.zip s.chunks).map fun pc => mapChunk pc.1 pc.2).flatten
  | none => s.chunks.flatten

/-- well-formedness: one pointer table per chunk -/
def Inv (s : KeyRepr) : Prop :=
  match s.pointers with
  | some ps => ps.length = s.chunks.length
  | none => True

/-- `_unify_group_key_chunks(keep_chunked)` -/
def unify (keepChunked : Bool) (s : KeyRepr) : KeyRepr :=
  match s.pointers with
  | some ps =>
    let mapped := (ps.zip s.chunks).map fun pc => mapChunk pc.1 pc.2
    if keepChunked then { chunks := mapped, pointers := none, flat := false }
    else { chunks := [mapped.flatten], pointers := none, flat := true }
  | none =>
    if keepChunked || s.flat then s
    else { chunks := [s.chunks.flatten], pointers := none, flat := true }

/-- the operations of the public API, by their effect on the key representation (read off `core.py`) -/
inductive Op where
  | reduce            -- reductions with transform=False: no rewrite
  | reduceTransform   -- unify(keep_chunked=False)
  | groupsLike        -- groups / apply / median / quantile / group-sorted layouts: unify(keep_chunked=True)
  | applyTransform    -- unify(True) then unify(False)
  | rowAligned        -- head/tail/nth, cumulative, rolling, shift, diff, ema, cumcount: unify(False)
  | reducePositional  -- reduction with an integer-position mask: unify(False) first
deriving DecidableEq, Repr

def step (s : KeyRepr) : Op → KeyRepr
  | .reduce => s
  | .reduceTransform => unify false s
  | .groupsLike => unify true s
  | .applyTransform => unify false (unify true s)
  | .rowAligned => unify false s
  | .reducePositional => unify false s

/-- **unification never changes what the codes mean** -/
theorem unify_preserves_abs (b : Bool) (s : KeyRepr) : globalCodes (unify b s) = globalCodes s := by
  cases hp : s.pointers with
  | some ps =>
    cases b <;> simp [unify, globalCodes, hp]
  | none =>
    by_cases hc : (b || s.flat) = true
    · simp [unify, hp, hc]
    · simp [unify, globalCodes, hp, hc]

theorem unify_preserves_inv (b : Bool) (s : KeyRepr) (_h : Inv s) : Inv (unify b s) := by
  cases hp : s.pointers with
  | some ps => cases b <;> simp [unify, Inv, hp]
  | none =>
    by_cases hc : (b || s.flat) = true
    · simp [unify, Inv, hp, hc]
    · simp [unify, Inv, hp, hc]

theorem step_preserves_abs (s : KeyRepr) (op : Op) : globalCodes (step s op) = globalCodes s := by
  cases op <;> simp [step, unify_preserves_abs]

/-- any history of operations leaves the abstraction untouched -/
theorem history_preserves_abs (s : KeyRepr) (ops : List Op) : globalCodes (ops.foldl step s) = globalCodes s := by
  induction ops generalizing s with
  | nil => rfl
  | cons op ops ih => simp only [List.foldl_cons]; rw [ih, step_preserves_abs]

/-- **history independence**: if an operation's result is a function of the global codes (and of its
own arguments), then after ANY history it returns what it returns on the fresh object -/
theorem history_independent {ρ : Type} (result : List Int → ρ) (s : KeyRepr) (ops : List Op) :
    result (globalCodes (ops.foldl step s)) = result (globalCodes s) := by
  rw [history_preserves_abs]

/-- after any operation that needs contiguous codes the representation IS contiguous (no later
operation can find a half-unified object) -/
theorem unify_false_flat (s : KeyRepr) : (unify false s).flat = true ∧ (unify false s).pointers = none := by
  unfold unify
  cases hp : s.pointers with
  | some ps => simp
  | none =>
    simp only [Bool.false_or]
    by_cases hf : s.flat = true
    · simp [hf, hp]
    · simp [hf]

/-! ### reductions computed chunk by chunk through the pointer tables equal reductions on global codes -/

/-- relabelling the codes of a block by a map that is injective on the block's non-negative codes
and keeps negatives negative does not change any group's values -/
theorem valsOf_relabel (rows : List Row) (f : Int → Int) (l : Int) (hl : 0 ≤ l)
    (hinj : ∀ r ∈ rows, 0 ≤ r.1 → (f r.1 = f l ↔ r.1 = l))
    (hneg : ∀ r ∈ rows, r.1 < 0 → f r.1 < 0) (hfl : 0 ≤ f l) :
    valsOf (rows.map fun r => (f r.1, r.2)) (f l) = valsOf rows l := by
  induction rows with
  | nil => rfl
  | cons r rs ih =>
    have ih' := ih (fun x hx => hinj x (List.mem_cons_of_mem _ hx)) (fun x hx => hneg x (List.mem_cons_of_mem _ hx))
    simp only [valsOf, List.map_cons, List.filter_cons] at ih' ⊢
    by_cases h0 : 0 ≤ r.1
    · have := hinj r (List.mem_cons_self ..) h0
      by_cases hr : r.1 = l
      · simp [hr, ih']
      · have : ¬ f r.1 = f l := fun e => hr (this.mp e)
        simp [hr, this, ih']
    · have hn := hneg r (List.mem_cons_self ..) (by omega)
      have h1 : ¬ f r.1 = f l := by omega
      have h2 : ¬ r.1 = l := by omega
      simp [h1, h2, ih']

/-- a global code that no row of the chunk maps to is an untouched slot of the chunk's scattered partial -/
theorem absent_code_empty (red : Red) (init : Val) (rows : List Row) (g : Int) (hg : 0 ≤ g)
    (h : ∀ r ∈ rows, r.1 ≠ g) : groupByReduce red init rows g = (init, 0) := by
  rw [groupByReduce_at _ _ _ _ hg]
  have : valsOf rows g = [] := by
    simp only [valsOf, List.map_eq_nil_iff, List.filter_eq_nil_iff, decide_eq_true_eq]
    exact h
  rw [this]; rfl

/-- **chunked keys = contiguous keys for reductions**: merging, from the empty partial, the per-chunk
partial results (already expressed in global codes) gives the single-pass result over all rows -/
theorem chunked_reduce_eq_flat (kn : Kernel) (k : Kind) (hk : k.Supported) (chunksGlobal : List (List Row))
    (hwf : C04.BlocksWF k chunksGlobal) (g : Int) (hg : 0 ≤ g) :
    (chunksGlobal.map fun c => groupByReduce (kn.red modelReducers k) (kn.init k) c g).foldl
        (mergePair (kn.mergeRed modelReducers k)) (kn.init k, 0)
      = groupByReduce (kn.red modelReducers k) (kn.init k) chunksGlobal.flatten g := by
  obtain ⟨Good, hm⟩ := C04.kernel_mergeOK kn k hk
  have hmap : (chunksGlobal.map fun c => groupByReduce (kn.red modelReducers k) (kn.init k) c g)
      = (chunksGlobal.map (valsOf · g)).map (·.foldl (pstep (kn.red modelReducers k)) (kn.init k, 0)) := by
    simp only [List.map_map]
    apply List.map_congr_left
    intro c _
    simp only [Function.comp]
    rw [groupByReduce_at _ _ _ _ hg]; rfl
  rw [hmap, hm.merge_blocks_from_empty, groupByReduce_at _ _ _ _ hg, valsOf_flatten]
  · rfl
  · intro B hB
    simp only [List.mem_map] at hB
    obtain ⟨c, hc, rfl⟩ := hB
    exact C04.valsOf_wf (hwf c hc) g

/-- non-vacuity: a history through all three representations -/
example :
    let s : KeyRepr := { chunks := [[0, 1, -1], [1, 0]], pointers := some [[2, 0], [0, 1]], flat := false }
    globalCodes s = [2, 0, -1, 1, 0] ∧
    globalCodes ([Op.reduce, .groupsLike, .rowAligned, .reduce].foldl step s) = [2, 0, -1, 1, 0] ∧
    ([Op.groupsLike].foldl step s).pointers = none ∧ ([Op.groupsLike, .rowAligned].foldl step s).flat = true := by decide

/-- the unification loop of `GroupBy._unify_group_key_chunks` has the shape the model `unify` / `globalCodes` stands for
(re-extracted from the AST of `core.py` on every run): every chunk is mapped through its pointer table at the non-null
positions only and keeps `-1` elsewhere, with no fast path around it -/
theorem source_unify_keeps_null_code : Generated.Constants.unifyKeepsNullCode = true := by decide

end GV.C13
