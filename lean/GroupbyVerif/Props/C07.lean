import GroupbyVerif.Props.C04
import GroupbyVerif.Generated.Constants
import GroupbyVerif.Props.C03
import GroupbyVerif.Model.GroupBy

/-!
# C07 — transform=True broadcasts exactly the per-group result

`_apply_gb_reduction` runs the kernel with `ngroups + 1` slots and fancy-indexes the per-group
array with the row codes: a null key (code −1) wraps to the extra trailing slot, which no row
ever writes.
-/

namespace GV.C07
open GV

/-- transform: one value per input row, in input order (`result[group_ikey]` on an array of `ng + 1` slots) -/
def transformRows (p : Int → Partial) (ng : Nat) (codes : List Int) : List Val :=
  codes.map fun c => (p (normIdx (ng + 1) c)).1

/-- a slot no selected row carries is never written: it holds the initial (neutral) value with count 0 -/
theorem untouched_slot_neutral (red : Red) (init : Val) (rows : List Row) (g : Int) (hg : 0 ≤ g)
    (h : ∀ r ∈ rows, r.1 ≠ g) : groupByReduce red init rows g = (init, 0) := by
  rw [groupByReduce_at _ _ _ _ hg]
  have : valsOf rows g = [] := by
    simp only [valsOf, List.map_eq_nil_iff, List.filter_eq_nil_iff, decide_eq_true_eq]
    exact h
  rw [this]; rfl

/-- **transform = lookup**: the output has one entry per input row, in input order; a row with a valid
code gets the per-group definition over the selected rows of its group; a row with a null key
gets the neutral value of the trailing slot -/
theorem transform_eq_lookup (kn : Kernel) (k : Kind) (ng : Nat) (sel : List Row) (codes : List Int)
    (hsel : ∀ r ∈ sel, r.1 < ng) :
    let p := groupByReduce (kn.red modelReducers k) (kn.init k) sel
    (transformRows p ng codes).length = codes.length ∧
    ∀ (i : Nat) (c : Int), codes[i]? = some c →
      (0 ≤ c → (transformRows p ng codes)[i]? = some (specKernel kn k (valsOf sel c)).1) ∧
      (c = -1 → (transformRows p ng codes)[i]? = some (kn.init k)) := by
  intro p
  refine ⟨by simp [transformRows], ?_⟩
  intro i c hc
  constructor
  · intro h0
    have hn : normIdx (ng + 1) c = c := by
      have : ¬ c < 0 := by omega
      simp [normIdx, this]
    simp only [transformRows, List.getElem?_map, hc, Option.map_some, hn]
    show some (groupByReduce (kn.red modelReducers k) (kn.init k) sel c).1 = _
    rw [C04.kernel_eq_def _ _ _ _ h0]
  · intro hm1
    subst hm1
    have hn : normIdx (ng + 1) (-1) = (ng : Int) := by
      simp [normIdx]; omega
    simp only [transformRows, List.getElem?_map, hc, Option.map_some, hn]
    show some (groupByReduce (kn.red modelReducers k) (kn.init k) sel (ng : Int)).1 = _
    rw [untouched_slot_neutral _ _ sel (ng : Int) (by omega)]
    intro r hr
    have := hsel r hr
    omega

/-- a group without any selected row also shows the neutral value -/
theorem empty_group_neutral (kn : Kernel) (k : Kind) (sel : List Row) (g : Int) (hg : 0 ≤ g)
    (h : ∀ r ∈ sel, r.1 ≠ g) :
    groupByReduce (kn.red modelReducers k) (kn.init k) sel g = (kn.init k, 0) :=
  untouched_slot_neutral _ _ sel g hg h

/-- container rule (decision logic of `_apply_gb_reduction`): polars values in, polars out; otherwise pandas -/
inductive Container where
  | pandas | polars
deriving DecidableEq, Repr

def outContainer (allValuesPolars : Bool) (transform : Bool) : Container :=
  if allValuesPolars && transform then .polars else .pandas

theorem container_follows_input : outContainer true true = .polars ∧ outContainer false true = .pandas := by decide

example : transformRows (groupByReduce (Scalar.nansum .f) (.num 0) [(0, .num 1), (1, .num 5), (0, .num 2)]) 2 [0, 1, -1, 0]
    = [.num 3, .num 5, .num 0, .num 3] := by decide

/-- **transform = lookup, on the translated kernel**: fancy-indexing the `ngroups + 1` slots written by the translated
`_group_by_reduce` with the row codes (numpy's wrap of `-1` to the last slot) gives every row with a valid code the
per-group definition over the selected rows of its group, and every null-key row the untouched trailing slot's
initial value -/
theorem source_transform_eq_lookup (kn : Kernel) (k : Kind) (ng : Nat) (sel : List Row) (hsel : ∀ r ∈ sel, r.1 < ng)
    (c : Int) :
    let slots := (C03.srcRun kn k (ng + 1) sel).1
    (0 ≤ c → slots (normI ((ng + 1 : Nat) : Int) c) = (specKernel kn k (valsOf sel c)).1) ∧
    (c = -1 → slots (normI ((ng + 1 : Nat) : Int) c) = kn.init k) := by
  intro slots
  constructor
  · intro h0
    have hn : normI ((ng + 1 : Nat) : Int) c = c := by unfold normI; split <;> omega
    rw [hn]
    have h := C03.srcRun_eq kn k (ng + 1) sel c h0
    rw [C04.kernel_eq_def _ _ _ _ h0] at h
    exact congrArg Prod.fst h
  · intro hm1
    subst hm1
    have hn : normI ((ng + 1 : Nat) : Int) (-1) = (ng : Int) := by unfold normI; simp; omega
    rw [hn]
    have h := C03.srcRun_eq kn k (ng + 1) sel (ng : Int) (by omega)
    rw [untouched_slot_neutral _ _ sel (ng : Int) (by omega) (by intro r hr; have := hsel r hr; omega)] at h
    exact congrArg Prod.fst h

example :
    let slots := (C03.srcRun .sum .f 3 [(0, .num 1), (1, .num 5), (0, .num 2)]).1
    ([0, 1, -1, 0].map fun c => slots (normI 3 c)) = [.num 3, .num 5, .num 0, .num 3] := by decide

/-- the Python around the kernels has the shape `transformRows` / `source_transform_eq_lookup` stand for (facts
re-extracted from the AST of `core.py` on every run): every kernel call gets `ngroups + 1` slots, also per key chunk
(`len(pointer) + 1`); the per-chunk results drop the null slot (`result[:-1]`, `counts[j][:-1]`) before they are merged
into a target of `len(result_index) + 1` slots; `transform=True` is `result[self.group_ikey]` -/
theorem source_transform_shape :
    Generated.Constants.kernelCallHasNullSlot = true ∧ Generated.Constants.chunkedKernelCallHasNullSlot = true ∧
    Generated.Constants.chunkedTargetHasNullSlot = true ∧ Generated.Constants.chunkResultsDropNullSlot = true ∧
    Generated.Constants.transformBroadcastsByCodes = true := by decide

end GV.C07
