import GroupbyVerif.Model.Align

/-!
# C18 — Misaligned inputs are rejected, never silently mis-grouped

The validators of `core._validate_input_lengths_and_indexes` / `GroupBy._preprocess_arguments`
as Boolean functions of the argument lengths and index identities (an index is abstracted to an
identifier: two pandas indexes are `equals` iff their identifiers coincide).
-/

namespace GV.C18

theorem lengthsOk_iff (lens : List Nat) : lengthsOk lens = true ↔ ∀ a ∈ lens, ∀ b ∈ lens, a = b := by
  cases lens with
  | nil => simp [lengthsOk]
  | cons l ls =>
    simp only [lengthsOk, List.all_eq_true, beq_iff_eq, List.mem_cons]
    constructor
    · intro h a ha b hb
      rcases ha with rfl | ha <;> rcases hb with rfl | hb
      · rfl
      · exact (h b hb).symm
      · exact h a ha
      · rw [h a ha, h b hb]
    · intro h x hx
      exact h x (Or.inr hx) l (Or.inl rfl)

theorem chainOk_iff (idxs : List Nat) : chainOk idxs = true ↔ ∀ a ∈ idxs, ∀ b ∈ idxs, a = b := by
  induction idxs with
  | nil => simp [chainOk]
  | cons x xs ih =>
    cases xs with
    | nil => simp [chainOk]
    | cons y ys =>
      simp only [chainOk, Bool.and_eq_true, beq_iff_eq, ih]
      constructor
      · rintro ⟨hxy, hall⟩ a ha b hb
        have ha' : a = y := by
          rcases List.mem_cons.mp ha with rfl | ha
          · exact hxy
          · exact hall a ha y (List.mem_cons_self ..)
        have hb' : b = y := by
          rcases List.mem_cons.mp hb with rfl | hb
          · exact hxy
          · exact hall b hb y (List.mem_cons_self ..)
        rw [ha', hb']
      · intro h
        refine ⟨h x (List.mem_cons_self ..) y (List.mem_cons_of_mem _ (List.mem_cons_self ..)), ?_⟩
        intro a ha b hb
        exact h a (List.mem_cons_of_mem _ ha) b (List.mem_cons_of_mem _ hb)

/-- **accepted iff aligned**: every array argument has the length of the keys, and every pandas argument
carries the keys' index (when the keys have one; otherwise the pandas arguments agree among themselves) -/
theorem accepts_iff_aligned (nKeys : Nat) (keyIndex : Option Nat) (lens idxs : List Nat) :
    accepts nKeys keyIndex lens idxs = true ↔
      (∀ l ∈ lens, l = nKeys) ∧
      (match keyIndex with
       | some k => ∀ i ∈ idxs, i = k
       | none => ∀ a ∈ idxs, ∀ b ∈ idxs, a = b) := by
  simp only [accepts, Bool.and_eq_true, lengthsOk_iff, chainOk_iff]
  constructor
  · rintro ⟨⟨⟨hl, hi⟩, hn⟩, hk⟩
    constructor
    · intro l hl'
      cases lens with
      | nil => simp at hl'
      | cons l0 ls =>
        simp only [beq_iff_eq] at hn
        rw [hl l hl' l0 (List.mem_cons_self ..), hn]
    · cases keyIndex with
      | none => exact hi
      | some k =>
        intro i hi'
        cases idxs with
        | nil => simp at hi'
        | cons i0 is =>
          simp only [beq_iff_eq] at hk
          rw [hi i hi' i0 (List.mem_cons_self ..), ← hk]
  · rintro ⟨hl, hk⟩
    refine ⟨⟨⟨fun a ha b hb => by rw [hl a ha, hl b hb], ?_⟩, ?_⟩, ?_⟩
    · cases keyIndex with
      | none => exact hk
      | some k => intro a ha b hb; rw [hk a ha, hk b hb]
    · cases lens with
      | nil => rfl
      | cons l0 ls => simp [hl l0 (List.mem_cons_self ..)]
    · cases keyIndex with
      | none => rfl
      | some k =>
        cases idxs with
        | nil => rfl
        | cons i0 is => simp [hk i0 (List.mem_cons_self ..)]

/-- non-vacuity: aligned inputs are accepted, a short mask and a permuted index are rejected -/
example : accepts 5 (some 7) [5, 5] [7, 7] = true ∧ accepts 5 (some 7) [5, 4] [7, 7] = false ∧
    accepts 5 (some 7) [5, 5] [7, 8] = false ∧ accepts 5 none [5] [3] = true := by decide

end GV.C18
