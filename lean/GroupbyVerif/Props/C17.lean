import GroupbyVerif.Model.Facade
import GroupbyVerif.Model.Factorize
import GroupbyVerif.Generated.Facade

/-!
# C17 — The pandas-style facade agrees with the core engine (and with pandas)

* resolution of `by` / `level`: columns used as keys are never among the value columns, all other columns are,
  in frame order (`key_columns_not_aggregated`, `non_key_columns_kept`, `value_columns_sublist`);
* a selection made with `[]` is exactly what is handed to the engine (`selection_honoured`), and - from the
  source - **every** facade method hands `_values_to_group` (or nothing, for size / cumcount) to the engine
  (`every_method_passes_selected_values`, on the table extracted from `api.py`);
* iteration by position yields every label once with exactly the rows of that group in row order, whatever the
  index labels (`iter_labels_once`, `iter_rows_exact`); looking positions up as labels does not
  (`loc_is_not_iloc`), and the source uses `.iloc` (`source_facts`).
Agreement with the engine is then delegation (same engine method, same values); agreement with pandas is
observed by the correspondence check only.
-/

namespace GV.C17
open GV GV.Facade

theorem resolveAll_keyColumns (f : Frame) (by_ : List ByItem) (ks : List KeySrc) (h : resolveAll f by_ = some ks)
    (c : String) : c ∈ ks.filterMap keyColumn ↔ (ByItem.label c ∈ by_ ∧ c ∈ f.columns) := by
  induction by_ generalizing ks with
  | nil => simp [resolveAll] at h; subst h; simp
  | cons b bs ih =>
    unfold resolveAll at h
    split at h
    · rename_i k ks' hb hbs
      simp only [Option.some.injEq] at h
      subst h
      have ih' := ih ks' hbs
      cases b with
      | array id =>
        simp only [resolveItem, Option.some.injEq] at hb; subst hb
        rw [List.filterMap_cons]; simp only [keyColumn]; rw [ih']; simp
      | callable id =>
        simp only [resolveItem, Option.some.injEq] at hb; subst hb
        rw [List.filterMap_cons]; simp only [keyColumn]; rw [ih']; simp
      | label nm =>
        simp only [resolveItem] at hb
        by_cases hc : nm ∈ f.columns
        · simp only [hc, if_true, Option.some.injEq] at hb; subst hb
          rw [List.filterMap_cons]; simp only [keyColumn, List.mem_cons]; rw [ih']
          constructor
          · rintro (h1 | h1)
            · subst h1; exact ⟨Or.inl rfl, hc⟩
            · exact ⟨Or.inr h1.1, h1.2⟩
          · rintro ⟨h1 | h1, h2⟩
            · left; injection h1
            · right; exact ⟨h1, h2⟩
        · simp only [hc, if_false] at hb
          by_cases hi : nm ∈ f.indexNames
          · simp only [hi, if_true, Option.some.injEq] at hb; subst hb
            rw [List.filterMap_cons]; simp only [keyColumn]; rw [ih']
            constructor
            · rintro ⟨h1, h2⟩; exact ⟨List.mem_cons_of_mem _ h1, h2⟩
            · rintro ⟨h1, h2⟩
              rcases List.mem_cons.mp h1 with h1 | h1
              · injection h1 with h1; subst h1; exact absurd h2 hc
              · exact ⟨h1, h2⟩
          · simp [hi] at hb
    · cases h

theorem resolveAll_length (f : Frame) (by_ : List ByItem) (ks : List KeySrc) (h : resolveAll f by_ = some ks) : ks.length = by_.length := by
  induction by_ generalizing ks with
  | nil => simp [resolveAll] at h; subst h; rfl
  | cons b bs ih =>
    unfold resolveAll at h
    split at h
    · rename_i k ks' hb hbs
      simp only [Option.some.injEq] at h
      subst h
      simp [ih ks' hbs]
    · cases h

/-- a column used as a key is not aggregated -/
theorem key_columns_not_aggregated (f : Frame) (by_ : List ByItem) (levels : List Nat) (r : Resolved)
    (h : resolve f by_ levels = some r) (c : String) (hby : ByItem.label c ∈ by_) (hc : c ∈ f.columns) :
    c ∉ r.valueColumns := by
  unfold resolve at h
  split at h
  · cases h
  · rename_i ks hk
    simp only [Option.some.injEq] at h
    subst h
    intro hm
    have h2 := (List.mem_filter.mp hm).2
    have : c ∈ ks.filterMap keyColumn := (resolveAll_keyColumns f by_ ks hk c).mpr ⟨hby, hc⟩
    simp [this] at h2

/-- every other column is a value column -/
theorem non_key_columns_kept (f : Frame) (by_ : List ByItem) (levels : List Nat) (r : Resolved)
    (h : resolve f by_ levels = some r) (c : String) (hc : c ∈ f.columns) (hby : ByItem.label c ∉ by_) :
    c ∈ r.valueColumns := by
  unfold resolve at h
  split at h
  · cases h
  · rename_i ks hk
    simp only [Option.some.injEq] at h
    subst h
    have : c ∉ ks.filterMap keyColumn := fun hm => hby ((resolveAll_keyColumns f by_ ks hk c).mp hm).1
    exact List.mem_filter.mpr ⟨hc, by simpa using this⟩

/-- the value columns are the frame's columns, in frame order, minus the key columns -/
theorem value_columns_sublist (f : Frame) (by_ : List ByItem) (levels : List Nat) (r : Resolved)
    (h : resolve f by_ levels = some r) : r.valueColumns.Sublist f.columns := by
  unfold resolve at h
  split at h
  · cases h
  · simp only [Option.some.injEq] at h
    subst h
    exact List.filter_sublist

/-- one key per `by` item, in order, then the levels -/
theorem keys_length (f : Frame) (by_ : List ByItem) (levels : List Nat) (r : Resolved)
    (h : resolve f by_ levels = some r) : r.keys.length = by_.length + levels.length := by
  unfold resolve at h
  split at h
  · cases h
  · rename_i ks hk
    simp only [Option.some.injEq] at h
    subst h
    simp [resolveAll_length f by_ ks hk]

/-- a selection is what the engine gets -/
theorem selection_honoured (r : Resolved) (nm : String) (nms : List String) :
    selectedColumns r (.one nm) = [nm] ∧ selectedColumns r (.list nms) = nms ∧ selectedColumns r .all = r.valueColumns :=
  ⟨rfl, rfl, rfl⟩

example : resolve ⟨["k", "a", "b"], ["lvl"]⟩ [.label "k", .label "lvl", .array 0] [0]
    = some ⟨[.column "k", .level 0, .array 0, .level 0], ["a", "b"]⟩ := by decide +kernel

/-! ## from the source -/

/-- every facade method hands the selected value columns (`_values_to_group`) to the engine - or no values
at all (size, cumcount: numbering rows never looks at values) -/
theorem every_method_passes_selected_values :
    Generated.Facade.delegation.all (fun (m, _, src) => src == "values" || ((m == "size" || m == "cumcount") && src == "none")) = true
    ∧ Generated.Facade.rollingSource = "values" := by decide

/-- every aggregation / cumulative method is a thin delegation to the engine method of the same name -/
theorem delegation_same_name :
    Generated.Facade.delegation.all (fun (m, e, _) => m == e || m == "agg") = true := by decide

theorem source_facts :
    Generated.Facade.iterIndexer = "iloc" ∧ Generated.Facade.valueColumnsExcludeKeys = true ∧ Generated.Facade.keyColumnsRecorded = true ∧
    Generated.Facade.selectionOneIsColumn = true ∧ Generated.Facade.selectionListIsValueColumns = true ∧
    Generated.Facade.valuesToGroupIsValueColumns = true := by decide

example : Generated.Facade.delegation.length ≥ 20 := by decide

/-! ## iteration -/

theorem iter_labels_once {α : Type} (codes : List Int) (ngroups : Nat) (rows : List α) :
    (iterGroups codes ngroups rows).map (·.1) = List.range ngroups := by
  simp [iterGroups, Function.comp_def]

/-- the rows yielded for label `g` are exactly the rows whose code is `g`, in row order (no matter what the
index labels are: they do not occur) -/
theorem iter_rows_exact {α : Type} (codes : List Int) (ngroups : Nat) (rows : List α) (hlen : rows.length = codes.length)
    (g : Nat) (hg : g < ngroups) :
    (iterGroups codes ngroups rows)[g]? =
      some (g, ((rows.zip codes).filter (fun p => p.2 = Int.ofNat g)).map (·.1)) := by
  unfold iterGroups
  rw [List.getElem?_map, List.getElem?_range hg]
  simp only [Option.map_some, Option.some.injEq, Prod.mk.injEq, true_and]
  -- induction with an offset into the full row list
  have key : ∀ (cs : List Int) (rs : List α) (off : Nat) (all : List α), rs.length = cs.length →
      (∀ j, j < rs.length → all[off + j]? = rs[j]?) →
      ((cs.zipIdx off).filter (fun p => p.1 = Int.ofNat g)).filterMap (fun p => all[p.2]?) =
        ((rs.zip cs).filter (fun p => p.2 = Int.ofNat g)).map (·.1) := by
    intro cs
    induction cs with
    | nil => intro rs off all h _; cases rs <;> simp_all
    | cons c cs ih =>
      intro rs off all h hall
      cases rs with
      | nil => simp at h
      | cons r rs =>
        have h0 : all[off]? = some r := by
          have := hall 0 (by simp)
          simpa using this
        have ih' := ih rs (off + 1) all (by simpa using h) (by
          intro j hj
          have := hall (j + 1) (by simp; omega)
          rw [List.getElem?_cons_succ] at this
          rw [← this]
          congr 1; omega)
        rw [List.zipIdx_cons, List.zip_cons_cons, List.filter_cons, List.filter_cons]
        by_cases hc : c = Int.ofNat g
        · simp only [hc, decide_true, if_true, List.filterMap_cons, h0, List.map_cons]
          rw [ih']
        · simp only [hc, decide_false]
          exact ih'
  have := key codes rows 0 rows hlen (by intro j _; simp)
  simpa using this

/-- looking group positions up as index labels is a different function: with index labels [1, 0] the rows of
the group at position 0 are found at position 1 -/
theorem loc_is_not_iloc : locLookup [1, 0] ["row0", "row1"] [0] = ["row1"] ∧ (([0] : List Nat).filterMap (["row0", "row1"][·]?)) = ["row0"] := by
  decide

end GV.C17
