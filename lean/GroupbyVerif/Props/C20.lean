import GroupbyVerif.Model.Nanops
import GroupbyVerif.Lemmas.Reducers
import GroupbyVerif.Bridge
import GroupbyVerif.Lemmas.Fold
import GroupbyVerif.Props.C04
import GroupbyVerif.LoopBridge.NbReduce
import GroupbyVerif.LoopBridge.Dot

/-!
# C20 — Stand-alone array helpers agree with their NumPy definitions
-/

namespace GV.C20
open GV GV.C04

/-- the two-argument reducers the driver executes (regenerated from the source) are the modelled ones -/
theorem generated_rops_eq_model :
    Generated.ReductionOps.sum = ROps.sum ∧ Generated.ReductionOps.min = ROps.min ∧
    Generated.ReductionOps.max = ROps.max ∧ Generated.ReductionOps.count = ROps.count ∧
    Generated.ReductionOps.sum_square = ROps.sum_square :=
  ⟨Bridge.rop_sum, Bridge.rop_min, Bridge.rop_max, Bridge.rop_count, Bridge.rop_sum_square⟩

/-! ### `_nb_reduce` with null skipping = fold over the non-null values -/

theorem firstNonNull_spec (k : Kind) (vs : List Val) (i : Nat) :
    match firstNonNull k vs i with
    | none => nonNull k vs = []
    | some (loc, out) => i ≤ loc ∧ nonNull k vs = out :: nonNull k (vs.drop (loc - i + 1)) := by
  induction vs generalizing i with
  | nil => simp [firstNonNull, nonNull]
  | cons v vs ih =>
    simp only [firstNonNull]
    by_cases hn : isNull k v = true
    · simp only [hn, if_true]
      have := ih (i + 1)
      cases h : firstNonNull k vs (i + 1) with
      | none => simp only [h] at this; simp [nonNull, hn] at this ⊢; exact this
      | some p =>
        obtain ⟨loc, out⟩ := p
        simp only [h] at this
        obtain ⟨h1, h2⟩ := this
        refine ⟨by omega, ?_⟩
        have e : loc - i + 1 = (loc - (i + 1) + 1) + 1 := by omega
        rw [e, List.drop_succ_cons]
        simpa [nonNull, hn] using h2
    · simp only [hn, Bool.false_eq_true, if_false]
      refine ⟨Nat.le_refl _, ?_⟩
      simp [nonNull, hn]

/-- null-skipping reduction without initial value: the fold of the non-null values seeded by the
first of them; the first element itself (a null) when every element is null -/
theorem nbReduce_skipna (k : Kind) (f : Val → Val → Val) (a0 : Val) (rest : List Val) :
    nbReduce k f (a0 :: rest) true none = some (accOf f id a0 (nonNull k (a0 :: rest))) := by
  have h := firstNonNull_spec k (a0 :: rest) 0
  simp only [nbReduce]
  cases hf : firstNonNull k (a0 :: rest) 0 with
  | none => simp only [hf] at h; simp [h, accOf]
  | some p =>
    obtain ⟨loc, out⟩ := p
    simp only [hf] at h
    obtain ⟨_, h2⟩ := h
    simp only [Nat.sub_zero] at h2
    simp [h2, accOf]

/-! ### the chunked (multi-threaded) reduction equals the one-pass reduction -/

theorem foldl_comb_assoc (comb : Val → Val → Val) (hc : CombOK comb) (a y : Int) (ys : List Int) :
    comb (.num a) ((ys.map Val.num).foldl comb (.num y)) = (ys.map Val.num).foldl comb (comb (.num a) (.num y)) := by
  induction ys generalizing y with
  | nil => rfl
  | cons z zs ih =>
    simp only [List.map_cons, List.foldl_cons]
    obtain ⟨c, hcc, _⟩ := hc.num_closed y z
    rw [hcc, ih, ← hcc, hc.assoc]

theorem foldl_num_closed (comb : Val → Val → Val) (hc : CombOK comb) (x : Int) (xs : List Int) :
    ∃ m, (xs.map Val.num).foldl comb (.num x) = .num m := by
  induction xs generalizing x with
  | nil => exact ⟨x, rfl⟩
  | cons z zs ih =>
    simp only [List.map_cons, List.foldl_cons]
    obtain ⟨c, hcc, _⟩ := hc.num_closed x z
    rw [hcc]; exact ih c

/-- result of one chunk given as its non-null integers: null marker for an all-null chunk -/
def chunkRes (comb : Val → Val → Val) (nul : Val) : List Int → Val
  | [] => nul
  | x :: xs => (xs.map Val.num).foldl comb (.num x)

/-- **min / max with any number of threads**: reducing the chunk results (skipping the null results of
all-null chunks) gives the reduction of all non-null values — for every split into chunks,
including all-null and single-element chunks -/
theorem chunked_extremum_eq_whole (comb : Val → Val → Val) (hc : CombOK comb) (x : Int) (chunks : List (List Int)) :
    (chunks.map fun c => c).foldl
        (fun (acc : Val) c => match c with | [] => acc | y :: ys => comb acc ((ys.map Val.num).foldl comb (.num y)))
        (.num x)
      = (chunks.flatten.map Val.num).foldl comb (.num x) := by
  induction chunks generalizing x with
  | nil => rfl
  | cons c cs ih =>
    simp only [List.map_cons, List.foldl_cons, List.flatten_cons, List.map_append, List.foldl_append]
    cases c with
    | nil => simpa using ih x
    | cons y ys =>
      simp only
      obtain ⟨m, hm⟩ := foldl_num_closed comb hc y ys
      obtain ⟨c', hc', _⟩ := hc.num_closed x m
      have hstep : (List.map Val.num (y :: ys)).foldl comb (.num x) = comb (.num x) ((ys.map Val.num).foldl comb (.num y)) := by
        simp only [List.map_cons, List.foldl_cons]
        rw [foldl_comb_assoc comb hc x y ys]
      rw [hstep, hm, hc']
      simpa using ih c'

theorem rops_max_ok (k : Kind) : CombOK (ROps.max k) := by
  constructor
  · intro a b
    by_cases h : a ≥ b
    · exact ⟨a, by simp [ROps.max, Val.ge, h], Or.inl rfl⟩
    · exact ⟨b, by simp [ROps.max, Val.ge, h], Or.inr rfl⟩
  · intro a b c
    simp only [ROps.max, Val.ge]
    by_cases h1 : a ≥ b <;> by_cases h2 : b ≥ c <;> by_cases h3 : a ≥ c <;>
      simp [h1, h2, h3, Val.ge] <;> omega

theorem rops_min_ok (k : Kind) : CombOK (ROps.min k) := by
  constructor
  · intro a b
    by_cases h : a ≤ b
    · exact ⟨a, by simp [ROps.min, Val.le, h], Or.inl rfl⟩
    · exact ⟨b, by simp [ROps.min, Val.le, h], Or.inr rfl⟩
  · intro a b c
    simp only [ROps.min, Val.le]
    by_cases h1 : a ≤ b <;> by_cases h2 : b ≤ c <;> by_cases h3 : a ≤ c <;>
      simp [h1, h2, h3, Val.le] <;> omega

/-- **sum / count with any number of threads** (exact arithmetic): the sum of the chunk sums is the sum -/
theorem chunked_sum_eq_whole (chunks : List (List Int)) :
    (chunks.map List.sum).sum = chunks.flatten.sum := by
  induction chunks with
  | nil => rfl
  | cons c cs ih =>
    simp only [List.map_cons, List.sum_cons, List.flatten_cons, List.sum_append, ih]

theorem chunked_count_eq_whole {α : Type} (chunks : List (List α)) :
    (chunks.map List.length).sum = chunks.flatten.length := by
  induction chunks with
  | nil => rfl
  | cons c cs ih =>
    simp only [List.map_cons, List.sum_cons, List.flatten_cons, List.length_append, ih]

/-- the `ROps.max` fold is the maximum: member and upper bound -/
theorem rops_max_char (k : Kind) (xs : List Int) (a : Int) :
    ∃ m, (xs.map Val.num).foldl (ROps.max k) (.num a) = .num m ∧ m ∈ a :: xs ∧ ∀ y ∈ a :: xs, y ≤ m := by
  induction xs generalizing a with
  | nil => exact ⟨a, rfl, by simp, by simp⟩
  | cons z zs ih =>
    simp only [List.map_cons, List.foldl_cons]
    by_cases hz : a ≥ z
    · obtain ⟨m, hm, hmem, hub⟩ := ih a
      refine ⟨m, by simpa [ROps.max, Val.ge, hz] using hm, ?_, ?_⟩
      · simp only [List.mem_cons] at hmem ⊢
        rcases hmem with h | h <;> simp [h]
      · intro y hy
        simp only [List.mem_cons] at hy
        rcases hy with h | h | h
        · exact hub y (by simp [h])
        · have := hub a (by simp); omega
        · exact hub y (by simp [h])
    · obtain ⟨m, hm, hmem, hub⟩ := ih z
      refine ⟨m, by simpa [ROps.max, Val.ge, hz] using hm, ?_, ?_⟩
      · simp only [List.mem_cons] at hmem ⊢
        rcases hmem with h | h <;> simp [h]
      · intro y hy
        simp only [List.mem_cons] at hy
        rcases hy with h | h | h
        · have := hub z (by simp); omega
        · exact hub y (by simp [h])
        · exact hub y (by simp [h])

/-! ### helpers -/

/-- **bools_to_categorical**: bit `i` of a row's mask is set exactly when column `i` is true, so the label
names exactly the true columns -/
theorem bitMask_testBit (bs : List Bool) (i : Nat) : (bitMask bs).testBit i = bs.getD i false := by
  induction bs generalizing i with
  | nil => simp [bitMask]
  | cons b bs ih =>
    cases i with
    | zero =>
      cases b <;> simp [bitMask, Nat.testBit_zero] <;> omega
    | succ j =>
      simp only [bitMask, List.getD_cons_succ]
      rw [Nat.testBit_succ]
      have : ((if b = true then 1 else 0) + 2 * bitMask bs) / 2 = bitMask bs := by
        cases b <;> simp <;> omega
      rw [this, ih]

theorem label_names_true_columns (bs : List Bool) (i : Nat) :
    i ∈ labelColumns bs.length (bitMask bs) ↔ bs.getD i false = true ∧ i < bs.length := by
  simp only [labelColumns, List.mem_filter, List.mem_range, bitMask_testBit]
  constructor
  · rintro ⟨h1, h2⟩; exact ⟨h2, h1⟩
  · rintro ⟨h1, h2⟩; exact ⟨h2, h1⟩

/-- **pretty_cut**: with sorted edges, `searchsorted` puts `x` into the bin `(edges[i-1], edges[i]]` -/
theorem searchLeft_bin (bins : List Int) (hs : bins.Pairwise (· ≤ ·)) (x : Int) :
    (∀ j (h : j < bins.length), j < searchLeft bins x → bins[j] < x) ∧
    (∀ j (h : j < bins.length), searchLeft bins x ≤ j → x ≤ bins[j]) := by
  induction bins with
  | nil => simp [searchLeft]
  | cons b bs ih =>
    obtain ⟨hb, hs'⟩ := List.pairwise_cons.mp hs
    obtain ⟨ih1, ih2⟩ := ih hs'
    by_cases hx : b < x
    · have e : searchLeft (b :: bs) x = searchLeft bs x + 1 := by simp [searchLeft, List.filter_cons, hx]
      constructor
      · intro j h hj
        cases j with
        | zero => simpa using hx
        | succ j' => simp only [List.getElem_cons_succ]; exact ih1 j' (by simpa using h) (by omega)
      · intro j h hj
        cases j with
        | zero => omega
        | succ j' => simp only [List.getElem_cons_succ]; exact ih2 j' (by simpa using h) (by omega)
    · have hall : ∀ c ∈ bs, ¬ c < x := fun c hc => by have := hb c hc; omega
      have e : searchLeft (b :: bs) x = 0 := by
        simp only [searchLeft, List.filter_cons, hx, decide_false, Bool.false_eq_true, if_false]
        rw [List.length_eq_zero_iff, List.filter_eq_nil_iff]
        intro c hc; simpa using hall c hc
      constructor
      · intro j h hj; omega
      · intro j h _
        cases j with
        | zero => simp; omega
        | succ j' =>
          simp only [List.getElem_cons_succ]
          have hj' : j' < bs.length := by simpa using h
          have := hb (bs[j']'hj') (List.getElem_mem _)
          omega

example : bitMask [true, false, true] = 5 ∧ labelColumns 3 5 = [0, 2] ∧ searchLeft [3, 6, 9] 6 = 1 := by decide

/-! ## `reduce_1d` with threads, end to end (float view) -/

/-- the numbers among float-view cells -/
def numsOf (l : List Val) : List Int := l.filterMap fun v => match v with | .num n => some n | .nan => none

theorem nonNull_f (l : List Val) : nonNull .f l = (numsOf l).map Val.num := by
  induction l with
  | nil => rfl
  | cons v vs ih =>
    cases v with
    | nan => simp [nonNull, numsOf, isNull, List.filter_cons] at ih ⊢; exact ih
    | num n => simp [nonNull, numsOf, isNull, List.filter_cons] at ih ⊢; exact ih

theorem numsOf_flatten (ls : List (List Val)) : numsOf ls.flatten = (ls.map numsOf).flatten := by
  unfold numsOf
  rw [List.filterMap_flatten]

theorem mapM_some {α β : Type} (g : α → β) (l : List α) : l.mapM (fun c => some (g c)) = some (l.map g) := by
  induction l with
  | nil => rfl
  | cons x xs ih => simp [List.mapM_cons, ih]

theorem fold_sum_nums (xs : List Int) : (xs.map Val.num).foldl (ROps.sum .f) (.num 0) = .num xs.sum := by
  have := specSum_char xs
  have hf : ROps.sum Kind.f = Val.add := by funext a b; rfl
  rw [hf]
  simpa [sumVals] using this

theorem fold_count_nums (xs : List Int) : (xs.map Val.num).foldl (ROps.count .f) (.num 0) = .num xs.length := by
  suffices H : ∀ a : Int, (xs.map Val.num).foldl (ROps.count .f) (.num a) = .num (a + xs.length) by simpa using H 0
  induction xs with
  | nil => intro a; simp
  | cons x xs ih =>
    intro a
    simp only [List.map_cons, List.foldl_cons, ROps.count, Val.add, Val.ofInt, List.length_cons]
    rw [ih]; congr 1; push_cast; omega

/-- **`reduce_1d("sum")` with any number of threads** (float view, `skipna=True`): the per-chunk sums of the
`array_split` chunks, added up, are the NumPy `nansum` of the whole array -/
theorem reduce1d_sum_threads (arr : List Val) (threads : Nat) (ht : 0 < threads) :
    reduce1d modelROps .sum .f arr true threads = some (specNan .sum .f arr) := by
  have hspec : specNan .sum .f arr = .num (numsOf arr).sum := by
    simp only [specNan, nonNull_f, specSum_char]
  rw [hspec]
  unfold reduce1d
  simp only [show (NanOp.sum = NanOp.count) = False by simp, if_false]
  by_cases h1 : threads = 1
  · simp only [h1, if_true, nbReduce, NanOp.initial, NanOp.fn, modelROps, nonNull_f, fold_sum_nums]
  · have h0 : threads ≠ 0 := by omega
    simp only [h1, h0, if_false, NanOp.initial, NanOp.fn, NanOp.chunkOp, modelROps, nbReduce, if_true]
    rw [mapM_some (fun c => (nonNull Kind.f c).foldl (ROps.sum Kind.f) (Val.num 0))]
    simp only
    have hparts : (arraySplit arr threads).map (fun c => (nonNull Kind.f c).foldl (ROps.sum Kind.f) (Val.num 0))
        = ((arraySplit arr threads).map (fun c => (numsOf c).sum)).map Val.num := by
      rw [List.map_map]
      apply List.map_congr_left
      intro c _
      simp [nonNull_f, fold_sum_nums]
    rw [hparts]
    have hnn : nonNull Kind.f (((arraySplit arr threads).map (fun c => (numsOf c).sum)).map Val.num)
        = ((arraySplit arr threads).map (fun c => (numsOf c).sum)).map Val.num := by
      rw [nonNull_f]
      congr 1
      simp [numsOf, List.filterMap_map, Function.comp_def]
    rw [hnn, fold_sum_nums]
    congr 2
    have := arraySplit_flatten arr threads ht
    conv => rhs; rw [← this, numsOf_flatten]
    induction (arraySplit arr threads) with
    | nil => rfl
    | cons c cs ih => simp [ih]

/-- **`reduce_1d("count")` with any number of threads**: the per-chunk counts of non-null cells add up to the number
of non-null cells, whatever `skipna` says -/
theorem reduce1d_count_threads (arr : List Val) (skipna : Bool) (threads : Nat) (ht : 0 < threads) :
    reduce1d modelROps .count .f arr skipna threads = some (specNan .count .f arr) := by
  have hspec : specNan .count .f arr = .num (numsOf arr).length := by
    simp only [specNan, nonNull_f, List.length_map]
  rw [hspec]
  unfold reduce1d
  simp only [if_true]
  by_cases h1 : threads = 1
  · simp only [h1, if_true, nbReduce, NanOp.initial, NanOp.fn, modelROps, nonNull_f, fold_count_nums]
  · have h0 : threads ≠ 0 := by omega
    simp only [h1, h0, if_false, NanOp.initial, NanOp.fn, NanOp.chunkOp, modelROps, nbReduce, if_true]
    rw [mapM_some (fun c => (nonNull Kind.f c).foldl (ROps.count Kind.f) (Val.num 0))]
    simp only
    have hparts : (arraySplit arr threads).map (fun c => (nonNull Kind.f c).foldl (ROps.count Kind.f) (Val.num 0))
        = ((arraySplit arr threads).map (fun c => ((numsOf c).length : Int))).map Val.num := by
      rw [List.map_map]
      apply List.map_congr_left
      intro c _
      simp [nonNull_f, fold_count_nums]
    rw [hparts]
    have hnn : nonNull Kind.f (((arraySplit arr threads).map (fun c => ((numsOf c).length : Int))).map Val.num)
        = ((arraySplit arr threads).map (fun c => ((numsOf c).length : Int))).map Val.num := by
      rw [nonNull_f]
      congr 1
      simp [numsOf, List.filterMap_map, Function.comp_def]
    have hfold : (if skipna = true then (nonNull Kind.f (((arraySplit arr threads).map (fun c => ((numsOf c).length : Int))).map Val.num)).foldl (ROps.sum Kind.f) (Val.num 0)
        else (((arraySplit arr threads).map (fun c => ((numsOf c).length : Int))).map Val.num).foldl (ROps.sum Kind.f) (Val.num 0))
        = Val.num (((arraySplit arr threads).map (fun c => ((numsOf c).length : Int))).sum) := by
      cases skipna
      · simp only [Bool.false_eq_true, if_false]; exact fold_sum_nums _
      · simp only [if_true]; rw [hnn]; exact fold_sum_nums _
    rw [hfold]
    congr 2
    have := arraySplit_flatten arr threads ht
    conv => rhs; rw [← this, numsOf_flatten]
    induction (arraySplit arr threads) with
    | nil => rfl
    | cons c cs ih => simp [ih]


/-! ## `reduce_1d("max" / "min")` with threads, end to end (float view) -/

theorem chunkRes_num (comb : Val → Val → Val) (hc : CombOK comb) (y : Int) (ys : List Int) :
    ∃ m, chunkRes comb .nan (y :: ys) = .num m := foldl_num_closed comb hc y ys

/-- folding the non-null chunk results into an accumulator = folding all the numbers -/
theorem fold_chunk_results (comb : Val → Val → Val) (hc : CombOK comb) (a : Int) (cs : List (List Int)) :
    (nonNull .f (cs.map (chunkRes comb .nan))).foldl comb (.num a) = (cs.flatten.map Val.num).foldl comb (.num a) := by
  induction cs generalizing a with
  | nil => rfl
  | cons c cs ih =>
    cases c with
    | nil =>
      simp only [List.map_cons, chunkRes, List.flatten_cons, List.nil_append]
      have : nonNull .f (Val.nan :: cs.map (chunkRes comb .nan)) = nonNull .f (cs.map (chunkRes comb .nan)) := by
        simp [nonNull, isNull, List.filter_cons]
      rw [this]; exact ih a
    | cons y ys =>
      obtain ⟨m, hm⟩ := chunkRes_num comb hc y ys
      simp only [List.map_cons, List.flatten_cons, List.map_append, List.foldl_append]
      have : nonNull .f (chunkRes comb .nan (y :: ys) :: cs.map (chunkRes comb .nan))
          = chunkRes comb .nan (y :: ys) :: nonNull .f (cs.map (chunkRes comb .nan)) := by
        rw [hm]; simp [nonNull, isNull, List.filter_cons]
      rw [this, List.foldl_cons]
      have hstep : List.foldl comb (Val.num a) (Val.num y :: List.map Val.num ys) = comb (.num a) (chunkRes comb .nan (y :: ys)) := by
        simp only [List.foldl_cons, chunkRes]
        rw [foldl_comb_assoc comb hc a y ys]
      rw [hstep, hm]
      obtain ⟨c', hc', _⟩ := hc.num_closed a m
      rw [hc']
      exact ih c'

/-- reducing the chunk results (null-skipping, seeded by the first result) = the result of the whole -/
theorem accOf_chunk_results (comb : Val → Val → Val) (hc : CombOK comb) (d : Val) (cs : List (List Int)) :
    accOf comb id d (nonNull .f (cs.map (chunkRes comb .nan))) = (if cs.flatten = [] then d else chunkRes comb .nan cs.flatten) := by
  induction cs with
  | nil => simp [nonNull, accOf]
  | cons c cs ih =>
    cases c with
    | nil =>
      have : nonNull .f ((([] : List Int) :: cs).map (chunkRes comb .nan)) = nonNull .f (cs.map (chunkRes comb .nan)) := by
        simp [chunkRes, nonNull, isNull, List.filter_cons]
      rw [this, ih]; simp
    | cons y ys =>
      obtain ⟨m, hm⟩ := chunkRes_num comb hc y ys
      have : nonNull .f (((y :: ys) :: cs).map (chunkRes comb .nan))
          = chunkRes comb .nan (y :: ys) :: nonNull .f (cs.map (chunkRes comb .nan)) := by
        simp only [List.map_cons]; rw [hm]; simp [nonNull, isNull, List.filter_cons]
      rw [this]
      simp only [accOf, id, List.flatten_cons, List.cons_append, reduceCtorEq, if_false]
      rw [hm, fold_chunk_results comb hc m cs]
      simp only [chunkRes, List.map_append, List.foldl_append]
      have : (ys.map Val.num).foldl comb (.num y) = .num m := hm
      rw [this]

theorem accOf_nums (comb : Val → Val → Val) (a0 : Val) (rest : List Val) :
    accOf comb id a0 ((numsOf (a0 :: rest)).map Val.num) = chunkRes comb .nan (numsOf (a0 :: rest)) := by
  cases hn : numsOf (a0 :: rest) with
  | nil =>
    simp only [List.map_nil, accOf, chunkRes]
    cases a0 with
    | nan => rfl
    | num n => simp [numsOf] at hn
  | cons y ys => simp [accOf, chunkRes]

theorem nbReduce_chunk (comb : Val → Val → Val) (c : List Val) (hc : c ≠ []) :
    nbReduce .f comb c true none = some (chunkRes comb .nan (numsOf c)) := by
  cases c with
  | nil => exact absurd rfl hc
  | cons a0 rest => rw [nbReduce_skipna, nonNull_f, accOf_nums]

theorem mapM_of_forall {α β : Type} (g : α → Option β) (g' : α → β) (l : List α) (h : ∀ c ∈ l, g c = some (g' c)) :
    l.mapM g = some (l.map g') := by
  induction l with
  | nil => rfl
  | cons x xs ih =>
    rw [List.mapM_cons, h x (List.mem_cons_self ..), ih (fun c hc => h c (List.mem_cons_of_mem _ hc))]
    rfl

/-- **`reduce_1d("max" / "min")` with any number of threads** (float view, `skipna=True`, no empty chunk): the
null-skipping reduction of the per-chunk results is the extremum of all non-null values - NaN when there is none -/
theorem reduce1d_extremum_threads (op : NanOp) (hop : op = .max ∨ op = .min) (arr : List Val) (threads : Nat) (ht : 0 < threads)
    (harr : arr ≠ []) (hne : ∀ c ∈ arraySplit arr threads, c ≠ []) :
    reduce1d modelROps op .f arr true threads = some (chunkRes (op.fn modelROps .f) .nan (numsOf arr)) := by
  have hok : CombOK (op.fn modelROps .f) := by
    rcases hop with rfl | rfl
    · exact rops_max_ok .f
    · exact rops_min_ok .f
  have hcount : (op = NanOp.count) = False := by rcases hop with rfl | rfl <;> simp
  have hinit : op.initial = none := by rcases hop with rfl | rfl <;> rfl
  have hchunk : op.chunkOp = op := by rcases hop with rfl | rfl <;> rfl
  unfold reduce1d
  simp only [hcount, if_false, hinit, hchunk]
  by_cases h1 : threads = 1
  · simp only [h1, if_true]
    exact nbReduce_chunk _ arr harr
  · have h0 : threads ≠ 0 := by omega
    simp only [h1, h0, if_false]
    rw [mapM_of_forall _ (fun c => chunkRes (op.fn modelROps .f) .nan (numsOf c)) _
      (fun c hc => nbReduce_chunk _ c (hne c hc))]
    simp only
    have hparts_ne : (arraySplit arr threads).map (fun c => chunkRes (op.fn modelROps .f) .nan (numsOf c)) ≠ [] := by
      intro h
      exact arraySplit_ne_nil arr threads ht (List.map_eq_nil_iff.mp h)
    cases hp : (arraySplit arr threads).map (fun c => chunkRes (op.fn modelROps .f) .nan (numsOf c)) with
    | nil => exact absurd hp hparts_ne
    | cons p0 prest =>
      rw [nbReduce_skipna, ← hp]
      have hmm : (arraySplit arr threads).map (fun c => chunkRes (op.fn modelROps .f) .nan (numsOf c))
          = ((arraySplit arr threads).map numsOf).map (chunkRes (op.fn modelROps .f) .nan) := by
        rw [List.map_map]; rfl
      rw [hmm, accOf_chunk_results _ hok]
      have hflat : ((arraySplit arr threads).map numsOf).flatten = numsOf arr := by
        rw [← numsOf_flatten, arraySplit_flatten arr threads ht]
      rw [hflat]
      by_cases hnil : numsOf arr = []
      · simp only [hnil, if_true, chunkRes]
        -- the first chunk result is the null marker
        cases hs : arraySplit arr threads with
        | nil => exact absurd hs (arraySplit_ne_nil arr threads ht)
        | cons c0 crest =>
          rw [hs] at hp
          simp only [List.map_cons, List.cons.injEq] at hp
          have : numsOf c0 = [] := by
            have hsub : ∀ x ∈ numsOf c0, x ∈ numsOf arr := by
              intro x hx
              rw [← hflat, hs]
              simp only [List.map_cons, List.flatten_cons]
              exact List.mem_append_left _ hx
            cases hc0 : numsOf c0 with
            | nil => rfl
            | cons y ys =>
              have := hsub y (by rw [hc0]; exact List.mem_cons_self ..)
              rw [hnil] at this; cases this
          rw [← hp.1, this]; rfl
      · simp only [hnil, if_false]

theorem rops_max_eq_vmaxC (a b : Int) : ROps.max .f (.num a) (.num b) = vmaxC (.num a) (.num b) := by
  simp only [ROps.max, vmaxC, Val.ge, Val.gt]
  by_cases h : a ≥ b
  · have : ¬ b > a := by omega
    simp [h, this]
  · have : b > a := by omega
    simp [h, this]

theorem rops_min_eq_vminC (a b : Int) : ROps.min .f (.num a) (.num b) = vminC (.num a) (.num b) := by
  simp only [ROps.min, vminC, Val.le, Val.lt]
  by_cases h : a ≤ b
  · have : ¬ b < a := by omega
    simp [h, this]
  · have : b < a := by omega
    simp [h, this]

theorem foldl_congr_nums (f g : Val → Val → Val) (hf : CombOK f) (hfg : ∀ a b : Int, f (.num a) (.num b) = g (.num a) (.num b))
    (x : Int) (xs : List Int) : (xs.map Val.num).foldl f (.num x) = (xs.map Val.num).foldl g (.num x) := by
  induction xs generalizing x with
  | nil => rfl
  | cons y ys ih =>
    simp only [List.map_cons, List.foldl_cons]
    obtain ⟨c, hc, _⟩ := hf.num_closed x y
    rw [← hfg, hc, ih c]

/-- ... and that is NumPy's `nanmax` / `nanmin` of the array (`specNan`) -/
theorem chunkRes_eq_specNan (op : NanOp) (hop : op = .max ∨ op = .min) (arr : List Val) (harr : arr ≠ []) :
    chunkRes (op.fn modelROps .f) .nan (numsOf arr) = specNan op .f arr := by
  cases arr with
  | nil => exact absurd rfl harr
  | cons a0 rest =>
    rcases hop with rfl | rfl
    · simp only [specNan, nonNull_f, NanOp.fn, modelROps, List.headD_cons]
      cases hn : numsOf (a0 :: rest) with
      | nil =>
        simp only [chunkRes, List.map_nil, accOf]
        cases a0 with
        | nan => rfl
        | num n => simp [numsOf] at hn
      | cons y ys =>
        simp only [chunkRes, List.map_cons, accOf, id]
        exact foldl_congr_nums _ _ (rops_max_ok .f) rops_max_eq_vmaxC y ys
    · simp only [specNan, nonNull_f, NanOp.fn, modelROps, List.headD_cons]
      cases hn : numsOf (a0 :: rest) with
      | nil =>
        simp only [chunkRes, List.map_nil, accOf]
        cases a0 with
        | nan => rfl
        | num n => simp [numsOf] at hn
      | cons y ys =>
        simp only [chunkRes, List.map_cons, accOf, id]
        exact foldl_congr_nums _ _ (rops_min_ok .f) rops_min_eq_vminC y ys

/-- `reduce_1d("max" / "min")` = NumPy's `nanmax` / `nanmin`, for any thread count without an empty chunk -/
theorem reduce1d_extremum_eq_numpy (op : NanOp) (hop : op = .max ∨ op = .min) (arr : List Val) (threads : Nat) (ht : 0 < threads)
    (harr : arr ≠ []) (hne : ∀ c ∈ arraySplit arr threads, c ≠ []) :
    reduce1d modelROps op .f arr true threads = some (specNan op .f arr) := by
  rw [reduce1d_extremum_threads op hop arr threads ht harr hne, chunkRes_eq_specNan op hop arr harr]


/-! ### `_nb_reduce` of the current source, end to end

`Generated.Loops.nb_reduce` (with `_get_first_non_null` and the dtype dispatch of its numba overload) is regenerated
from `groupby_lib/nanops.py` / `util.py` on every run; `LoopBridge/NbReduce.lean` proves it equal to `nbReduce`. -/

/-- **the translated `_nb_reduce` with null skipping is the fold of the non-null values seeded by the first of them**
(the first cell - a null - when every cell is null), for float and integer arrays -/
theorem source_nb_reduce_skipna (k : Kind) (hk : k ≠ .b) (f : Val → Val → Val) (a0 : Val) (rest : List Val) (d : Val) :
    let r := Generated.Loops.nb_reduce k f (a0 :: rest).length (arrOf (a0 :: rest) d) true false d
    r.2 = false ∧ r.1 = accOf f id a0 (nonNull k (a0 :: rest)) := by
  intro r
  have h := LoopBridge.nb_reduce_eq k hk f (a0 :: rest) d true none (fun _ => by simp)
  simp only [Option.isSome_none, Option.getD_none] at h
  refine ⟨h.1, ?_⟩
  have h2 := h.2
  rw [nbReduce_skipna] at h2
  exact Option.some.inj h2

/-- with an initial value (sum / count / sum of squares): the fold of the non-null values from the initial value -/
theorem source_nb_reduce_initial (k : Kind) (hk : k ≠ .b) (f : Val → Val → Val) (l : List Val) (d init : Val) :
    let r := Generated.Loops.nb_reduce k f l.length (arrOf l d) true true init
    r.2 = false ∧ r.1 = (nonNull k l).foldl f init := by
  intro r
  have h := LoopBridge.nb_reduce_eq k hk f l d true (some init) (fun h => by cases h)
  simp only [Option.isSome_some, Option.getD_some, nbReduce] at h
  exact ⟨h.1, by simpa using h.2⟩

/-- non-vacuity: nanmax over [NaN, 3, NaN, 7, 5] with the translated reducer -/
example :
    (Generated.Loops.nb_reduce .f (Generated.ReductionOps.max .f) 5 (arrOf [.nan, .num 3, .nan, .num 7, .num 5] .nan)
      true false .nan) = (.num 7, false) := by decide

/-! ### `_nb_dot` (translated from `util.py` on every run) -/

/-- **the matrix-vector helper is the ordinary product**: for a matrix given by its columns (equally long, integer-valued
cells), a vector with one entry per column and a zero-initialised accumulator, the translated `_nb_dot` leaves in every
row `r` the sum over the columns of `a[c][r] * b[c]`; no error is flagged -/
theorem source_nb_dot_eq_product (k : Kind) (cols : List (List Int)) (b : List Int) (nrows : Nat)
    (hcols : ∀ c ∈ cols, c.length = nrows) (hb : b.length = cols.length) (hne : cols ≠ []) :
    let r := Generated.Loops.nb_dot k (cols.map (·.map Val.num)) b.length (arrOf (b.map Val.num) .nan) nrows
      (fun _ => .num 0)
    r.2 = false ∧ ∀ i : Nat, i < nrows →
      r.1 (i : Int) = .num (((List.range cols.length).map fun c => (cols.getD c []).getD i 0 * b.getD c 0).sum) := by
  intro r
  obtain ⟨c0, cs, rfl⟩ := List.exists_cons_of_ne_nil hne
  have h0 : ((List.map (fun x => List.map Val.num x) (c0 :: cs)).getD 0 []).length = nrows := by
    simp [hcols c0 (List.mem_cons_self ..)]
  have h := LoopBridge.nb_dot_eq k ((c0 :: cs).map (·.map Val.num)) (b.map Val.num) nrows (fun _ => .num 0) (by omega)
  simp only [List.length_map] at h
  refine ⟨h.1, fun i hi => ?_⟩
  rw [h.2.1 i (by omega), hb]
  have := LoopBridge.dotRow_num ((c0 :: cs).map (·.map Val.num)) (b.map Val.num) i 0 (c0 :: cs).length
    (fun c => ((c0 :: cs).getD c []).getD i 0) (fun c => b.getD c 0)
    (by
      intro c hc
      have hmem : (c0 :: cs).getD c [] ∈ (c0 :: cs) := by
        rw [List.getD_eq_getElem?_getD, List.getElem?_eq_getElem hc]; exact List.getElem_mem hc
      have hl := hcols _ hmem
      simp only [LoopBridge.matAt, List.getD_eq_getElem?_getD, List.getElem?_map, List.getElem?_eq_getElem hc,
        Option.map_some, Option.getD_some]
      rw [List.getElem?_eq_getElem (by
        rw [List.getD_eq_getElem?_getD, List.getElem?_eq_getElem hc] at hl; simp at hl; omega)]
      simp)
    (by
      intro c hc
      simp only [List.getD_eq_getElem?_getD, List.getElem?_map, List.getElem?_eq_getElem (show c < b.length by omega),
        Option.map_some, Option.getD_some])
  rw [this]
  simp

/-- non-vacuity: a 3 x 2 matrix (two columns) times a vector -/
example :
    let r := Generated.Loops.nb_dot .f [[.num 1, .num 2, .num 3], [.num 4, .num 5, .num 6]] 2 (arrOf [.num 10, .num 1] .nan) 3
      (fun _ => .num 0)
    ((List.range 3).map fun (i : Nat) => r.1 (i : Int)) = [.num 14, .num 25, .num 36] := by decide

end GV.C20
