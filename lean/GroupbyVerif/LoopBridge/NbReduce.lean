import GroupbyVerif.LoopBridge.RollingMax
import GroupbyVerif.Model.Nanops

/-!
# Bridge: the translated `nanops._nb_reduce` (with `_get_first_non_null` and its numba overload) is `nbReduce`

`_get_first_non_null` returns from inside its loop: the translation carries a `done` flag and the returned pair.
The numba overload dispatches on the array dtype (float: the Python function, integer: a nested function returning
the int64 minimum as "no value", boolean: not translated - flagged).
-/

namespace GV.LoopBridge
open GV GV.Generated.Loops

theorem firstNonNull_eq (k : Kind) (l : List Val) (o : Nat) :
    firstNonNull k l o = if h : leadNulls k l < l.length then some (o + leadNulls k l, l[leadNulls k l]) else none := by
  induction l generalizing o with
  | nil => simp [firstNonNull, leadNulls]
  | cons v vs ih =>
    simp only [firstNonNull, leadNulls]
    by_cases hv : isNull k v = true
    · simp only [hv, if_true, ih, List.length_cons]
      by_cases hl : leadNulls k vs < vs.length
      · have : leadNulls k vs + 1 < vs.length + 1 := by omega
        simp [hl, this]; omega
      · have : ¬ leadNulls k vs + 1 < vs.length + 1 := by omega
        simp [hl, this]
    · simp [hv]

/-- the search loop: after `t` iterations it has stopped at the first non-null cell iff that cell is among the first `t` -/
theorem fnn_float_loop (k : Kind) (l : List Val) (d : Val) :
    ∀ t : Nat, t ≤ l.length →
      ((List.range t).map (fun i : Nat => (i : Int))).foldl (first_non_null_float_loop1_step k l.length (arrOf l d)) ⟨false, none⟩
        = (if leadNulls k l < t then ⟨true, some (((leadNulls k l : Nat) : Int), l.getD (leadNulls k l) d)⟩ else ⟨false, none⟩) := by
  intro t
  induction t with
  | zero => intro _; simp
  | succ t ih =>
    intro ht
    simp only [List.range_succ, List.map_append, List.foldl_append, List.map_cons, List.map_nil, List.foldl_cons,
      List.foldl_nil]
    rw [ih (by omega)]
    by_cases hlt : leadNulls k l < t
    · have : leadNulls k l < t + 1 := by omega
      simp [hlt, this, first_non_null_float_loop1_step]
    · simp only [hlt, if_false, first_non_null_float_loop1_step, Bool.false_eq_true, normI_natCast, arrOf_natCast]
      by_cases he : leadNulls k l = t
      · have hstop := leadNulls_stop k l (by omega) d
        rw [he] at hstop
        simp only [List.getD_eq_getElem?_getD] at hstop
        simp [he, hstop]
      · have hnull := leadNulls_null k l t (by omega) d
        have : ¬ leadNulls k l < t + 1 := by omega
        simp only [List.getD_eq_getElem?_getD] at hnull
        simp [hnull, this]

theorem fnn_int_loop (k : Kind) (l : List Val) (d : Val) :
    ∀ t : Nat, t ≤ l.length →
      ((List.range t).map (fun i : Nat => (i : Int))).foldl (first_non_null_int_loop1_step k l.length (arrOf l d)) ⟨false, none⟩
        = (if leadNulls k l < t then ⟨true, some (((leadNulls k l : Nat) : Int), l.getD (leadNulls k l) d)⟩ else ⟨false, none⟩) := by
  intro t
  induction t with
  | zero => intro _; simp
  | succ t ih =>
    intro ht
    simp only [List.range_succ, List.map_append, List.foldl_append, List.map_cons, List.map_nil, List.foldl_cons,
      List.foldl_nil]
    rw [ih (by omega)]
    by_cases hlt : leadNulls k l < t
    · have : leadNulls k l < t + 1 := by omega
      simp [hlt, this, first_non_null_int_loop1_step]
    · simp only [hlt, if_false, first_non_null_int_loop1_step, Bool.false_eq_true, normI_natCast, arrOf_natCast]
      by_cases he : leadNulls k l = t
      · have hstop := leadNulls_stop k l (by omega) d
        rw [he] at hstop
        simp only [List.getD_eq_getElem?_getD] at hstop
        simp [he, hstop]
      · have hnull := leadNulls_null k l t (by omega) d
        have : ¬ leadNulls k l < t + 1 := by omega
        simp only [List.getD_eq_getElem?_getD] at hnull
        simp [hnull, this]

/-- **`_get_first_non_null` (as numba resolves it for non-boolean arrays) is `firstNonNull`**: position and value of the
first non-null cell; position `-1` when every cell is null -/
theorem get_first_non_null_eq (k : Kind) (hk : k ≠ .b) (l : List Val) (d : Val) :
    let r := get_first_non_null k l.length (arrOf l d)
    r.2 = false ∧
      (match firstNonNull k l 0 with
       | some (loc, v) => r.1 = ((loc : Int), v)
       | none => r.1.1 = -1) := by
  intro r
  have hf := fnn_float_loop k l d l.length (Nat.le_refl _)
  have hi := fnn_int_loop k l d l.length (Nat.le_refl _)
  have hle := leadNulls_le k l
  rw [firstNonNull_eq]
  cases k with
  | b => exact absurd rfl hk
  | f =>
    simp only [r, get_first_non_null, first_non_null_float, rangeI_natCast, hf]
    by_cases hlt : leadNulls .f l < l.length
    · simp [hlt, List.getD_eq_getElem?_getD]
    · simp [hlt]
  | i w =>
    simp only [r, get_first_non_null, first_non_null_int, rangeI_natCast, hi]
    by_cases hlt : leadNulls (.i w) l < l.length
    · simp [hlt, List.getD_eq_getElem?_getD]
    · simp [hlt]
  | u w =>
    simp only [r, get_first_non_null, first_non_null_int, rangeI_natCast, hi]
    by_cases hlt : leadNulls (.u w) l < l.length
    · simp [hlt, List.getD_eq_getElem?_getD]
    · simp [hlt]

theorem foldl_skipnull (k : Kind) (f : Val → Val → Val) (l : List Val) (x : Val) :
    l.foldl (fun acc v => if isNull k v then acc else f acc v) x = (nonNull k l).foldl f x := by
  induction l generalizing x with
  | nil => simp [nonNull]
  | cons v vs ih =>
    simp only [List.foldl_cons, nonNull, List.filter_cons]
    cases hv : isNull k v
    · simp only [Bool.false_eq_true, if_false, Bool.not_false, if_true, List.foldl_cons]
      exact ih (f x v)
    · simp only [if_true, Bool.not_true, Bool.false_eq_true, if_false]
      exact ih x

/-- a reduction loop over the index range `[a, n)`, seen through the projection of its one-field state -/
theorem nb_loop_gen {σ : Type} (proj : σ → Val) (l : List Val) (d : Val) (a : Nat) (ha : a ≤ l.length) (s0 : σ)
    (step : σ → Int → σ) (g : Val → Val → Val)
    (hstep : ∀ s (q : Nat), q < l.length → proj (step s (q : Int)) = g (proj s) (l.getD q d)) :
    proj ((rangeI2 (a : Int) (l.length : Int)).foldl step s0) = (l.drop a).foldl g (proj s0) :=
  fold_rangeI2_drop_rel (fun (s : σ) (b : Val) => proj s = b) l d a ha _ _
    (fun s t q hq hst => by rw [hstep s q hq, hst]) s0 (proj s0) rfl

/-- **`_nb_reduce` is `nbReduce`**: with an initial value, or on a non-empty non-boolean array without one (first
non-null cell as the seed when nulls are skipped, `arr[0]` otherwise, `arr[0]` returned when everything is null) -/
theorem nb_reduce_eq (k : Kind) (hk : k ≠ .b) (f : Val → Val → Val) (l : List Val) (d : Val) (skipna : Bool)
    (initial : Option Val) (hne : initial = none → l ≠ []) :
    let r := nb_reduce k f l.length (arrOf l d) skipna initial.isSome (initial.getD d)
    r.2 = false ∧ some r.1 = nbReduce k f l skipna initial := by
  intro r
  have h1 : ∀ (a : Nat) (ha : a ≤ l.length) (x : Val),
      ((rangeI2 (a : Int) (l.length : Int)).foldl (nb_reduce_loop1_step k f l.length (arrOf l d)) ⟨x⟩).out'
        = (nonNull k (l.drop a)).foldl f x := by
    intro a ha x
    rw [← foldl_skipnull]
    exact nb_loop_gen Nb_reduce_loop1St.out' l d a ha (⟨x⟩ : Nb_reduce_loop1St) _ _ (fun s q _ => by
      simp only [nb_reduce_loop1_step, normI_natCast, arrOf_natCast]
      cases isNull k (l.getD q d) <;> simp)
  have h3 : ∀ (a : Nat) (ha : a ≤ l.length) (x : Val),
      ((rangeI2 (a : Int) (l.length : Int)).foldl (nb_reduce_loop3_step k f l.length (arrOf l d)) ⟨x⟩).out'
        = (nonNull k (l.drop a)).foldl f x := by
    intro a ha x
    rw [← foldl_skipnull]
    exact nb_loop_gen Nb_reduce_loop3St.out' l d a ha (⟨x⟩ : Nb_reduce_loop3St) _ _ (fun s q _ => by
      simp only [nb_reduce_loop3_step, normI_natCast, arrOf_natCast]
      cases isNull k (l.getD q d) <;> simp)
  have h5 : ∀ (a : Nat) (ha : a ≤ l.length) (x : Val),
      ((rangeI2 (a : Int) (l.length : Int)).foldl (nb_reduce_loop5_step k f l.length (arrOf l d)) ⟨x⟩).out'
        = (nonNull k (l.drop a)).foldl f x := by
    intro a ha x
    rw [← foldl_skipnull]
    exact nb_loop_gen Nb_reduce_loop5St.out' l d a ha (⟨x⟩ : Nb_reduce_loop5St) _ _ (fun s q _ => by
      simp only [nb_reduce_loop5_step, normI_natCast, arrOf_natCast]
      cases isNull k (l.getD q d) <;> simp)
  have h4 : ∀ (a : Nat) (ha : a ≤ l.length) (x : Val),
      ((rangeI2 (a : Int) (l.length : Int)).foldl (nb_reduce_loop4_step k f l.length (arrOf l d)) ⟨x⟩).out'
        = (l.drop a).foldl f x := by
    intro a ha x
    exact nb_loop_gen Nb_reduce_loop4St.out' l d a ha (⟨x⟩ : Nb_reduce_loop4St) _ _ (fun s q _ => by
      simp only [nb_reduce_loop4_step, normI_natCast, arrOf_natCast])
  have h6 : ∀ (a : Nat) (ha : a ≤ l.length) (x : Val),
      ((rangeI2 (a : Int) (l.length : Int)).foldl (nb_reduce_loop6_step k f l.length (arrOf l d)) ⟨x⟩).out'
        = (l.drop a).foldl f x := by
    intro a ha x
    exact nb_loop_gen Nb_reduce_loop6St.out' l d a ha (⟨x⟩ : Nb_reduce_loop6St) _ _ (fun s q _ => by
      simp only [nb_reduce_loop6_step, normI_natCast, arrOf_natCast])
  cases initial with
  | some init =>
    simp only [r, nb_reduce, nbReduce, Option.isSome_some, Bool.not_true, Bool.false_eq_true, if_false, Option.getD_some]
    cases skipna
    · have := h6 0 (Nat.zero_le _) init
      simp only [Int.natCast_zero, List.drop_zero] at this
      simp [this]
    · have := h5 0 (Nat.zero_le _) init
      simp only [Int.natCast_zero, List.drop_zero] at this
      simp [this]
  | none =>
    have hl := hne rfl
    obtain ⟨a0, rest, rfl⟩ := List.exists_cons_of_ne_nil hl
    have hfn := get_first_non_null_eq k hk (a0 :: rest) d
    simp only [r, nb_reduce, nbReduce, Option.isSome_none, Bool.not_false, if_true]
    cases skipna
    · -- no null skipping: seed with arr[0]
      simp only [Bool.false_eq_true, if_false, normI_nonneg _ _ (Int.le_refl 0)]
      have e0 : arrOf (a0 :: rest) d 0 = a0 := by simp [arrOf]
      rw [e0]
      cases hn : isNull k a0
      · have := h4 1 (by simp) a0
        simp only [Int.natCast_one, List.drop_succ_cons, List.drop_zero] at this
        have hlen : (((a0 :: rest).length : Nat) : Int) = (rest.length : Int) + 1 := by simp
        rw [hlen] at this
        simp [this]
      · simp
    · simp only [if_true]
      obtain ⟨hf2, hf1⟩ := hfn
      generalize get_first_non_null k ((a0 :: rest).length : Int) (arrOf (a0 :: rest) d) = g at *
      cases hfnn : firstNonNull k (a0 :: rest) 0 with
      | none =>
        simp only [hfnn] at hf1
        have e0 : arrOf (a0 :: rest) d (normI ((a0 :: rest).length : Int) 0) = a0 := by
          rw [normI_nonneg _ _ (Int.le_refl 0)]; simp [arrOf]
        have hlen : (((a0 :: rest).length : Nat) : Int) = (rest.length : Int) + 1 := by simp
        rw [hlen] at e0
        simp [hf1, hf2, e0]
      | some p =>
        obtain ⟨loc, v⟩ := p
        simp only [hfnn] at hf1
        have hloc : loc < (a0 :: rest).length := by
          rw [firstNonNull_eq] at hfnn
          split at hfnn
          · simp only [Option.some.injEq, Prod.mk.injEq] at hfnn; omega
          · cases hfnn
        have hne1 : ¬ ((loc : Int) = -1) := by omega
        have := h1 (loc + 1) (by omega) v
        have ecast : ((loc : Int) + 1) = ((loc + 1 : Nat) : Int) := by omega
        simp only [hf1, hf2, hne1, decide_false, Bool.false_eq_true, if_false, ecast, this]
        simp

end GV.LoopBridge
