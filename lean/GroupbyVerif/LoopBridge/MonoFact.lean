import GroupbyVerif.LoopBridge.Basic
import GroupbyVerif.Generated.Loops
import GroupbyVerif.Model.Factorize

/-!
# Bridge: the translated `_monotonic_factorization` is `monotonicFactorization` on the concatenated chunks

The source walks a list of chunks with a cursor `(arr_num, arr, cur_arr_pos)` and two `while` loops that skip empty
chunks (translated with the declared bound `len(arr_list)`; the bound is proved sufficient).  The run detection itself
(`x < prev or x != x` ends the prefix, `x > prev` opens a new label) is the model's `go`.
-/

namespace GV.LoopBridge
open GV GV.Generated.Loops

/-- number of cells in the first `a` chunks -/
def preLen : List (List Val) → Nat → Nat
  | [], _ => 0
  | _ :: _, 0 => 0
  | c :: cs, a + 1 => c.length + preLen cs a

theorem preLen_succ (chunks : List (List Val)) (a : Nat) (ha : a < chunks.length) :
    preLen chunks (a + 1) = preLen chunks a + (chunks.getD a []).length := by
  induction chunks generalizing a with
  | nil => simp at ha
  | cons c cs ih =>
    cases a with
    | zero => cases cs <;> simp [preLen]
    | succ a =>
      have := ih a (by simpa using ha)
      simp only [preLen, List.getD_cons_succ] at this ⊢
      omega

theorem preLen_le_total (chunks : List (List Val)) (a : Nat) : preLen chunks a ≤ chunks.flatten.length := by
  induction chunks generalizing a with
  | nil => simp [preLen]
  | cons c cs ih =>
    cases a with
    | zero => simp [preLen]
    | succ a => have := ih a; simp only [preLen, List.flatten_cons, List.length_append]; omega

theorem preLen_of_ge (chunks : List (List Val)) (a : Nat) (ha : chunks.length ≤ a) :
    preLen chunks a = chunks.flatten.length := by
  induction chunks generalizing a with
  | nil => simp [preLen]
  | cons c cs ih =>
    cases a with
    | zero => simp at ha
    | succ a => have := ih a (by simpa using ha); simp only [preLen, List.flatten_cons, List.length_append]; omega

theorem preLen_zero (chunks : List (List Val)) : preLen chunks 0 = 0 := by
  cases chunks <;> rfl

/-- the cell a valid cursor points at is the cell of the concatenation -/
theorem cursor_val (chunks : List (List Val)) (a p : Nat) (ha : a < chunks.length) (hp : p < (chunks.getD a []).length) :
    (chunks.getD a []).getD p Val.nan = chunks.flatten.getD (preLen chunks a + p) Val.nan := by
  induction chunks generalizing a with
  | nil => simp at ha
  | cons c cs ih =>
    cases a with
    | zero =>
      have hp' : p < c.length := by simpa using hp
      simp only [List.getD_cons_zero, preLen, Nat.zero_add, List.flatten_cons]
      rw [List.getD_eq_getElem?_getD, List.getD_eq_getElem?_getD, List.getElem?_append_left hp']
    | succ a =>
      have ha' : a < cs.length := by simpa using ha
      have hp' : p < (cs.getD a []).length := by simpa using hp
      have := ih a ha' hp'
      simp only [List.getD_cons_succ, preLen, List.flatten_cons]
      rw [this, List.getD_eq_getElem?_getD, List.getD_eq_getElem?_getD, List.getElem?_append_right (by omega)]
      congr 2
      omega

theorem getD_norm (chunks : List (List Val)) (a : Nat) :
    chunks.getD (normI (chunks.length : Int) ((a : Int) + 1)).toNat [] = chunks.getD (a + 1) [] := by
  rw [normI_nonneg _ _ (by omega)]
  have : ((a : Int) + 1).toNat = a + 1 := by omega
  rw [this]

/-- a cursor that is not at the end of its chunk is a fixed point of the advancing loop -/
theorem adv3_fix (k : Kind) (chunks : List (List Val)) (fl : List Int) (a p : Nat) (e : Bool)
    (hp : p < (chunks.getD a []).length) :
    fl.foldl (monotonic_factorization_loop3_step k chunks) ⟨a, chunks.getD a [], p, e⟩ = ⟨a, chunks.getD a [], p, e⟩ := by
  induction fl with
  | nil => rfl
  | cons x xs ih =>
    simp only [List.foldl_cons]
    have hne : ¬ ((p : Int) = ((chunks.getD a []).length : Int)) := by omega
    have : monotonic_factorization_loop3_step k chunks ⟨a, chunks.getD a [], p, e⟩ x = ⟨a, chunks.getD a [], p, e⟩ := by
      have hd : decide ((p : Int) = ((chunks.getD a []).length : Int)) = false := decide_eq_false hne
      simp only [monotonic_factorization_loop3_step, hd, Bool.false_eq_true, if_false]
    rw [this]; exact ih

/-- the advancing `while` loop (bound `len(arr_list)`) reaches the chunk that holds cell `i` of the concatenation -/
theorem adv3 (k : Kind) (chunks : List (List Val)) (i : Nat) (hi : i < chunks.flatten.length) :
    ∀ (fl : List Int) (a p : Nat) (e : Bool), a < chunks.length → preLen chunks a + p = i →
      p ≤ (chunks.getD a []).length → chunks.length ≤ a + 1 + fl.length →
      ∃ a' p', a' < chunks.length ∧ preLen chunks a' + p' = i ∧ p' < (chunks.getD a' []).length ∧
        fl.foldl (monotonic_factorization_loop3_step k chunks) ⟨a, chunks.getD a [], p, e⟩
          = ⟨a', chunks.getD a' [], p', e⟩ := by
  intro fl
  induction fl with
  | nil =>
    intro a p e ha hpre hple hfuel
    simp only [List.length_nil, Nat.add_zero] at hfuel
    have hlt : p < (chunks.getD a []).length := by
      rcases Nat.lt_or_ge p (chunks.getD a []).length with h | h
      · exact h
      · exfalso
        have hs := preLen_succ chunks a ha
        have ht := preLen_of_ge chunks (a + 1) (by omega)
        omega
    exact ⟨a, p, ha, hpre, hlt, rfl⟩
  | cons x xs ih =>
    intro a p e ha hpre hple hfuel
    rcases Nat.lt_or_ge p (chunks.getD a []).length with hlt | hge
    · exact ⟨a, p, ha, hpre, hlt, adv3_fix k chunks _ a p e hlt⟩
    · have hpe : p = (chunks.getD a []).length := by omega
      have hs := preLen_succ chunks a ha
      have ha1 : a + 1 < chunks.length := by
        rcases Nat.lt_or_ge (a + 1) chunks.length with h | h
        · exact h
        · exfalso
          have ht := preLen_of_ge chunks (a + 1) h
          omega
      have hstep : monotonic_factorization_loop3_step k chunks ⟨a, chunks.getD a [], p, e⟩ x
          = ⟨((a + 1 : Nat) : Int), chunks.getD (a + 1) [], ((0 : Nat) : Int), e⟩ := by
        have hpi : (p : Int) = ((chunks.getD a []).length : Int) := by omega
        simp only [monotonic_factorization_loop3_step, hpi, decide_true, if_true, getD_norm]
        simp
      simp only [List.foldl_cons, hstep]
      simp only [List.length_cons] at hfuel
      exact ih (a + 1) 0 e ha1 (by omega) (Nat.zero_le _) (by omega)

theorem adv1_fix (k : Kind) (chunks : List (List Val)) (fl : List Int) (a : Nat)
    (hp : 0 < (chunks.getD a []).length) :
    fl.foldl (monotonic_factorization_loop1_step k chunks) ⟨a, chunks.getD a []⟩ = ⟨a, chunks.getD a []⟩ := by
  induction fl with
  | nil => rfl
  | cons x xs ih =>
    simp only [List.foldl_cons]
    have hne : ¬ (((chunks.getD a []).length : Int) = 0) := by omega
    have : monotonic_factorization_loop1_step k chunks ⟨a, chunks.getD a []⟩ x = ⟨a, chunks.getD a []⟩ := by
      have hd : decide ((((chunks.getD a []).length : Nat) : Int) = 0) = false := decide_eq_false hne
      simp only [monotonic_factorization_loop1_step, hd, Bool.false_eq_true, if_false]
    rw [this]; exact ih

/-- the initial `while` loop skips the empty leading chunks -/
theorem adv1 (k : Kind) (chunks : List (List Val)) (hi : 0 < chunks.flatten.length) :
    ∀ (fl : List Int) (a : Nat), a < chunks.length → preLen chunks a = 0 → chunks.length ≤ a + 1 + fl.length →
      ∃ a', a' < chunks.length ∧ preLen chunks a' = 0 ∧ 0 < (chunks.getD a' []).length ∧
        fl.foldl (monotonic_factorization_loop1_step k chunks) ⟨a, chunks.getD a []⟩ = ⟨a', chunks.getD a' []⟩ := by
  intro fl
  induction fl with
  | nil =>
    intro a ha hpre hfuel
    simp only [List.length_nil, Nat.add_zero] at hfuel
    have hlt : 0 < (chunks.getD a []).length := by
      rcases Nat.lt_or_ge 0 (chunks.getD a []).length with h | h
      · exact h
      · exfalso
        have hs := preLen_succ chunks a ha
        have ht := preLen_of_ge chunks (a + 1) (by omega)
        omega
    exact ⟨a, ha, hpre, hlt, rfl⟩
  | cons x xs ih =>
    intro a ha hpre hfuel
    rcases Nat.lt_or_ge 0 (chunks.getD a []).length with hlt | hge
    · exact ⟨a, ha, hpre, hlt, adv1_fix k chunks _ a hlt⟩
    · have hpe : (chunks.getD a []).length = 0 := by omega
      have hs := preLen_succ chunks a ha
      have ha1 : a + 1 < chunks.length := by
        rcases Nat.lt_or_ge (a + 1) chunks.length with h | h
        · exact h
        · exfalso
          have ht := preLen_of_ge chunks (a + 1) h
          omega
      have hstep : monotonic_factorization_loop1_step k chunks ⟨a, chunks.getD a []⟩ x
          = ⟨((a + 1 : Nat) : Int), chunks.getD (a + 1) []⟩ := by
        have hpi : (((chunks.getD a []).length : Nat) : Int) = 0 := by omega
        simp only [monotonic_factorization_loop1_step, hpi, decide_true, if_true, getD_norm]
        simp
      simp only [List.foldl_cons, hstep]
      simp only [List.length_cons] at hfuel
      exact ih (a + 1) ha1 (by omega) (by omega)

/-- the comparisons of the source on cells: `x < prev`, `x > prev`, and `x != x` as the null test -/
abbrev mgo := @monotonicFactorization.go Val Val.lt Val.gt (fun x => Val.neF x x)

theorem mgo_cons (p y : Val) (i : Nat) (c : List Nat) (l ys : List Val) :
    mgo p i c l (y :: ys) =
      if Val.lt y p || Val.neF y y then (i, c.reverse, l.reverse)
      else if Val.gt y p then mgo y (i + 1) (l.length :: c) (y :: l) ys
      else mgo y (i + 1) ((l.length - 1) :: c) l ys := rfl

theorem mgo_nil (p : Val) (i : Nat) (c : List Nat) (l : List Val) : mgo p i c l [] = (i, c.reverse, l.reverse) := rfl

/-- generated main-loop state vs the model's accumulators, before row `i` -/
structure MInvS (chunks : List (List Val)) (i : Nat) (st : Monotonic_factorization_loop2St) (prev : Val)
    (codesRev : List Nat) (labelsRev : List Val) : Prop where
  cursor : ∃ a p : Nat, a < chunks.length ∧ preLen chunks a + p + 1 = i ∧ p < (chunks.getD a []).length ∧
    st.arr_num = (a : Int) ∧ st.arr = chunks.getD a [] ∧ st.cur_arr_pos = (p : Int)
  nlab : st.n_labels = (labelsRev.length : Int)
  lpos : 0 < labelsRev.length ∧ labelsRev.length ≤ i
  labs : ∀ j, j < labelsRev.length → st.labels (j : Int) = labelsRev.reverse.getD j .nan
  clen : codesRev.length = i
  cods : ∀ j, j < i → st.codes (j : Int) = ((codesRev.reverse.getD j 0 : Nat) : Int)
  hprev : st.prev = prev
  herr : st.err = false
  hdone : st.done = false
  hret : st.ret = none

/-- the value of the function given the final state of the main loop -/
def mresult (total : Nat) (fin : Monotonic_factorization_loop2St) : Int × (Int → Int) × ((Int → Val) × Int) :=
  match fin.ret with
  | some r => r
  | none => ((total : Int), fin.codes, (fin.labels, fin.n_labels))

/-- agreement of a returned triple with the model's triple -/
def MAgree (r : Int × (Int → Int) × ((Int → Val) × Int)) (m : Nat × List Nat × List Val) : Prop :=
  r.1 = (m.1 : Int) ∧ (∀ j, j < m.2.1.length → r.2.1 (j : Int) = ((m.2.1.getD j 0 : Nat) : Int)) ∧
    r.2.2.2 = (m.2.2.length : Int) ∧ (∀ j, j < m.2.2.length → r.2.2.1 (j : Int) = m.2.2.getD j .nan)

theorem done_fix (k : Kind) (chunks : List (List Val)) (ll cl : Int) (fl : List Int) (st : Monotonic_factorization_loop2St)
    (hd : st.done = true) : fl.foldl (monotonic_factorization_loop2_step k chunks ll cl) st = st := by
  induction fl with
  | nil => rfl
  | cons x xs ih =>
    simp only [List.foldl_cons]
    have : monotonic_factorization_loop2_step k chunks ll cl st x = st := by
      simp [monotonic_factorization_loop2_step, hd]
    rw [this]; exact ih

theorem getD_snoc_lt {α : Type} (l : List α) (x d : α) (j : Nat) (hj : j < l.length) :
    (l ++ [x]).getD j d = l.getD j d := by
  rw [List.getD_eq_getElem?_getD, List.getD_eq_getElem?_getD, List.getElem?_append_left hj]

theorem getD_snoc_eq {α : Type} (l : List α) (x d : α) : (l ++ [x]).getD l.length d = x := by
  rw [List.getD_eq_getElem?_getD, List.getElem?_append_right (Nat.le_refl _)]
  simp

theorem main_loop (k : Kind) (chunks : List (List Val)) (htot : (chunks.flatten.length : Int) < 2 ^ 32) :
    ∀ (rest : List Val) (i : Nat) (st : Monotonic_factorization_loop2St) (prev : Val) (codesRev : List Nat)
      (labelsRev : List Val),
      i + rest.length = chunks.flatten.length →
      (∀ j (hj : j < rest.length), chunks.flatten.getD (i + j) .nan = rest[j]) →
      MInvS chunks i st prev codesRev labelsRev →
      let fin := ((List.range' i rest.length).map (fun q : Nat => (q : Int))).foldl
        (monotonic_factorization_loop2_step k chunks chunks.flatten.length chunks.flatten.length) st
      fin.err = false ∧ MAgree (mresult chunks.flatten.length fin) (mgo prev i codesRev labelsRev rest) := by
  intro rest
  induction rest with
  | nil =>
    intro i st prev codesRev labelsRev hlen _ h fin
    simp only [List.length_nil, Nat.add_zero] at hlen
    simp only [fin, List.length_nil, List.range'_zero, List.map_nil, List.foldl_nil, mgo_nil, mresult, h.hret]
    refine ⟨h.herr, by simp [hlen], ?_, ?_, ?_⟩
    · intro j hj
      simp only [List.length_reverse] at hj
      exact h.cods j (by rw [h.clen] at hj; exact hj)
    · simp [h.nlab]
    · intro j hj
      simp only [List.length_reverse] at hj
      exact h.labs j hj
  | cons y ys ih =>
    intro i st prev codesRev labelsRev hlen hflat h fin
    obtain ⟨⟨a, p, ha, hpre, hp, hsa, hsarr, hsp⟩, hnl, ⟨hl0, hli⟩, hlabs, hclen, hcods, hprev, herr, hdone, hret⟩ := h
    obtain ⟨scp, san, sarr, slab, snl, scod, sprev, serr, sdone, sret⟩ := st
    simp only at hsa hsarr hsp hnl hlabs hcods hprev herr hdone hret
    subst hsa hsarr hsp hnl hprev herr hdone hret
    have hi : i < chunks.flatten.length := by
      have := hlen; simp only [List.length_cons] at this; omega
    have hy : chunks.flatten.getD i .nan = y := by
      have := hflat 0 (by simp)
      simp only [Nat.add_zero, List.getElem_cons_zero] at this
      exact this
    -- the cursor moves to cell i
    obtain ⟨a', p', ha', hpre', hp', hadv⟩ := adv3 k chunks i hi ((rangeI (chunks.length : Int))) a (p + 1) false ha (by omega)
      (by omega) (by simp [rangeI])
    have hx : (chunks.getD a' []).getD p' Val.nan = y := by
      rw [cursor_val chunks a' p' ha' hp', hpre', hy]
    have hstep : monotonic_factorization_loop2_step k chunks chunks.flatten.length chunks.flatten.length
        ⟨(p : Int), (a : Int), chunks.getD a [], slab, (labelsRev.length : Int), scod, sprev, false, false, none⟩ (i : Int) =
        (if (Val.lt y sprev || Val.neF y y) = true then
          ⟨(p' : Int), (a' : Int), chunks.getD a' [], slab, (labelsRev.length : Int), scod, sprev, false, true,
            some ((i : Int), scod, (slab, (labelsRev.length : Int)))⟩
         else if Val.gt y sprev = true then
          ⟨(p' : Int), (a' : Int), chunks.getD a' [], aset slab (labelsRev.length : Int) y, (labelsRev.length : Int) + 1,
            aset scod (i : Int) (wrapU 32 ((labelsRev.length : Int) + 1 - 1)), y, false, false, none⟩
         else
          ⟨(p' : Int), (a' : Int), chunks.getD a' [], slab, (labelsRev.length : Int),
            aset scod (i : Int) (wrapU 32 ((labelsRev.length : Int) - 1)), y, false, false, none⟩) := by
      have e1 : ((p : Int) + 1) = ((p + 1 : Nat) : Int) := by omega
      simp only [monotonic_factorization_loop2_step, Bool.false_eq_true, if_false, e1, hadv]
      have hne : ¬ ((p' : Int) = ((chunks.getD a' []).length : Int)) := by omega
      have hd : decide ((p' : Int) = ((chunks.getD a' []).length : Int)) = false := decide_eq_false hne
      have hidx : (normI ((chunks.getD a' []).length : Int) (p' : Int)).toNat = p' := by
        rw [normI_nonneg _ _ (by omega)]; omega
      simp only [hd, Bool.not_false, Bool.not_true, Bool.or_false, normI_natCast, Int.toNat_natCast, hx]
      by_cases h1 : (Val.lt y sprev || Val.neF y y) = true
      · simp only [h1, if_true]
      · simp only [h1, Bool.false_eq_true, if_false]
        have hnn : normI (chunks.flatten.length : Int) (labelsRev.length : Int) = (labelsRev.length : Int) :=
          normI_nonneg _ _ (by omega)
        by_cases h2 : Val.gt y sprev = true
        · simp only [h2, if_true, hnn]
        · simp only [h2, Bool.false_eq_true, if_false]
    have hL32 : (labelsRev.length : Int) < 2 ^ 32 := by omega
    have hw1 : wrapU 32 ((labelsRev.length : Int) + 1 - 1) = (labelsRev.length : Int) := by
      have : (labelsRev.length : Int) + 1 - 1 = (labelsRev.length : Int) := by omega
      rw [this]; exact Int.emod_eq_of_lt (by omega) hL32
    have hw2 : wrapU 32 ((labelsRev.length : Int) - 1) = ((labelsRev.length - 1 : Nat) : Int) := by
      have : (labelsRev.length : Int) - 1 = ((labelsRev.length - 1 : Nat) : Int) := by omega
      rw [this]; exact Int.emod_eq_of_lt (by omega) (by omega)
    have hflat' : ∀ j (hj : j < ys.length), chunks.flatten.getD (i + 1 + j) .nan = ys[j] := by
      intro j hj
      have := hflat (j + 1) (by simp; omega)
      have e : i + (j + 1) = i + 1 + j := by omega
      simpa [e] using this
    have hlen' : i + 1 + ys.length = chunks.flatten.length := by
      have := hlen; simp only [List.length_cons] at this; omega
    simp only [fin, List.length_cons, List.range'_succ, List.map_cons, List.foldl_cons, hstep, mgo_cons]
    by_cases h1 : (Val.lt y sprev || Val.neF y y) = true
    · -- the prefix ends here
      simp only [h1, if_true]
      rw [done_fix k chunks _ _ _ _ rfl]
      refine ⟨rfl, ?_⟩
      simp only [mresult, MAgree, List.length_reverse]
      refine ⟨trivial, fun j hj => hcods j (by omega), trivial, fun j hj => hlabs j hj⟩
    · simp only [h1, Bool.false_eq_true, if_false]
      by_cases h2 : Val.gt y sprev = true
      · -- a new label
        simp only [h2, if_true, hw1]
        apply ih (i + 1) _ y (labelsRev.length :: codesRev) (y :: labelsRev) hlen' hflat'
        refine ⟨⟨a', p', ha', by omega, hp', rfl, rfl, rfl⟩, by simp, ⟨by simp, by simp; omega⟩, ?_, by simp [hclen], ?_,
          rfl, rfl, rfl, rfl⟩
        · intro j hj
          simp only [List.length_cons] at hj
          simp only [List.reverse_cons, aset_apply]
          by_cases e : j = labelsRev.length
          · subst e
            have := getD_snoc_eq labelsRev.reverse y Val.nan
            simp only [List.length_reverse] at this
            rw [this]; simp
          · have hjl : j < labelsRev.length := by omega
            have hne : ¬ ((j : Int) = (labelsRev.length : Int)) := by omega
            simp only [hne, if_false]
            rw [getD_snoc_lt _ _ _ _ (by simpa using hjl)]
            exact hlabs j hjl
        · intro j hj
          simp only [List.reverse_cons, aset_apply]
          by_cases e : j = i
          · subst e
            have := getD_snoc_eq codesRev.reverse labelsRev.length 0
            simp only [List.length_reverse, hclen] at this
            rw [this]; simp
          · have hjl : j < i := by omega
            have hne : ¬ ((j : Int) = (i : Int)) := by omega
            simp only [hne, if_false]
            rw [getD_snoc_lt _ _ _ _ (by simpa [hclen] using hjl)]
            exact hcods j hjl
      · -- the same label again
        simp only [h2, Bool.false_eq_true, if_false, hw2]
        apply ih (i + 1) _ y ((labelsRev.length - 1) :: codesRev) labelsRev hlen' hflat'
        refine ⟨⟨a', p', ha', by omega, hp', rfl, rfl, rfl⟩, rfl, ⟨hl0, by omega⟩, hlabs, by simp [hclen], ?_,
          rfl, rfl, rfl, rfl⟩
        intro j hj
        simp only [List.reverse_cons, aset_apply]
        by_cases e : j = i
        · subst e
          have := getD_snoc_eq codesRev.reverse (labelsRev.length - 1) 0
          simp only [List.length_reverse, hclen] at this
          rw [this]; simp
        · have hjl : j < i := by omega
          have hne : ¬ ((j : Int) = (i : Int)) := by omega
          simp only [hne, if_false]
          rw [getD_snoc_lt _ _ _ _ (by simpa [hclen] using hjl)]
          exact hcods j hjl

theorem rangeI2_one (n : Nat) (hn : 0 < n) :
    rangeI2 (1 : Int) (n : Int) = (List.range' 1 (n - 1)).map (fun q : Nat => (q : Int)) := by
  unfold rangeI2
  have : ((n : Int) - 1).toNat = n - 1 := by omega
  rw [this, List.range'_eq_map_range, List.map_map]
  apply List.map_congr_left
  intro j _
  simp

theorem getLastD_range' (n : Nat) (hn : 2 ≤ n) :
    ((List.range' 1 (n - 1)).map (fun q : Nat => (q : Int))).getLastD 0 = ((n - 1 : Nat) : Int) := by
  have : n - 1 = (n - 2) + 1 := by omega
  rw [this, List.range'_concat, List.map_append]
  simp
  omega

/-- **`_monotonic_factorization` is `monotonicFactorization` on the concatenation of the chunks**: cut-off, codes of the
prefix and labels agree, for any chunking (empty chunks anywhere), below `2^32` rows; the two `while` loops stay within
their bound.  The error flag is raised only for a one-row input: there the source reads the loop variable of a loop
that did not run (`return i + 1`) - numba returns the right cut-off 1 all the same (exercised by the correspondence) -/
theorem monotonic_factorization_eq (k : Kind) (chunks : List (List Val)) (htot : (chunks.flatten.length : Int) < 2 ^ 32) :
    let r := monotonic_factorization k chunks chunks.flatten.length
    MAgree r.1 (monotonicFactorization Val.lt Val.gt (fun x => Val.neF x x) chunks.flatten) ∧
      (chunks.flatten.length ≠ 1 → r.2 = false) := by
  intro r
  by_cases hn0 : chunks.flatten.length = 0
  · -- nothing to do
    have hflat : chunks.flatten = [] := List.length_eq_zero_iff.mp hn0
    have hc : decide (((chunks.flatten.length : Nat) : Int) = 0) = true := by simp [hn0]
    simp only [r, monotonic_factorization, hc, if_true, hflat, monotonicFactorization, MAgree]
    simp
  · have hpos : 0 < chunks.flatten.length := by omega
    have hc : decide (((chunks.flatten.length : Nat) : Int) = 0) = false := by
      apply decide_eq_false; omega
    have hcl : 0 < chunks.length := by
      rcases Nat.lt_or_ge 0 chunks.length with h | h
      · exact h
      · have : chunks = [] := List.length_eq_zero_iff.mp (by omega)
        rw [this] at hpos; simp at hpos
    obtain ⟨a0, ha0, hpre0, hlen0, hadv1⟩ := adv1 k chunks hpos (rangeI (chunks.length : Int)) 0 hcl (preLen_zero chunks)
      (by simp [rangeI])
    obtain ⟨x, xs, hxs⟩ : ∃ x xs, chunks.flatten = x :: xs := by
      cases hf : chunks.flatten with
      | nil => rw [hf] at hpos; simp at hpos
      | cons x xs => exact ⟨x, xs, rfl⟩
    have hx0 : (chunks.getD a0 []).getD 0 Val.nan = x := by
      rw [cursor_val chunks a0 0 ha0 hlen0, hpre0, hxs]; rfl
    have hfirst : chunks.getD (normI (chunks.length : Int) 0).toNat [] = chunks.getD 0 [] := by
      rw [normI_nonneg _ _ (Int.le_refl 0)]; rfl
    have hidx0 : (normI ((chunks.getD a0 []).length : Int) 0).toNat = 0 := by
      rw [normI_nonneg _ _ (Int.le_refl 0)]; rfl
    have hne0 : ¬ ((((chunks.getD a0 []).length : Nat) : Int) = 0) := by omega
    have hd0 : decide ((((chunks.getD a0 []).length : Nat) : Int) = 0) = false := decide_eq_false hne0
    have hadv1' : (rangeI (chunks.length : Int)).foldl (monotonic_factorization_loop1_step k chunks) ⟨(0 : Int), chunks.getD 0 []⟩
        = ⟨(a0 : Int), chunks.getD a0 []⟩ := by simpa using hadv1
    have hn00 : normI (chunks.flatten.length : Int) 0 = 0 := normI_nonneg _ _ (Int.le_refl 0)
    have hw0 : wrapU 32 (0 : Int) = 0 := by simp [wrapU]
    simp only [r, monotonic_factorization, hc, Bool.false_eq_true, if_false, hfirst, hadv1', hidx0, hx0, hd0, hn00, hw0,
      Bool.not_false, Bool.not_true, Bool.or_false]
    have hmodel : monotonicFactorization Val.lt Val.gt (fun x => Val.neF x x) chunks.flatten =
        (if Val.neF x x then (0, [], []) else mgo x 1 [0] [x] xs) := by
      rw [hxs]; rfl
    rw [hmodel]
    by_cases hnx : Val.neF x x = true
    · simp [hnx, MAgree]
    · simp only [hnx, Bool.false_eq_true, if_false]
      -- the main loop
      have hinv : MInvS chunks 1
          ⟨0, (a0 : Int), chunks.getD a0 [], aset (fun _ => Val.num 0) 0 x, 1, aset (fun _ => (0 : Int)) 0 0, x, false, false,
            none⟩ x [0] [x] := by
        refine ⟨⟨a0, 0, ha0, by omega, hlen0, rfl, rfl, rfl⟩, rfl, ⟨by simp, by simp⟩, ?_, rfl, ?_, rfl, rfl, rfl, rfl⟩
        · intro j hj
          have : j = 0 := by simpa using hj
          subst this; simp [aset_apply]
        · intro j hj
          have : j = 0 := by omega
          subst this; simp [aset_apply]
      have hxsl : 1 + xs.length = chunks.flatten.length := by rw [hxs]; simp; omega
      have hml := main_loop k chunks htot xs 1 _ x [0] [x] hxsl
        (by
          intro j hj
          rw [hxs]
          have : 1 + j = j + 1 := by omega
          rw [this]; simp [List.getD_eq_getElem?_getD, hj])
        hinv
      have hxl : xs.length = chunks.flatten.length - 1 := by omega
      rw [rangeI2_one _ hpos, ← hxl]
      obtain ⟨herr, hagree⟩ := hml
      generalize hfin : ((List.range' 1 xs.length).map (fun q : Nat => (q : Int))).foldl
        (monotonic_factorization_loop2_step k chunks chunks.flatten.length chunks.flatten.length)
        ⟨0, (a0 : Int), chunks.getD a0 [], aset (fun _ => Val.num 0) 0 x, 1, aset (fun _ => (0 : Int)) 0 0, x, false, false,
          none⟩ = fin at *
      constructor
      · -- the returned triple
        cases hr : fin.ret with
        | some rr => simpa [mresult, hr] using hagree
        | none =>
          simp only [mresult, hr] at hagree ⊢
          have hlast : ((List.range' 1 xs.length).map (fun q : Nat => (q : Int))).getLastD 0 + 1 = (chunks.flatten.length : Int) := by
            by_cases h2 : 2 ≤ chunks.flatten.length
            · rw [hxl, getLastD_range' _ h2]; omega
            · have h1 : chunks.flatten.length = 1 := by omega
              have : xs.length = 0 := by omega
              simp [this, h1]
          rw [hlast]
          exact hagree
      · intro hne1
        have hxpos : 0 < xs.length := by rw [hxl]; omega
        have hne : ¬ ((List.range' 1 xs.length).map (fun q : Nat => (q : Int))).isEmpty = true := by
          obtain ⟨m, hm⟩ : ∃ m, xs.length = m + 1 := ⟨xs.length - 1, by omega⟩
          rw [hm, List.range'_succ]; simp
        cases hr : fin.ret <;> simp [herr, hne]

end GV.LoopBridge
