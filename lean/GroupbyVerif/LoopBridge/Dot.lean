import GroupbyVerif.LoopBridge.Basic
import GroupbyVerif.Generated.Loops

/-!
# Bridge: the translated `_nb_dot` is the matrix-vector product, row by row

`a` is the list of columns (what `nb_dot` builds from an array or a frame), `b` the vector, `out` the zero-initialised
accumulator.  Every row is touched only by its own outer iteration; inside it the columns are added from left to right.
-/

namespace GV.LoopBridge
open GV GV.Generated.Loops

/-- entry `(row r, column c)` of the matrix given by its columns -/
def matAt (a : List (List Val)) (c r : Nat) : Val := (a.getD c []).getD r .nan

/-- the accumulation of one row: `acc + a[c][r] * b[c]` over the columns from left to right -/
def dotRow (a : List (List Val)) (b : List Val) (r : Nat) (acc : Val) (ncols : Nat) : Val :=
  (List.range ncols).foldl (fun s c => Val.add s (Val.mul (matAt a c r) (b.getD c .nan))) acc

theorem dot_inner (k : Kind) (a : List (List Val)) (b : List Val) (olen : Int) (r : Nat) (hr : (r : Int) < olen)
    (m : Nat) (st : Nb_dot_loop2St) :
    let st' := ((List.range m).map (fun c : Nat => (c : Int))).foldl
      (nb_dot_loop2_step k a b.length (arrOf b .nan) (r : Int) olen) st
    st'.out' (r : Int) = dotRow a b r (st.out' (r : Int)) m ∧ ∀ j : Int, j ≠ (r : Int) → st'.out' j = st.out' j := by
  induction m with
  | zero => simp [dotRow]
  | succ m ih =>
    obtain ⟨ih1, ih2⟩ := ih
    rw [List.range_succ, List.map_append, List.foldl_append]
    simp only [List.map_cons, List.map_nil, List.foldl_cons, List.foldl_nil]
    generalize ((List.range m).map (fun c : Nat => (c : Int))).foldl
      (nb_dot_loop2_step k a b.length (arrOf b .nan) (r : Int) olen) st = mid at ih1 ih2
    simp only [nb_dot_loop2_step, normI_natCast, arrOf_natCast, Int.toNat_natCast]
    constructor
    · simp only [aset_same, ih1, dotRow, List.range_succ, List.foldl_append, List.foldl_cons, List.foldl_nil, matAt]
    · intro j hj
      simp only [aset_apply, hj, if_false]
      exact ih2 j hj

/-- **`_nb_dot` computes every row's dot product**: with `nrows = len(a[0])` rows, the cell of row `r < nrows` is the
initial cell plus `a[c][r] * b[c]` summed over the columns in order; cells beyond stay as they were; no error -/
theorem nb_dot_eq (k : Kind) (a : List (List Val)) (b : List Val) (olen : Nat) (out0 : Int → Val)
    (hrows : (a.getD 0 []).length ≤ olen) :
    let r := nb_dot k a b.length (arrOf b .nan) olen out0
    r.2 = false ∧ (∀ i : Nat, i < (a.getD 0 []).length → r.1 (i : Int) = dotRow a b i (out0 (i : Int)) b.length) ∧
      (∀ i : Nat, (a.getD 0 []).length ≤ i → r.1 (i : Int) = out0 (i : Int)) := by
  intro r
  have key : ∀ t : Nat, t ≤ (a.getD 0 []).length →
      let st := ((List.range t).map (fun i : Nat => (i : Int))).foldl
        (nb_dot_loop1_step k a b.length (arrOf b .nan) olen) ⟨out0⟩
      (∀ i : Nat, i < t → st.out' (i : Int) = dotRow a b i (out0 (i : Int)) b.length) ∧
        (∀ i : Nat, t ≤ i → st.out' (i : Int) = out0 (i : Int)) := by
    intro t
    induction t with
    | zero => intro _; simp
    | succ t ih =>
      intro ht
      obtain ⟨ih1, ih2⟩ := ih (by omega)
      rw [List.range_succ, List.map_append, List.foldl_append]
      simp only [List.map_cons, List.map_nil, List.foldl_cons, List.foldl_nil]
      generalize ((List.range t).map (fun i : Nat => (i : Int))).foldl
        (nb_dot_loop1_step k a b.length (arrOf b .nan) olen) ⟨out0⟩ = mid at ih1 ih2
      have hin := dot_inner k a b olen t (by omega) b.length ⟨mid.out'⟩
      simp only [nb_dot_loop1_step, rangeI_natCast]
      obtain ⟨h1, h2⟩ := hin
      simp only at h1 h2
      constructor
      · intro i hi
        by_cases e : i = t
        · subst e; rw [h1, ih2 i (Nat.le_refl _)]
        · rw [h2 (i : Int) (by omega)]; exact ih1 i (by omega)
      · intro i hi
        rw [h2 (i : Int) (by omega)]; exact ih2 i (by omega)
  have hz : normI (a.length : Int) 0 = 0 := normI_nonneg _ _ (Int.le_refl 0)
  obtain ⟨h1, h2⟩ := key (a.getD 0 []).length (Nat.le_refl _)
  simp only [r, nb_dot, hz, Int.toNat_zero, rangeI_natCast]
  exact ⟨trivial, h1, h2⟩

/-- on integer-valued cells the accumulation is the ordinary sum of products -/
theorem dotRow_num (a : List (List Val)) (b : List Val) (r : Nat) (s0 : Int) (ncols : Nat) (x : Nat → Int) (y : Nat → Int)
    (ha : ∀ c, c < ncols → matAt a c r = .num (x c)) (hb : ∀ c, c < ncols → b.getD c .nan = .num (y c)) :
    dotRow a b r (.num s0) ncols = .num (s0 + ((List.range ncols).map fun c => x c * y c).sum) := by
  induction ncols with
  | zero => simp [dotRow]
  | succ m ih =>
    have := ih (fun c hc => ha c (by omega)) (fun c hc => hb c (by omega))
    unfold dotRow at this ⊢
    rw [List.range_succ, List.foldl_append, this]
    simp only [List.foldl_cons, List.foldl_nil, ha m (by omega), hb m (by omega), Val.mul, Val.add, List.map_append,
      List.map_cons, List.map_nil, List.sum_append, List.sum_cons, List.sum_nil]
    congr 1
    omega

end GV.LoopBridge
